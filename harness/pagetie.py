"""The tie of the page theorems (C01_page_yields_exactly_its_notes / C02_scoping_on_pages) to the code:
on generated abstract pages, (1) the theorem's hypothesis holds (valid_pageb, evaluated in the extracted model),
(2) tree_of_page equals the tree the real ANTLR parser builds for the page's text, (3) spec_page equals what
the real compiler produces.  (2)+(3) make the theorem speak about the real pipeline for exactly these pages."""
import datetime as dt

from harness import apage, fc, fcwork


def _norm(t):
    return ["N", t[1], int(t[2]), [_norm(k) for k in t[3]]] if t[0] == "N" else list(t)


def _first_diff(a, b, path=""):
    if a == b:
        return None
    if a[0] != b[0] or a[0] != "N":
        return [path, a if a[0] != "N" else a[:3], b if b[0] != "N" else b[:3]]
    if a[1:3] != b[1:3]:
        return [path, a[:3], b[:3]]
    if len(a[3]) != len(b[3]):
        return [path + "/" + a[1], "children", [k[1] for k in a[3]], [k[1] for k in b[3]]]
    for j, (x, y) in enumerate(zip(a[3], b[3])):
        d = _first_diff(x, y, "%s/%s[%d]" % (path, a[1], j))
        if d:
            return d
    return None


def run(eng, pool, rng, oc, n, today, prop):
    """-> True when nothing failed.  Failures are recorded in oc (spec_fail with a concrete page / corr_mismatch)."""
    pages = [apage.gen_apage(rng) for _ in range(n)]
    texts = [apage.render(p) for p in pages]
    results = pool.map(fcwork.compile_job, [(t, today, True) for t in texts], chunksize=8)
    invalid = 0
    for pg, text, res in zip(pages, texts, results):
        oc.evaluations += 1
        case = {"page_text": text, "apage": pg}
        if not (eng.call("page_valid", pg) == "t"):
            # outside the theorem's domain: nothing is claimed about this page (the generator aims at valid pages only;
            # more than a few invalid ones means the domain and the generator have drifted apart)
            oc.count("theorem_hypothesis_false")
            invalid += 1
            if invalid > max(3, n // 10):
                oc.corr_mismatch.append(("theorem hypothesis valid_pageb fails on too many generated pages", case, None, False))
                return False
            continue
        spec = [fc.model_note(m) for m in eng.call("page_spec", list(today), pg)]
        # (3) the property itself on the implementation: exactly the notes written, in order, with their metadata
        bad = None
        if res["status"] != "ok":
            bad = {"exception": res["status"], "site": res.get("site")}
        elif res["nerrors"] or res["has_errors"]:
            bad = {"syntax_errors": res["nerrors"], "has_errors": res["has_errors"]}
        elif res["notes"] != spec:
            if len(res["notes"]) != len(spec):
                bad = {"number_of_notes": [len(spec), len(res["notes"])]}
            else:
                for a, b in zip(spec, res["notes"]):
                    if a != b:
                        bad = {"line": a["line"], "fields[written,compiled]": {k: [a[k], b[k]] for k in a if a[k] != b[k]}}
                        break
        if bad:
            oc.spec_fail.append((case, bad, "the page compiles to exactly the notes written in it (spec_page)", None))
            return False
        # (2) the parser builds the tree the theorem is about
        mt = _norm(eng.call("page_tree", pg))
        if mt != res["tree"]:
            oc.corr_mismatch.append(("tree_of_page vs the ANTLR parse tree", case, _first_diff(mt, res["tree"]), "equal trees"))
            return False
        oc.count("theorem_pages")
        sz = apage.size(pg)
        oc.count("theorem_page_sections_%d" % min(sz["sections"], 6))
        if sz["sections"] >= 1 and len(spec) >= 2:
            oc.nontriv(text)
    return True
