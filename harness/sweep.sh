#!/bin/bash
# run every quick check under several seeds on the current tree; report alarms (false alarms on an unchanged tree)
# usage: harness/sweep.sh "2 3 4" [tier]
cd "$(dirname "$0")/.."
seeds=${1:-"2 3 4"}; tier=${2:-quick}
mkdir -p build/sweep
for s in $seeds; do
  for p in C01 C02 C03 C04 C05 C06 C07 C08 C09 C10 C11 C12 C13 C14 C15 C16 C17 C18; do echo "$s $p"; done
done | xargs -P 4 -L 1 bash -c 'cp evidence/$1.json build/sweep/$1.ev.$$ 2>/dev/null; VERIF_SEED=$0 ./check $1 --tier '"$tier"' > build/sweep/$1.$0.log 2>&1; echo "seed=$0 $1 rc=$? $(grep -c VIOLATION build/sweep/$1.$0.log)"; cp build/sweep/$1.ev.$$ evidence/$1.json 2>/dev/null; rm -f build/sweep/$1.ev.$$'
