"""Abstract well-formed pages (the domain of the page theorems in coq/Props/C01.v, C02.v):
generator, canonical text, S-expression for coq/Model/PageSyntax.v (dPage)."""
import datetime as dt

ZCH = "0123456789ABCDEFGHJKLMNPRTUVWXYZabcdefhkmnorstuvwxz"
PLAIN = ["foo", "bar", "Baz_1", "x1", "UPPER", "snake_case", "note", "a1b2", "0x1f", "42", "7days", "oo", "xx", "Px", "P10"]
LOOKALIKE = ["240101", "991231", "240101a", "12345", "1234567"]       # ID tokens that resemble identity words
NAMES = ["sh1", "sh2", "Sh3", "t", "tag_x", "Z9", "home", "work", "1_000", "2024_05", "3_1"]       # digits joined by _ are names, not numbers
RULERS = ["################################", "========================", "++++++++++++++++", "--------"]


def rand_date(rng, lo=2000, hi=2099):
    return dt.date(rng.randint(lo, hi), rng.randint(1, 12), rng.randint(1, 28))


def short(d):
    return d.strftime("%y%m%d")


def rand_zid(rng):
    return short(rand_date(rng)) + "#" + "".join(rng.choice(ZCH) for _ in range(rng.choice([2, 2, 2, 3])))


def gen_word(rng, uid, first_ok=False):
    """One word. first_ok: the word may stand right after an identity-less prefix (never date/zid-like)."""
    r = rng.random()
    uid[0] += 1
    name = rng.choice(NAMES) if rng.random() < 0.4 else "n%d" % uid[0]
    if r < 0.35:
        return ["id", rng.choice(PLAIN)]
    if r < 0.45:
        return ["id", rng.choice(LOOKALIKE)]
    if r < 0.65:
        return ["tag", rng.choice("#@%+"), name if rng.random() < 0.85 else str(rng.randint(0, 999))]
    if r < 0.75:
        return ["link", name]
    if r < 0.87:
        return ["prop", rng.choice(["k", "due", "shared", "key_%d" % (uid[0] % 3)]), rng.choice(["v%d" % uid[0], "7", "val", "240101"])]
    if r < 0.94:
        return ["date", rand_date(rng).isoformat()]
    return ["zid", rand_zid(rng)]


def gen_words(rng, uid, lo, hi):
    return [gen_word(rng, uid) for _ in range(rng.randint(lo, hi))]


def gen_item(rng, uid):
    kind = rng.choice(["-", "-", "o", "o", "x", "~", "<", ">"])
    prio = ("P%d" % rng.randint(0, 9)) if kind != "-" and rng.random() < 0.6 else None
    r = rng.random()
    if r < 0.35:
        ident = ["plain", rng.choice(PLAIN)]
    elif r < 0.6:
        ident = ["zid", rand_zid(rng)]
    elif r < 0.8:
        z = rand_zid(rng)
        # also: a modify date equal to the creation date the ZID carries
        ident = ["modzid", z[:6] if rng.random() < 0.3 else short(rand_date(rng)), z]
    elif r < 0.92:
        ident = ["long", rand_date(rng).isoformat()]
    else:
        ident = ["mod", short(rand_date(rng))]       # an edited note that has no ZID: a modify date alone
    lo = 1 if ident[0] == "long" and rng.random() < 0.9 else 0
    words = gen_words(rng, uid, lo, 5)
    if ident[0] == "mod":
        # the word after the date must not be ZID-shaped (it would be the note's ZID: that is the form "modzid");
        # long dates, six-digit look-alikes and everything else are body words
        while words and words[0][0] == "zid":
            words = words[1:]
        if rng.random() < 0.5:
            words = [["date", rand_date(rng).isoformat()]] + words
    return [kind, [prio] if prio else None, ident, words]


def gen_comment(rng, uid):
    """an in-block comment line: ["#", words] - its tags / links / properties / dates belong to no note"""
    return ["#", gen_words(rng, uid, 1, 4)]


def gen_blocks(rng, uid, lo=0, hi=2):
    bs = []
    for _ in range(rng.randint(lo, hi)):
        b = []
        for _ in range(rng.randint(1, 3)):
            if rng.random() < 0.2:
                b.append(gen_comment(rng, uid))
            b.append(gen_item(rng, uid))
        if rng.random() < 0.15:
            b.append(gen_comment(rng, uid))
        bs.append(b)
    # a block that repeats an earlier block of the same section word for word (items without a ZID of their own)
    if bs and rng.random() < 0.2:
        src = rng.choice(bs)
        dup = [e for e in src if e[0] != "#" and e[2][0] in ("plain", "long", "mod")]
        if dup:
            import copy
            bs.append(copy.deepcopy(dup if rng.random() < 0.7 else dup[:1]))
    return bs


def is_comment(e):
    return e[0] == "#" and len(e) == 2


def gen_sec(rng, uid, lvl):
    title = [["id", rng.choice(["Alpha", "Zed", "Mid", "w"])]] + gen_words(rng, uid, 0, 3)
    subs = []
    if lvl < 3:
        subs = [gen_sec(rng, uid, lvl + 1) for _ in range(rng.choice([0, 0, 1, 2]))]
    return [title, gen_blocks(rng, uid), subs]


def gen_apage(rng):
    uid = [0]
    title = [["id", "Title"]] + gen_words(rng, uid, 0, 3)
    return [title, gen_blocks(rng, uid), [gen_sec(rng, uid, 1) for _ in range(rng.choice([0, 0, 1, 2]))],
            [gen_sec(rng, uid, 0) for _ in range(rng.choice([0, 1, 2]))]]


def word_text(w):
    k = w[0]
    if k in ("id", "date", "zid"):
        return w[1]
    if k == "tag":
        return w[1] + w[2]
    if k == "link":
        return "[[%s]]" % w[1]
    if k == "prop":
        return "%s::%s" % (w[1], w[2])
    raise ValueError(k)


def ident_words(i):
    return {"plain": lambda: [["id", i[1]]], "zid": lambda: [["zid", i[1]]],
            "modzid": lambda: [["id", i[1]], ["zid", i[2]]], "long": lambda: [["date", i[1]]],
            "mod": lambda: [["id", i[1]]]}[i[0]]()


def render_item(it):
    kind, prio, ident, words = it
    ws = ident_words(ident) + words
    return kind + (" " + prio[0] if prio else "") + "".join(" " + word_text(w) for w in ws)


def render_elem(e):
    return "#" + "".join(" " + word_text(w) for w in e[1]) if is_comment(e) else render_item(e)


def render_blocks(bs):
    out = []
    for b in bs:
        out += [render_elem(e) for e in b] + [""]
    return out


def render_sec(s, lvl):
    title, bs, subs = s
    out = [RULERS[lvl] + "".join(" " + word_text(w) for w in title), ""] + render_blocks(bs)
    for x in subs:
        out += render_sec(x, lvl + 1)
    return out


def render(pg):
    title, bs, h2s, h1s = pg
    out = ["#" + "".join(" " + word_text(w) for w in title), ""] + render_blocks(bs)
    for s in h2s:
        out += render_sec(s, 1)
    for s in h1s:
        out += render_sec(s, 0)
    return "\n".join(out) + "\n"


def size(pg):
    def sec(s):
        return 1 + sum(sec(x) for x in s[2])
    return {"sections": sum(sec(s) for s in pg[2] + pg[3]),
            "items": render(pg).count("\n") }
