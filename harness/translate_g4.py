"""Translate the ANTLR .g4 grammars of /repo into Coq tables.

Lexer rules  -> regular expressions (coq/Lex/Regex.v `re`), fragments inlined,
               in the priority order of the generated lexer's `ruleNames`
               (implicit literal tokens T__n first, from the .tokens file).
Parser rules -> EBNF terms (coq/Zo/Gexpr.v `gexpr`).

Fail-closed: any construct not understood raises.
"""
import ast
import os
import re

GRAMMAR = "/repo/src/zorg/grammar"


class G4Error(Exception):
    pass


def strip_comments(src: str) -> str:
    out, i, n = [], 0, len(src)
    while i < n:
        c = src[i]
        if c == "'":
            j = i + 1
            while src[j] != "'":
                j += 2 if src[j] == "\\" else 1
            out.append(src[i:j + 1])
            i = j + 1
        elif c == "[" and False:
            pass
        elif src.startswith("//", i):
            while i < n and src[i] != "\n":
                i += 1
        elif src.startswith("/*", i):
            i = src.index("*/", i) + 2
        else:
            out.append(c)
            i += 1
    return "".join(out)


TOKEN_RE = re.compile(r"'(?:\\.|[^'\\])*'|\[(?:\\.|[^\]\\])*\]|[A-Za-z_][A-Za-z_0-9]*|\.\.|[():;|?*+~]|\s+")


def split_rules(src: str):
    """Returns [(name, is_fragment, [tokens])] in file order, plus header info."""
    src = strip_comments(src)
    # A char set like [[\],!;|\\`{}] only occurs in lexer rules; the tokenizer handles it,
    # but '[' as a *parser* literal is always quoted, so a bare '[' starts a set.
    toks, pos = [], 0
    while pos < len(src):
        m = TOKEN_RE.match(src, pos)
        if not m:
            raise G4Error("cannot tokenize at %r" % src[pos:pos + 30])
        t = m.group(0)
        pos = m.end()
        if not t.isspace():
            toks.append(t)
    rules, i = [], 0
    header = {"grammar": None, "imports": [], "kind": "combined"}
    while i < len(toks):
        if toks[i] in ("grammar", "lexer", "parser") and header["grammar"] is None:
            if toks[i] in ("lexer", "parser"):
                header["kind"] = toks[i]
                i += 1
            assert toks[i] == "grammar"
            header["grammar"] = toks[i + 1]
            assert toks[i + 2] == ";"
            i += 3
            continue
        if toks[i] == "import":
            header["imports"].append(toks[i + 1])
            assert toks[i + 2] == ";"
            i += 3
            continue
        frag = False
        if toks[i] == "fragment":
            frag = True
            i += 1
        name = toks[i]
        if toks[i + 1] != ":":
            raise G4Error("expected ':' after rule name %s, got %s" % (name, toks[i + 1]))
        j = i + 2
        body = []
        while toks[j] != ";":
            body.append(toks[j])
            j += 1
        rules.append((name, frag, body))
        i = j + 1
    return header, rules


# the tokenizer above has ':' only inside the punctuation class via rule syntax
TOKEN_RE = re.compile(r"'(?:\\.|[^'\\])*'|\[(?:\\.|[^\]\\])*\]|[A-Za-z_][A-Za-z_0-9]*|\.\.|[():;|?*+~]|\s+")


def unquote(lit: str) -> str:
    """ANTLR literal -> python string."""
    body = lit[1:-1]
    out, i = [], 0
    while i < len(body):
        c = body[i]
        if c == "\\":
            d = body[i + 1]
            out.append({"n": "\n", "r": "\r", "t": "\t", "'": "'", "\\": "\\"}.get(d))
            if out[-1] is None:
                raise G4Error("unknown escape \\%s" % d)
            i += 2
        else:
            out.append(c)
            i += 1
    return "".join(out)


def charset(tok: str) -> list:
    body = tok[1:-1]
    out, i = [], 0
    while i < len(body):
        c = body[i]
        if c == "\\":
            d = body[i + 1]
            v = {"n": "\n", "r": "\r", "t": "\t", "]": "]", "\\": "\\", "-": "-"}.get(d)
            if v is None:
                raise G4Error("unknown set escape \\%s" % d)
            out.append(v)
            i += 2
        elif c == "-" and out and i + 1 < len(body):
            raise G4Error("ranges inside [] not supported")
        else:
            out.append(c)
            i += 1
    return out


# ---- expression parser (shared by lexer and parser rules) -------------------
class P:
    def __init__(self, toks):
        self.t = toks
        self.i = 0

    def peek(self):
        return self.t[self.i] if self.i < len(self.t) else None

    def eat(self):
        t = self.t[self.i]
        self.i += 1
        return t

    def alt(self):
        alts = [self.seq()]
        while self.peek() == "|":
            self.eat()
            alts.append(self.seq())
        return alts[0] if len(alts) == 1 else ("alt", alts)

    def seq(self):
        items = []
        while self.peek() is not None and self.peek() not in ("|", ")"):
            items.append(self.postfix())
        return items[0] if len(items) == 1 else ("seq", items)

    def postfix(self):
        a = self.atom()
        while self.peek() in ("?", "*", "+"):
            op = self.eat()
            a = ({"?": "opt", "*": "star", "+": "plus"}[op], a)
        return a

    def atom(self):
        t = self.eat()
        if t == "(":
            a = self.alt()
            if self.eat() != ")":
                raise G4Error("expected )")
            return a
        if t.startswith("'"):
            s = unquote(t)
            if self.peek() == "..":
                self.eat()
                hi = unquote(self.eat())
                if len(s) != 1 or len(hi) != 1:
                    raise G4Error("bad range")
                return ("rng", ord(s), ord(hi))
            return ("lit", s)
        if t.startswith("["):
            return ("alt", [("lit", c) for c in charset(t)])
        if re.match(r"[A-Za-z_]", t):
            return ("ref", t)
        raise G4Error("unsupported construct %r" % t)


def parse_body(toks):
    p = P(toks)
    e = p.alt()
    if p.peek() is not None:
        raise G4Error("trailing tokens %r" % toks[p.i:])
    return e


# ---- lexer tables ----------------------------------------------------------
def coq_re(e, rules, stack=()):
    k = e[0]
    if k == "lit":
        s = e[1]
        if s == "":
            return "Eps"
        parts = ["(Rng %d %d)" % (ord(c), ord(c)) for c in s]  # N literals (file opens N_scope)
        r = parts[-1]
        for p in reversed(parts[:-1]):
            r = "(Seq %s %s)" % (p, r)
        return r
    if k == "rng":
        return "(Rng %d %d)" % (e[1], e[2])
    if k == "ref":
        if e[1] in stack:
            raise G4Error("recursive lexer rule %s" % e[1])
        if e[1] not in rules:
            raise G4Error("unknown lexer rule %s" % e[1])
        return coq_re(rules[e[1]], rules, stack + (e[1],))
    if k == "seq":
        if not e[1]:
            return "Eps"
        parts = [coq_re(x, rules, stack) for x in e[1]]
        r = parts[-1]
        for p in reversed(parts[:-1]):
            r = "(Seq %s %s)" % (p, r)
        return r
    if k == "alt":
        parts = [coq_re(x, rules, stack) for x in e[1]]
        r = parts[-1]
        for p in reversed(parts[:-1]):
            r = "(Alt %s %s)" % (p, r)
        return r
    if k == "opt":
        return "(Alt Eps %s)" % coq_re(e[1], rules, stack)
    if k == "star":
        return "(Star %s)" % coq_re(e[1], rules, stack)
    if k == "plus":
        x = coq_re(e[1], rules, stack)
        return "(Seq %s (Star %s))" % (x, x)
    raise G4Error("bad node %r" % (e,))


def read_tokens_file(path):
    """-> (names: {name: n}, literals: {n: text})"""
    names, lits = {}, {}
    for line in open(path):
        line = line.rstrip("\n")
        if not line:
            continue
        m = re.match(r"^('(?:\\.|[^'\\])*')=(\d+)$", line)
        if m:
            lits[int(m.group(2))] = unquote(m.group(1))
            continue
        m = re.match(r"^([A-Za-z_0-9]+)=(\d+)$", line)
        if not m:
            raise G4Error("bad .tokens line %r" % line)
        names[m.group(1)] = int(m.group(2))
    return names, lits


def rule_names_of_generated_lexer(pyfile):
    src = open(pyfile).read()
    m = re.search(r"ruleNames\s*=\s*(\[[^\]]*\])", src)
    return ast.literal_eval(m.group(1))


def lexer_table(grammar_g4, lexer_py, tokens_file):
    """[(rule_name, token_type_number, coq_regex)] in priority order (token rules only)."""
    hdr, rules = split_rules(open(grammar_g4).read())
    lex_rules = {}
    fragments = set()
    order = []
    sources = [rules]
    for imp in hdr["imports"]:
        _, r2 = split_rules(open(os.path.join(GRAMMAR, imp + ".g4")).read())
        sources.append(r2)
    for rs in sources:
        for name, frag, body in rs:
            if name[0].isupper():
                lex_rules[name] = parse_body(body)
                if frag:
                    fragments.add(name)
                order.append(name)
    names, lits = read_tokens_file(tokens_file)
    rule_names = rule_names_of_generated_lexer(lexer_py)
    table = []
    for rn in rule_names:
        if rn.startswith("T__"):
            n = names[rn]
            table.append((rn, n, coq_re(("lit", lits[n]), lex_rules)))
        elif rn in fragments:
            continue
        else:
            if rn not in lex_rules:
                raise G4Error("generated lexer has rule %s unknown to the .g4" % rn)
            table.append((rn, names[rn], coq_re(lex_rules[rn], lex_rules)))
    # every token rule of the .g4 must be in the generated lexer
    for name in order:
        if name not in fragments and name not in rule_names:
            raise G4Error(".g4 token rule %s missing from generated lexer" % name)
    return table, lex_rules, fragments


def fragment_ranges(lex_rules, name):
    """Expand a fragment that is a union of chars/ranges into [(lo, hi)]."""
    def go(e):
        k = e[0]
        if k == "rng":
            return [(e[1], e[2])]
        if k == "lit" and len(e[1]) == 1:
            return [(ord(e[1]), ord(e[1]))]
        if k == "ref":
            return go(lex_rules[e[1]])
        if k == "alt":
            return [r for x in e[1] for r in go(x)]
        raise G4Error("fragment %s is not a character class" % name)
    return go(lex_rules[name])


def emit_lex_rules():
    out = ["(* GENERATED by harness/translate_g4.py from /repo/src/zorg/grammar — do not edit *)",
           "From Zorg Require Import Base.PyStr Lex.Regex.", "Local Open Scope N_scope.", ""]
    tabs = {}
    for key, g4, py, tok in [
        ("file", "ZorgFile.g4", "zorg_file/ZorgFileLexer.py", "zorg_file/ZorgFileLexer.tokens"),
        ("query", "ZorgQuery.g4", "zorg_query/ZorgQueryLexer.py", "zorg_query/ZorgQueryLexer.tokens"),
    ]:
        table, lex_rules, frags = lexer_table(os.path.join(GRAMMAR, g4), os.path.join(GRAMMAR, py),
                                              os.path.join(GRAMMAR, tok))
        tabs[key] = (table, lex_rules)
        out.append("Definition %s_lex_rules : list (string * N * re) := [" % key)
        out.append(";\n".join('  ("%s"%%string, %d, %s)' % (n, t, r) for n, t, r in table))
        out.append("].")
        out.append("")
        for n, t, r in table:
            if n in ("ZID", "SHORT_DATE", "ID", "DATE", "PRIORITY", "TIME"):
                out.append("Definition %s_rule_%s : re := %s." % (key, n, r))
        zc = fragment_ranges(lex_rules, "ZID_CHAR")
        out.append("Definition %s_zid_char_ranges : list (N * N) := [%s]." % (
            key, "; ".join("(%d, %d)" % r for r in zc)))
        out.append("")
    return "\n".join(out) + "\n"


if __name__ == "__main__":
    print(emit_lex_rules()[:3000])
