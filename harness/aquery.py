"""Abstract well-formed queries (the domain of the query theorem in coq/Props/C04.v):
generator, text, S-expression for coq/Model/QuerySyntax.v (dQuery)."""

KINDS = [["o"], ["x"], ["-"], ["~"], ["<"], [">"], ["-", "o"], ["o", "-"], ["x", "~"], ["<", ">"], ["o", "-", "x"], ["~", "o", "<"]]
NAMES = ["a1", "home", "work", "tag_x", "Zed", "p10", "bob"]
KEYS = ["due", "k", "ab_c", "shared"]
VALUES = ["v1", "42", "val", "007", "Some_Value", "x9"]
DATE_LOOKALIKES = ["45min", "2days", "3m_left", "1y2", "10D_x", "7d7", "0d0", "12month"]
HEADS = ["240101", "231201", "5d", "-3d", "10m", "-2m", "1y", "0d", "700315", "991231", "690101", "680229"]   # YY >= 69 is 20YY too
DIRS = ["sub", "a", "deep_1"]
OKEYS = ["alpha", "create", "modify", "priority", "type", "none"]
GKEYS = ["file", "section", "type", "priority", "#", "@", "%", "+"]


def gen_atom(rng, depth):
    r = rng.random()
    if r < 0.14:
        return ["kinds", list(rng.choice(KINDS))]
    if r < 0.24:
        lo = rng.randint(0, 9)
        return ["prio", "P%d" % lo, [str(rng.randint(max(lo, 1), 9))] if rng.random() < 0.5 and lo < 9 else None]
    if r < 0.44:
        return ["tag", rng.random() < 0.3, rng.choice("#@%+"), rng.choice(NAMES)]
    if r < 0.52:
        return ["create", "^" + rng.choice(HEADS), [":" + rng.choice(HEADS)] if rng.random() < 0.5 else None]
    if r < 0.60:
        return ["modify", "$" + rng.choice(HEADS), [":" + rng.choice(HEADS)] if rng.random() < 0.5 else None]
    if r < 0.74:
        if rng.random() < 0.25:
            return ["prop", rng.random() < 0.3, rng.choice(KEYS), None, None]
        if rng.random() < 0.2:
            # values that BEGIN like a relative date (digits + d/m/y) but go on: ordinary strings
            return ["prop", rng.random() < 0.3, rng.choice(KEYS), [rng.choice(["<", "<=", ">=", ">"])], [rng.choice(DATE_LOOKALIKES)]]
        return ["prop", rng.random() < 0.3, rng.choice(KEYS), rng.choice([None, None, ["<"], ["<="], [">="], [">"]]), [rng.choice(VALUES)]]
    if r < 0.81:
        return ["link", rng.random() < 0.3, rng.sample(DIRS, rng.choice([0, 0, 1, 2])), rng.choice(NAMES)]
    if r < 0.88:
        return ["file", rng.random() < 0.3, rng.sample(DIRS, rng.choice([0, 0, 1, 2])), rng.choice(NAMES), rng.random() < 0.3]
    if depth > 0:
        return ["sub", gen_or(rng, depth - 1)]
    return ["tag", False, "#", rng.choice(NAMES)]


def gen_and(rng, depth):
    return [gen_atom(rng, depth) for _ in range(rng.choice([1, 1, 2, 2, 3, 4]))]


def gen_or(rng, depth):
    return [gen_and(rng, depth) for _ in range(rng.choice([1, 1, 1, 2, 3]))]


def gen_select(rng):
    r = rng.random()
    f = (["file"] if r < 0.15 else ["note"] if r < 0.45 else ["prop"] if r < 0.55 else ["links"] if r < 0.62
         else ["pv", rng.choice(KEYS)] if r < 0.75 else ["tag", rng.choice("#@%+")])
    return ["count" if rng.random() < 0.25 else "sel", f]


def gen_og(rng):
    r = rng.random()
    os_ = [rng.choice(OKEYS) for _ in range(rng.randint(1, 3))]
    # keys may repeat (G file file): every atom is one grouping level
    gs = ["none"] if rng.random() < 0.2 else ([rng.choice(GKEYS) for _ in range(rng.randint(1, 4))] if rng.random() < 0.4
                                                else rng.sample(GKEYS, rng.randint(1, 4)))
    if r < 0.3:
        return ["none"]
    if r < 0.5:
        return ["o", os_]
    if r < 0.7:
        return ["g", gs]
    if r < 0.85:
        return ["og", os_, gs]
    return ["go", gs, os_]


def gen_query(rng, depth=3):
    if rng.random() < 0.12:
        return ["select", gen_select(rng), gen_og(rng)]
    return ["where", [gen_select(rng)] if rng.random() < 0.4 else None, gen_or(rng, depth), gen_og(rng)]


def atom_text(a):
    k = a[0]
    if k == "kinds":
        return "".join(a[1])
    if k == "prio":
        return a[1] + ("-" + a[2][0] if a[2] else "")
    if k == "tag":
        return ("!" if a[1] else "") + a[2] + a[3]
    if k in ("create", "modify"):
        return a[1] + (a[2][0] if a[2] else "")
    if k == "prop":
        return ("!" if a[1] else "") + a[2] + ":" + (a[3][0] if a[3] else "") + (a[4][0] if a[4] else "*")
    if k == "link":
        return ("!" if a[1] else "") + "[[" + "".join(d + "/" for d in a[2]) + a[3] + "]]"
    if k == "file":
        return ("!" if a[1] else "") + "f=" + "".join(d + "/" for d in a[2]) + a[3] + ("*" if a[4] else "")
    if k == "sub":
        return "(" + or_text(a[1]) + ")"
    raise ValueError(k)


def or_text(o):
    return " | ".join(" ".join(atom_text(x) for x in a) for a in o)


def field_text(f):
    return {"file": "file", "note": "note", "prop": "prop", "links": "links"}.get(f[0]) or ("prop:" + f[1] if f[0] == "pv" else f[1])


def select_text(s):
    return "S " + ("count(%s)" % field_text(s[1]) if s[0] == "count" else field_text(s[1]))


def og_text(og):
    o = lambda ks: " O " + " ".join(ks)
    g = lambda ks: " G " + " ".join(ks)
    return {"none": lambda: "", "o": lambda: o(og[1]), "g": lambda: g(og[1]), "og": lambda: o(og[1]) + g(og[2]),
            "go": lambda: g(og[1]) + o(og[2])}[og[0]]()


def render(q):
    if q[0] == "select":
        return select_text(q[1]) + og_text(q[2])
    return (select_text(q[1][0]) + " " if q[1] else "") + "W " + or_text(q[2]) + og_text(q[3])


def depth(o):
    return max([0] + [1 + depth(x[1]) for a in o for x in a if x[0] == "sub"])
