"""Pool worker for C12: compile an item alone, render it, recompile."""
import datetime as dt


def roundtrip_job(job):
    import os
    os.dup2(os.open(os.devnull, os.O_WRONLY), 2)
    from harness import fc
    item_text, today = job
    page1 = "# h\n\n" + item_text + "\n"
    r1 = fc.compile_text(page1, dt.date(*today), False)
    if r1["status"] != "ok" or r1["nerrors"] or len(r1["notes"]) != 1:
        return {"skip": True, "r1": {k: r1[k] for k in ("status", "nerrors")}}
    # Note.to_string of the compiled note
    from pathlib import Path
    from zorg.domain.models import Note, TodoPayload
    from zorg.domain.types import NoteType
    n1 = r1["notes"][0]
    tp = TodoPayload(priority=n1["todo"][0], status=NoteType(n1["todo"][1])) if n1["todo"] else None
    text = Note(n1["body"], Path("p.zo"), n1["line"], todo_payload=tp).to_string()
    page2 = "# h\n\n" + text
    r2 = fc.compile_text(page2, dt.date(*today), False)
    return {"skip": False, "n1": n1, "text": text, "r2": {k: r2[k] for k in ("status", "nerrors", "has_errors", "notes")}}


def page_job(job):
    """All notes of a page rendered ungrouped under a header -> recompiled."""
    import os
    os.dup2(os.open(os.devnull, os.O_WRONLY), 2)
    from harness import fc
    from pathlib import Path
    from zorg.domain.models import Note, TodoPayload
    from zorg.domain.types import NoteType
    text, today, order = job
    r1 = fc.compile_text(text, dt.date(*today), False)
    if r1["status"] != "ok" or r1["nerrors"]:
        return {"skip": True}
    notes = list(r1["notes"])
    if order == "rev":
        notes.reverse()
    elif order == "alpha":
        notes.sort(key=lambda n: n["body"])
    strs = []
    for n in notes:
        tp = TodoPayload(priority=n["todo"][0], status=NoteType(n["todo"][1])) if n["todo"] else None
        strs.append(Note(n["body"], Path("p.zo"), n["line"], todo_payload=tp).to_string().rstrip())
    page2 = "# SAVED QUERY\n\n" + "\n".join(strs) + "\n"
    r2 = fc.compile_text(page2, dt.date(*today), False)
    return {"skip": False, "notes": notes, "page2": page2, "r2": {k: r2[k] for k in ("status", "nerrors", "has_errors", "notes")}}
