"""Pool worker for C12: compile an item alone, render it, recompile."""
import datetime as dt


def roundtrip_job(job):
    import os
    os.dup2(os.open(os.devnull, os.O_WRONLY), 2)
    from harness import fc
    item_text, today = job
    page1 = "# h\n\n" + item_text + "\n"
    r1 = fc.compile_text(page1, dt.date(*today), False)
    if r1["status"] != "ok" or r1["nerrors"] or len(r1["notes"]) != 1:
        return {"skip": True, "r1": {k: r1[k] for k in ("status", "nerrors")}}
    # Note.to_string of the compiled note
    from pathlib import Path
    from zorg.domain.models import Note, TodoPayload
    from zorg.domain.types import NoteType
    n1 = r1["notes"][0]
    text = r1["texts"][0]          # Note.to_string of the Note object the compiler built (all fields as compiled)
    page2 = "# h\n\n" + text
    r2 = fc.compile_text(page2, dt.date(*today), False)
    return {"skip": False, "n1": n1, "text": text, "r2": {k: r2[k] for k in ("status", "nerrors", "has_errors", "notes")}}


def page_job(job):
    """All notes of a page rendered ungrouped under a header -> recompiled."""
    import os
    os.dup2(os.open(os.devnull, os.O_WRONLY), 2)
    from harness import fc
    from pathlib import Path
    from zorg.domain.models import Note, TodoPayload
    from zorg.domain.types import NoteType
    text, today, order = job
    r1 = fc.compile_text(text, dt.date(*today), False)
    if r1["status"] != "ok" or r1["nerrors"]:
        return {"skip": True}
    pairs = list(zip(r1["notes"], r1["texts"]))
    if order == "rev":
        pairs.reverse()
    elif order == "alpha":
        pairs.sort(key=lambda p: p[0]["body"])
    notes = [p[0] for p in pairs]
    strs = [p[1].rstrip() for p in pairs]
    page2 = "# SAVED QUERY\n\n" + "\n".join(strs) + "\n"
    r2 = fc.compile_text(page2, dt.date(*today), False)
    return {"skip": False, "notes": notes, "page2": page2, "r2": {k: r2[k] for k in ("status", "nerrors", "has_errors", "notes")}}
