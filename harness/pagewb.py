"""The tie of the PAGE-level write-back theorems (C05_zids_written_into_page, C11_dates_written_into_page) to the
code: on generated abstract pages the real `db create` / `db reindex` rewrite the page's canonical text; the
rewritten file must be the canonical text of the page the theorem names (zidded / stamped), whenever the theorem's
decidable hypotheses hold (evaluated in the extracted model).  page_text itself is compared with the renderer the
parser is fed (harness/apage.py)."""
import copy
import datetime as dt

from harness import apage, world as W, zdir as Z
from harness.implrun import write_tree

DAY0 = dt.date(2024, 6, 1)
DAY1 = dt.date(2024, 6, 2)


def _items(pg):
    """every item of the abstract page, in document order (the list objects themselves)"""
    out = []

    def blocks(bs):
        for b in bs:
            out.extend(e for e in b if not apage.is_comment(e))

    def sec(s):
        blocks(s[1])
        for x in s[2]:
            sec(x)
    blocks(pg[1])
    for s in pg[2]:
        sec(s)
    for s in pg[3]:
        sec(s)
    return out


def _item_lines(pg):
    """(line number, item) in document order, from the canonical text"""
    text = apage.render(pg)
    its = _items(pg)
    rendered = [apage.render_item(it) for it in its]
    out, k = [], 0
    for i, l in enumerate(text.split("\n"), 1):
        if k < len(its) and l == rendered[k] and l[:1] in "-ox~<>" and l[1:2] in (" ", ""):
            out.append((i, its[k]))
            k += 1
    assert k == len(its), "item lines of the canonical text"
    return out


def run_zid(eng, rng, oc, n):
    """C05: `db create` on abstract pages.  -> True when nothing failed."""
    from freezegun import freeze_time
    for _ in range(n):
        names = rng.sample(["pa.zo", "pb.zo", "sub/pc.zo"], rng.randint(1, 2))
        pages = {nm: apage.gen_apage(rng) for nm in names}
        files = {nm: apage.render(pg) for nm, pg in pages.items()}
        oc.evaluations += 1
        for nm, pg in pages.items():
            mt = eng.call("page_text", pg)
            if mt != files[nm]:
                oc.corr_mismatch.append(("page_text vs the canonical text fed to the parser", {"apage": pg}, files[nm], mt))
                return False
        if not all((eng.call("page_valid", pg) == "t") for pg in pages.values()):
            continue
        with Z.tmpdir("c05p_") as d:
            write_tree(d, files)
            case = {"files": files}
            with freeze_time(dt.datetime(DAY0.year, DAY0.month, DAY0.day, 12)):
                try:
                    Z.db_create(d)
                except Exception as e:  # noqa: BLE001
                    oc.spec_fail.append((case, "db create raised %s: %s" % (type(e).__name__, str(e)[:200]),
                                         "db create succeeds on well-formed pages", None))
                    return False
            after = W.user_files(d)
            index = W.dump_index(d)
        for nm, pg in pages.items():
            want_lines = [int(x) for x in eng.call("page_zid_lines", pg)]
            by_line = {x["line"]: x["zid"] for x in index if x["page"] == nm}
            tbl = [[l, by_line.get(l) or ""] for l in want_lines]
            old, new = files[nm].split("\n"), after[nm].split("\n")
            changed = [i for i, (a, b) in enumerate(zip(old, new), 1) if a != b] if len(old) == len(new) else None
            pcase = {"page": nm, "page_text": files[nm], "apage": pg, "zids": tbl}
            if changed != want_lines:
                oc.spec_fail.append((pcase, {"lines_changed": changed}, {"lines_of_zidless_items": want_lines,
                                     "rule": "files change only on the first lines of notes without a ZID"}, None))
                return False
            if not (eng.call("page_zid_ready", tbl, pg) == "t"):
                oc.count("page_theorem_hypothesis_false")
                continue
            want = eng.call("page_zid_text", tbl, pg)
            if after[nm] != want:
                diff = [(i, a, b) for i, (a, b) in enumerate(zip(want.split("\n"), new), 1) if a != b][:3]
                oc.spec_fail.append((pcase, {"rewritten_lines[line, theorem, file]": diff},
                                     "the rewritten file is the canonical text of the same page with the ZIDs in identity "
                                     "position (C05_zids_written_into_page)", None))
                return False
            oc.count("page_theorem_pages")
            if len(want_lines) >= 2:
                oc.nontriv(files[nm])
    return True


def _zidify(rng, pg):
    """every item gets a unique ZID (ZID-less identities become ordinary words)"""
    pg = copy.deepcopy(pg)
    for k, it in enumerate(_items(pg)):
        kind, prio, ident, words = it
        suffix = apage.ZCH[(k // len(apage.ZCH)) % len(apage.ZCH)] + apage.ZCH[k % len(apage.ZCH)]
        day = apage.short(apage.rand_date(rng))
        if ident[0] == "plain":
            it[3] = [["id", ident[1]]] + words
            it[2] = ["zid", day + "#" + suffix]
        elif ident[0] == "long":
            it[2] = ["zid", day + "#" + suffix]
            if not it[3]:
                it[3] = [["id", "w"]]
        elif ident[0] == "mod":
            it[2] = ["modzid", ident[1] if ident[1] != apage.short(DAY1) else "240101", day + "#" + suffix]
        elif ident[0] == "zid":
            it[2] = ["zid", ident[1][:7] + suffix]
        else:
            m = ident[1] if ident[1] != apage.short(DAY1) else "240101"
            it[2] = ["modzid", m, ident[2][:7] + suffix]
    return pg


def run_mdate(eng, rng, oc, n):
    """C11: edit some items of an indexed abstract page, `db reindex` the next day."""
    from freezegun import freeze_time
    for _ in range(n):
        pg = _zidify(rng, apage.gen_apage(rng))
        if not _items(pg) or not (eng.call("page_valid", pg) == "t"):
            continue
        pg2 = copy.deepcopy(pg)
        edited = []
        for k, it in enumerate(_items(pg2)):
            if rng.random() < 0.4:
                r = rng.random()
                if r < 0.5 or not it[3]:
                    it[3] = it[3] + [["id", "edited%d" % k]]
                elif r < 0.8:
                    it[3] = [["id", "changed"]] + it[3][1:]
                else:
                    it[3] = it[3][:-1] + [["tag", "#", "newtag%d" % k]]
                edited.append(k)
        if not (eng.call("page_valid", pg2) == "t"):
            continue
        lines = _item_lines(pg2)
        chosen = [lines[k][0] for k in edited]
        # items whose text did not change (e.g. replacing the first word by itself) are not edits
        same = {l for (l, a), (_, b) in zip(lines, _item_lines(pg)) if apage.render_item(a) == apage.render_item(b)}
        chosen = [l for l in chosen if l not in same]
        t1, t2 = apage.render(pg), apage.render(pg2)
        oc.evaluations += 1
        case = {"before": t1, "edited": t2, "apage": pg2, "edited_lines": chosen}
        with Z.tmpdir("c11p_") as d:
            write_tree(d, {"p.zo": t1})
            with freeze_time(dt.datetime(DAY0.year, DAY0.month, DAY0.day, 12)):
                Z.db_create(d)
            if W.user_files(d)["p.zo"] != t1:
                oc.spec_fail.append((case, "db create rewrote a page whose notes all have ZIDs", "untouched", None))
                return False
            write_tree(d, {"p.zo": t2})
            with freeze_time(dt.datetime(DAY1.year, DAY1.month, DAY1.day, 12)):
                try:
                    Z.db_reindex(d)
                except Exception as e:  # noqa: BLE001
                    oc.spec_fail.append((case, "db reindex raised %s: %s" % (type(e).__name__, str(e)[:200]),
                                         "db reindex succeeds on well-formed pages", None))
                    return False
            got = W.user_files(d)["p.zo"]
        stamp = apage.short(DAY1)
        if not (eng.call("page_mdate_ready", stamp, chosen, pg2) == "t"):
            oc.count("page_theorem_hypothesis_false")
            continue
        want = eng.call("page_mdate_text", stamp, chosen, pg2)
        if got != want:
            diff = [(i, a, b) for i, (a, b) in enumerate(zip(want.split("\n"), got.split("\n")), 1) if a != b][:3]
            oc.spec_fail.append((case, {"rewritten_lines[line, theorem, file]": diff},
                                 "the page after the reindex is the canonical text of the edited page with the date in front of "
                                 "the ZID of exactly the edited items (C11_dates_written_into_page)", None))
            return False
        oc.count("page_theorem_pages")
        if len(chosen) >= 2:
            oc.nontriv(t2)
    return True
