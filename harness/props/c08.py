"""C08 — compilation is total; broken pages are never silently dropped.
Listener model on the exported (possibly recovered) tree + property clauses on the implementation."""
import glob
import json
import os
import random

from harness import lib, pagegen, fcwork, fc
from harness.props import c01
from harness.implrun import write_tree, quiet
from harness import zdir as Z

ASSUMPTIONS = c01.ASSUMPTIONS + [
    "ANTLR's error recovery is not modelled: theorems quantify over all trees, the harness feeds the recovered trees the real parser builds",
]
TODAY = c01.TODAY
NOISE = list("[]()#@%+:;'\"`~*<>-=_.,!?/\\|{}&$^ \n\t") + ["\xe9", "  ", "\n\n", "[[", "]]", "::", "P1", "o", "x", "240101", "241301#00",
                                                        "2024-13-01", "#" * 32, "=" * 23, "  * ", "    - ", "  *   * c", "  * 240101"]
HANDLER_SITES = {"enterArea", "enterContext", "enterPerson", "enterProject", "enterLink", "enterGlobal_link", "enterLocal_link",
                 "enterRef_link", "enterZid_link", "enterDate", "enterH1_header", "enterH2_header", "enterH3_header",
                 "enterH4_header", "enterSimple_prop", "enterInline_prop", "enterTodo_prefix"}


def damage(rng, text):
    for _ in range(rng.randint(1, 5)):
        r = rng.random()
        lines = text.split("\n")
        if r < 0.25 and text:
            i = rng.randrange(len(text)); text = text[:i] + text[i + 1:]
        elif r < 0.5:
            i = rng.randint(0, len(text)); text = text[:i] + rng.choice(NOISE) + text[i:]
        elif r < 0.6 and text:
            i = rng.randrange(len(text)); text = text[:i] + rng.choice(NOISE) + text[i + 1:]
        elif r < 0.7 and len(lines) > 1:
            i = rng.randrange(len(lines)); del lines[i]; text = "\n".join(lines)
        elif r < 0.8 and len(lines) > 1:
            i = rng.randrange(len(lines)); lines.insert(i, lines[rng.randrange(len(lines))]); text = "\n".join(lines)
        elif r < 0.9 and len(lines) > 2:
            i = rng.randrange(len(lines) - 1); lines[i], lines[i + 1] = lines[i + 1], lines[i]; text = "\n".join(lines)
        else:
            text = text.rstrip("\n")
    return text


def classify(res):
    """-> (violated?, trigger or None, what)"""
    st, site = res["status"], res.get("site")
    if st != "ok":
        if st == "ValueError" and site in ("enterId", "enterDate", "from_short_date_spec", "_from_long_date_spec"):
            return True, "invalid_calendar_date", "%s in %s" % (st, site)
        if st == "IndexError" and site in ("_add_note", "<genexpr>", "<lambda>", "<listcomp>"):
            return True, "bullet_scan_empty_words", "%s in %s" % (st, site)
        if st in ("IndexError", "TypeError", "AttributeError", "ValueError", "AssertionError") and site in HANDLER_SITES and res["nerrors"]:
            return True, "recovered_tree_children", "%s in %s" % (st, site)
        return True, None, "%s in %s" % (st, site)
    if res["nerrors"]:
        if not res["has_errors"]:
            if not res["notes"]:
                return True, "silent_drop", "syntax errors, not flagged, indexed as an empty page"
            return True, None, "syntax errors, not flagged, %d notes indexed" % len(res["notes"])
        if res["notes"]:
            return True, None, "flagged page indexes %d notes (partial page)" % len(res["notes"])
    elif res["has_errors"]:
        return True, None, "no syntax error but flagged"
    return False, None, ""


WL_COMPARED = [0]


def wl_step(eng, d, cmd, update=False):
    """Runs `db create` / `db reindex` for real and compares the accept/refuse decision and the resulting whitelist
    file with the Coq model (coq/Model/Whitelist.v) fed with the real has_errors flags.
    -> (outcome, mismatch or None); outcome in accepted | refused | exception:<name>"""
    import hashlib
    import json as _json
    from pathlib import Path
    from zorg.service import handlers
    from zorg.service.compiler import walk_zorg_page
    from zorg.shared import common as zc
    zdir = Path(d)
    wl_path = zdir / ".zorg" / "error_file_whitelist.txt"
    old_text = wl_path.read_text() if wl_path.exists() else ""
    model = None
    try:
        with quiet():
            if cmd == "create":
                paths = [zc.strip_zdir(zdir, q) for q in handlers._get_zo_paths_to_index(zdir)]
            else:
                hp = zdir / ".zorg" / "file_hash.json"
                old = _json.loads(hp.read_bytes()) if hp.exists() else {}
                cur = handlers._get_file_hash_map(zdir)
                paths = [k for k, h in cur.items() if old.get(k) != h]
            pages = [[str(q), bool(walk_zorg_page(zdir, Path(q)).has_errors)] for q in paths]
        model = (eng.call("create_wl", update, old_text, pages) if cmd == "create"
                 else eng.call("reindex_wl", old_text, pages))
    except Exception:  # noqa: BLE001   (a page the compiler crashes on: outside this model)
        model = None
    try:
        if cmd == "create":
            Z.db_create(d, update_whitelist=update)
        else:
            Z.db_reindex(d)
        outcome = "accepted"
    except RuntimeError:
        outcome = "refused"
    except Exception as e:  # noqa: BLE001
        outcome = "exception:" + type(e).__name__
    mismatch = None
    WL_COMPARED[0] += 1 if (model is not None and not outcome.startswith("exception")) else 0
    if model is not None and not outcome.startswith("exception"):
        new_text = wl_path.read_text() if wl_path.exists() else ""
        impl = ["ok", new_text] if outcome == "accepted" else ["exn", "RuntimeError"]
        if impl != list(model):
            mismatch = {"cmd": cmd, "update": update, "whitelist_before": old_text, "pages": pages, "impl": impl, "model": model}
    return outcome, mismatch


def db_scenario(text_good, text_bad, eng=None, corr=None, name="proj.zo", others=("oj.zo", "sub/proj.zo", "proj.zo.zo")):
    """create; damage; reindex twice; create again -> list of problems."""
    probs = []
    with Z.tmpdir("c08_") as d:
        write_tree(d, {"good.zo": "# good\n\n- a note\n", name: text_good})
        Z.db_create(d)
        write_tree(d, {name: text_bad})
        for attempt in (1, 2):
            try:
                Z.db_reindex(d)
                probs.append("db reindex #%d accepted a page with syntax errors that is not whitelisted" % attempt)
            except RuntimeError:
                pass
            except Exception as e:  # noqa: BLE001
                probs.append("db reindex #%d raised %s" % (attempt, type(e).__name__))
        try:
            Z.db_create(d)
            probs.append("db create accepted a page with syntax errors that is not whitelisted")
        except RuntimeError:
            pass
        except Exception as e:  # noqa: BLE001
            probs.append("db create raised %s" % type(e).__name__)
        try:
            Z.db_create(d, update_whitelist=True)
            wl = open(os.path.join(d, ".zorg", "error_file_whitelist.txt")).read().split("\n")
            if name not in wl:
                probs.append("whitelisting create did not list the page")
            out = Z.execute(d, "S note W f=proj G none") if name == "proj.zo" else ""
            if out.strip():
                probs.append("a flagged page has indexed notes: %r" % out[:80])
        except Exception as e:  # noqa: BLE001
            probs.append("whitelisting db create raised %s" % type(e).__name__)
            return probs
        # the whitelist names pages, not fragments of names: other broken pages whose relative paths are parts of /
        # contain the whitelisted one are still refused; the whitelisted page itself stays accepted
        for other in ("oj.zo", "sub/proj.zo", "proj.zo.zo"):
            write_tree(d, {other: text_bad})
            for cmd, key in (("db create", "create"), ("db reindex", "reindex")):
                if eng is not None:
                    outcome, mm = wl_step(eng, d, key)
                    if mm and corr is not None:
                        corr.append(mm)
                else:
                    try:
                        (Z.db_create if key == "create" else Z.db_reindex)(d)
                        outcome = "accepted"
                    except RuntimeError:
                        outcome = "refused"
                    except Exception as e:  # noqa: BLE001
                        outcome = "exception:" + type(e).__name__
                if outcome == "accepted":
                    probs.append("%s accepted broken page %s; only proj.zo is whitelisted" % (cmd, other))
                elif outcome != "refused":
                    probs.append("%s raised %s on broken page %s" % (cmd, outcome.split(":")[1], other))
            os.remove(os.path.join(d, other))
        try:
            Z.db_create(d)
            Z.db_reindex(d)
        except Exception as e:  # noqa: BLE001
            probs.append("a directory whose only broken page is whitelisted was refused: %s" % type(e).__name__)
    return probs


def run(oc, tier, seed):
    rng = random.Random(seed)
    pool = lib.pool()
    eng = lib.Engine()
    n_valid, n_dmg, n_arb = (60, 400, 120) if tier == "quick" else (1000, 12000, 3000)
    oc.rule = ("three streams: valid generated pages; valid pages damaged by 1-5 character/line/token edits (deletions, "
               "insertions of brackets, quotes, rulers of wrong length, tab, non-ASCII, invalid dates, empty bullets; line "
               "deletion/duplication/swap; missing final newline); arbitrary strings over that noise pool. Per text: no "
               "exception; syntax errors => flagged and no note indexed; none => not flagged; listener model on the exported "
               "tree must agree (status, has_errors, notes). Plus index scenarios: a page damaged after `db create` must be "
               "refused by two successive `db reindex` runs and by `db create`, accepted only when whitelisted, with no note "
               "indexed. non-trivial = text with >= 1 syntax error")
    valid = [pagegen.render(pagegen.gen_page(rng, max_sections=3)) for _ in range(n_valid)]
    # valid pages whose identity words sit next to look-alikes: a modify date followed by six digits / a digits-only tag /
    # a long date, three-character ZIDs, a ZID after a modify date
    valid += ["# ids\n\n- 240315 123456 is the ticket number\no 240315 #202406 budget review\n- 240316 240315#AB both\n"
              "x P2 240317 2021-07-07 a long date as a word\n- 240315#0A7 three characters\n- 991231 000101 two dates\n\n",
              "# ids two\n\n~ 240229 999999 not a date\n- 240229#zz 240229 leap\n< 123456 1234567 digits\n\n"]
    dmg = [damage(rng, rng.choice(valid)) for _ in range(n_dmg)]
    arb = ["".join(rng.choice(NOISE + ["foo", "bar", "- ", "o ", "# t\n", "\n"]) for _ in range(rng.randint(1, 25))) for _ in range(n_arb)]
    corpus = [json.load(open(f)) for f in sorted(glob.glob(os.path.join(lib.VERIF, "corpus", "C08", "*.json")))]
    texts = [c["text"] for c in corpus] + valid + dmg + arb
    results = pool.map(fcwork.compile_job, [(t, TODAY, True) for t in texts], chunksize=8)
    pool.close()
    flagged = []
    for text, res in zip(texts, results):
        ok = c01.check_page(eng, text, res, None, oc, "c08")       # correspondence on the exported tree
        bad, trig, what = classify(res)
        if not ok:
            trig = None      # a known finding is one the listener model of the unchanged code reproduces on this very tree
        oc.count("status_" + res["status"])
        if res["nerrors"]:
            oc.nontriv(text)
            oc.count("syntax_errors")
            if res["status"] == "ok" and res["has_errors"]:
                oc.count("flagged")
                if len(flagged) < 40:
                    flagged.append(text)
        if bad:
            oc.spec_fail.append(({"text": text}, {"what": what, "status": res["status"], "site": res.get("site"),
                                                 "nerrors": res["nerrors"], "has_errors": res["has_errors"]},
                                 "no exception; syntax errors <=> flagged; flagged => nothing indexed", trig))
            if trig:
                oc.known_hit.setdefault(trig, "%s on %r" % (what, text[:60]))
                oc.count("known_" + trig)
            else:
                break
        if not ok:
            break
    # index scenarios
    n_sc = 3 if tier == "quick" else 25
    for text_bad in flagged[:n_sc]:
        corr = []
        probs = db_scenario(rng.choice(valid), text_bad, eng, corr)
        if not probs and not corr:
            # the same with a whitelisted page whose path contains blanks: the list is one page per LINE
            probs = db_scenario(rng.choice(valid), text_bad, eng, corr, name="my proj notes.zo",
                                others=("my", "proj", "notes.zo", "my proj notes.zo.zo"))
        oc.evaluations += 1
        oc.count("db_scenarios")
        oc.stats["whitelist_decisions_vs_model"] = WL_COMPARED[0]
        if corr and not probs:
            oc.corr_mismatch.append(("whitelist decision (create_wl / reindex_wl)", {"bad_page": text_bad}, corr[0]["impl"], corr[0]))
            break
        if probs:
            oc.spec_fail.append(({"scenario": "create, damage, reindex x2, create, create --whitelist, then other broken pages with related names (create, reindex)", "bad_page": text_bad},
                                 probs, "refused unless whitelisted; never indexed", None))
            break
    if len(oc.samples) < 2:
        oc.samples.extend(dmg[:2])
    eng.close()


def replay(path):
    payload = json.load(open(path))
    case = payload["case"]
    if "text" in case:
        import datetime as dt
        res = fc.compile_text(case["text"], dt.date(*TODAY), False)
        print(case["text"]); print({k: res.get(k) for k in ("status", "site", "nerrors", "has_errors")}, classify(res))
        bad, trig, _ = classify(res)
        return 1 if bad and not trig else 0
    probs = db_scenario("# p\n\n- ok\n", case["bad_page"])
    print(probs)
    return 1 if probs else 0
