"""C09 — query output renders the selected notes faithfully.  Model: coq/Model/Executor.v."""
import datetime as dt
import glob
import json
import os
import random
import re
from pathlib import Path

from harness import lib, pagegen
from harness.implrun import quiet, write_tree
from harness import zdir as Z

ASSUMPTIONS = [
    "the WHERE stage (SQL) is not part of this model: the notes it returned are read from the real session and handed to the model",
    "strftime / str() of paths and line numbers are computed by CPython",
]
GKEYS = {"#": "AREA", "@": "CONTEXT", "file": "FILE", "type": "NOTE_TYPE", "%": "PERSON", "priority": "PRIORITY", "+": "PROJECT",
         "section": "SECTION"}
OKEYS = {"alpha": "ALPHA", "create": "CREATE_DATE", "modify": "MODIFY_DATE", "none": "NONE", "type": "NOTE_TYPE", "priority": "PRIORITY"}
SELS = {"note": "NOTE", "file": "FILE", "#": "AREA", "@": "CONTEXT", "%": "PERSON", "+": "PROJECT", "prop": "PROPERTY", "links": "LINKS"}
WHERES = ["(o | x | - | ~ | < | >)", "o", "(o | x)", "-", "(- | ~ | <)", "P0-4"]


SECTION_TITLES = ["Alpha", "~ Someday", "} brace", "Zed", "alpha | beta", "Beta work", "| pipe first", "Mid-section"]


def gen_c09_page(rng, refs=False):
    """Pages whose notes share tags from small pools, so that group keys collide, nest and prefix each other."""
    # also: the same NAME under two tag kinds in one scope (+pa #pa)
    lines = ["# Title of page %s" % rng.choice(["#pa", "", "@pc", "+pp #pa", "+pa #pa @pa"]), ""]

    def item():
        kind = rng.choice(["-", "-", "o", "o", "x", "~", "<", ">"])
        pr = (" P%d" % rng.randint(0, 9)) if kind != "-" and rng.random() < 0.6 else ""
        ws = [rng.choice(["plain", "foo", "Baz_1"])]
        r0 = rng.random()
        if r0 < 0.12:       # already carries a ZID
            ws.insert(0, "2312%02d#%s%s" % (rng.randint(1, 28), rng.choice("ABCDEFGH"), "%02d" % rng.randint(0, 99)))
        elif r0 < 0.24:     # edited earlier: modify date in front of the ZID
            ws.insert(0, "2312%02d#%s%s" % (rng.randint(1, 28), rng.choice("JKLMN"), "%02d" % rng.randint(0, 99)))
            ws.insert(0, "2401%02d" % rng.randint(1, 28))
        for _ in range(rng.randint(0, 4)):
            r = rng.random()
            if r < 0.25:
                ws.append("#" + rng.choice(["a", "b", "c", "ab"]))
            elif r < 0.4:
                ws.append("@" + rng.choice(["home", "work", "work_laptop"]))
            elif r < 0.5:
                ws.append("+" + rng.choice(["p1", "p2", "p10"]))
            elif r < 0.58:
                ws.append("%" + rng.choice(["bob", "al", "bobby"]))
            elif r < 0.68:
                ws.append("k::" + rng.choice(["v1", "v2", "7"]))
            elif r < 0.74:
                ws.append("[[" + rng.choice(["l1", "l2"]) + "]]")
            elif r < 0.78:
                ws.append("due::2024-0%d-01" % rng.randint(1, 9))
            elif refs and r < 0.86:
                # the NAME of a tag the note may inherit, inside a link or a quoted string: not a tag of the note
                ws.append(rng.choice(["[#pa]", "[@pc]", "[#sa]", "[@work]", "[#a]", "'%bob'", '"+p1"', "[#pa],", "([@work])"]))
            else:
                ws.append(rng.choice(["word", "x", "P5", "end.", "a-b"]))
        out = ["%s%s %s" % (kind, pr, " ".join(ws))]
        if rng.random() < 0.15:
            out.append("  * bullet " + rng.choice(["one", "#a", "two words"]))
        return out

    def block():
        for _ in range(rng.randint(1, 4)):
            lines.extend(item())
        lines.append("")
    for _ in range(rng.randint(0, 2)):
        block()
    prev = 1
    for _ in range(rng.randint(2, 5)):
        lvl = rng.randint(1, min(4, prev + 1))
        prev = lvl
        lines.append(pagegen.RULERS[lvl] + " " + rng.choice(SECTION_TITLES) + rng.choice(["", "", " #sa", " 2024-03-0%d" % rng.randint(1, 9),
                                                    # header tags that are proper prefixes of tags items carry themselves
                                                    " +p1", " @work", " %bob #a", " @sa #sa", " %work @work"]))
        lines.append("")
        for _ in range(rng.randint(1, 2)):
            block()
    return "\n".join(lines) + "\n"


def gen_dir(rng):
    d = _gen_dir(rng)
    # in every directory: two pages of which one name is a proper prefix of the other, followed by a digit
    d.setdefault("log.zo", gen_c09_page(rng))
    d.setdefault("log2.zo", gen_c09_page(rng))
    return d


def _gen_dir(rng):
    return {name: gen_c09_page(rng)
            for name in rng.sample(["alpha.zo", "beta.zo", "sub/gamma.zo", "z9.zo", "a.zo", "a.zo.d/x.zo", "todo.zo", "tod.zo", "sub/quiz.zo",
                                    "memo.zo", "log.zo", "log2.zo", "logA.zo"], rng.randint(2, 4))}


def titles_of(note):
    from zorg.domain.models import H1, H2, H3, H4
    sec = note.block.section
    chain = []
    while sec is not None:
        chain.append(sec.title)
        if isinstance(sec, H4):
            sec = sec.h3
        elif isinstance(sec, H3):
            sec = sec.h2
        elif isinstance(sec, H2):
            sec = sec.h1
        else:
            sec = None
    return list(reversed(chain))


def where_notes(d, q):
    from zorg.service.compiler import build_zorg_query
    from zorg.storage.sql import SQLSession
    Z.fresh_process()
    with quiet():
        query = build_zorg_query(q)
        with SQLSession(Path(d), Z.db_url(d)) as session:
            notes = session.repo.get_notes_by_query(query.where)
            out = []
            for n in notes:
                tp = n.todo_payload
                out.append([str(n.file_path), n.line_no, n.body, [[tp.priority, tp.status.value]] if tp else None,
                            n.create_date.strftime("%Y%m%d"), n.modify_date.strftime("%Y%m%d"),
                            list(n.areas), list(n.contexts), list(n.people), list(n.projects), list(n.links),
                            [[str(k), str(v)] for k, v in n.properties.items()], titles_of(n)])
    return query, out


def gen_query(rng):
    r = rng.random()
    if r < 0.5:
        s, ssel = "note", "NOTE"
    elif r < 0.85:
        s = rng.choice(list(SELS)); ssel = SELS[s]
    else:
        k = rng.choice(["k", "due", "shared", "ik"]); s = "prop:%s" % k; ssel = ["PV", k]
    count = rng.random() < 0.2
    sel_text = "count(%s)" % s if count else s
    sel_model = ["count", ssel] if count else ssel
    gs = rng.sample(list(GKEYS), rng.choice([0, 0, 1, 1, 2, 2, 3, 4]))
    os_ = [rng.choice(list(OKEYS)) for _ in range(rng.choice([0, 1, 1, 2, 3]))]
    q = "S %s W %s" % (sel_text, rng.choice(WHERES))
    if os_:
        q += " O " + " ".join(os_)
    if gs:
        q += " G " + " ".join(gs)
    elif rng.random() < 0.5:
        q += " G none"
    return q, sel_model, gs, os_


def spec_checks(q, gs, os_, sel_model, notes, out):
    """Property clauses checked on the implementation's output alone."""
    probs = []
    if sel_model == "NOTE":
        want = []
        for n in notes:
            kind = n[3][0][1] if n[3] else "-"
            pr = (" " + n[3][0][0]) if n[3] and n[3][0][1] not in ("x", "~") else ""
            want.append(("%s%s %s" % (kind, pr, n[2].strip())))
        lines = out.split("\n") if out else []
        rulers = ("#" * 32, "=" * 24, "+" * 16, "-" * 8)
        got_text = "\n".join(l for l in lines if not l.startswith(rulers))
        # every note's text form occurs exactly as often as it was selected
        from collections import Counter
        wc = Counter(want)
        blob = "\n" + got_text + "\n"
        for w, c in wc.items():
            if "\n" in w:
                k = blob.count("\n" + w + "\n")
            else:
                k = sum(1 for l in got_text.split("\n") if l == w)
            if k < c:
                probs.append(("each matching note exactly once", "missing %d x %r" % (c - k, w[:60]), None))
                break
        if not gs and os_ == ["none"] and not probs:
            exp = [w for _, w in sorted(((n[0], n[1]), ("%s" % i)) for i, n in enumerate(notes))]
            order = sorted(range(len(notes)), key=lambda i: (notes[i][0], notes[i][1]))
            exp_text = "\n".join(want[i] for i in order)
            if got_text.strip() != exp_text.strip():
                # the known finding is EXACTLY "the notes are sorted by the text 'path::line'": it explains the output only
                # when the output is that order
                known_order = sorted(range(len(notes)), key=lambda i: "%s::%d" % (notes[i][0], notes[i][1]))
                trig = "order_none_lexicographic" if got_text.strip() == "\n".join(want[i] for i in known_order).strip() else None
                probs.append(("O none = page path then line number", got_text[:200], trig))
    # group headers: every note stands under headers whose labels are its own values (file and tag dimensions; the i-th
    # dimension uses the i-th ruler; no header of a level where the note's value is empty)
    if sel_model == "NOTE" and gs and not probs:
        rul = ["#" * 32, "=" * 24, "+" * 16, "-" * 8]
        tagidx = {"#": 6, "@": 7, "%": 8, "+": 9}

        def value(g, n):
            if g == "file":
                stem = n[0][:-3]
                return "[[%s]]" % stem if n[0].endswith(".zo") and ".zo" not in stem else None
            if g in tagidx:
                return " | ".join(g + t for t in sorted(n[tagidx[g]]))
            if g == "section":
                # the titles of the enclosing sections, outermost first; the untitled top section contributes nothing
                return " | ".join(t for t in n[12] if t)
            return None
        byzid, dup = {}, set()
        for n in notes:
            m = re.match(r"(?:\d{6} )?(\d{6}#\w{2,3})(?: |$)", n[2].strip())
            if m:
                if m.group(1) in byzid:
                    dup.add(m.group(1))       # the generator may give two notes of different pages the same ZID: not identifiable
                byzid[m.group(1)] = n
        for z in dup:
            del byzid[z]
        cur = [None] * 4
        for line in (out.split("\n") if out else []):
            lvl = next((i for i, r in enumerate(rul) if line.startswith(r + " ") or line == r), None)
            if lvl is not None:
                cur[lvl] = line[len(rul[lvl]) + 1:]
                for j in range(lvl + 1, 4):
                    cur[j] = None
                continue
            m = re.match(r"[-ox~<>] (?:P\d )?(?:\d{6} )?(\d{6}#\w{2,3})(?: |$)", line)
            if not m or m.group(1) not in byzid:
                continue
            n = byzid[m.group(1)]
            for i, g in enumerate(gs[:4]):
                exp = value(g, n)
                if exp is not None and (cur[i] or "") != exp:
                    probs.append(("group header labels equal the note's own value of the dimension",
                                  "note %s of page %s stands under %r at level %d (G %s), its own value is %r" % (
                                      m.group(1), n[0], cur[i], i + 1, g, exp), None))
                    break
            if probs:
                break
    # value selections (tags, property keys / values, links, files), ungrouped: every distinct value of the selected
    # notes exactly once; count(...) is the number of those values
    IDX = {"AREA": 6, "CONTEXT": 7, "PERSON": 8, "PROJECT": 9, "LINKS": 10}
    sm = sel_model[1] if isinstance(sel_model, list) and sel_model and sel_model[0] == "count" else sel_model
    counting = isinstance(sel_model, list) and sel_model and sel_model[0] == "count"
    vals = None
    if isinstance(sm, str) and sm in IDX:
        vals = [v for n in notes for v in n[IDX[sm]]]
    elif sm == "PROPERTY":
        vals = [k for n in notes for k, _ in n[11]]
    elif isinstance(sm, list) and sm and sm[0] == "PV":
        vals = [v for n in notes for k, v in n[11] if k == sm[1]]
    elif sm == "FILE":
        vals = [n[0] for n in notes]
    if vals is not None and gs and not counting and os_ == ["alpha"]:
        # inside every group: the selected values sorted and distinct (the group's notes are not recomputed here)
        rul = ("#" * 32, "=" * 24, "+" * 16, "-" * 8)
        group = []
        for line in (out.split("\n") if out else []) + ["#" * 32 + " end"]:
            if line.startswith(rul):
                if group != sorted(set(group)):
                    probs.append(("selected values are sorted when ordered by alpha, and distinct, in every group",
                                  "one group lists %r" % group[:8], None))
                    break
                group = []
            elif line.strip():
                group.append(line.strip())
    if vals is not None and not gs:
        distinct = sorted(set(vals))
        lines = [l for l in (out.split("\n") if out else []) if l.strip()]
        if counting:
            if lines != [str(len(distinct))]:
                probs.append(("count(...) is the number of distinct selected values", "%r, distinct values: %d" % (lines[:3], len(distinct)), None))
        elif sm != "LINKS" or True:
            got = [l.strip() for l in lines]
            if sorted(got) != distinct and sorted(x.split(":", 1)[-1] if sm == "LINKS" else x for x in got) != sorted(
                    x.split(":", 1)[-1] if sm == "LINKS" else x for x in distinct):
                probs.append(("every distinct selected value exactly once", "got %r, distinct values %r" % (got[:12], distinct[:12]), None))
    return probs


def witness(oc):
    with Z.tmpdir("c09w_") as d:
        write_tree(d, {"w.zo": "# w\n\n- 240101#00 third line\n" + "#\n" * 6 + "- 240101#01 tenth line\n"})
        Z.db_create(d)
        out = Z.execute(d, "S note W - O none G none")
        oc.evaluations += 1
        if out.split("\n")[0].endswith("tenth line"):
            oc.known_hit["order_none_lexicographic"] = "line 10 is listed before line 3: %r" % out


def run(oc, tier, seed):
    rng = random.Random(seed)
    eng = lib.Engine()
    witness(oc)
    n_dirs, n_q = (3, 45) if tier == "quick" else (30, 120)
    oc.rule = ("indexed directories of 2-3 generated pages (sections with titles sorting around '|' and '~', multi-valued and "
               "empty tag sets, properties, two-digit line numbers); queries = select form (note/file/tags/prop keys/prop "
               "values/links, 20% count) x 0-4 GROUP BY dimensions x 0-3 ORDER BY keys x 6 WHERE clauses; swog.execute text "
               "compared byte-for-byte with the model run on the notes the real WHERE stage returned; spec clauses on the "
               "implementation alone: each note exactly once, O none = path then numeric line; non-trivial = >= 2 grouping "
               "dimensions or >= 2 order keys")
    fixed = [("S note W (o | x | - | ~ | < | >) O none G none", "NOTE", [], ["none"]),
             ("S note W (o | x | - | ~ | < | >) G # section", "NOTE", ["#", "section"], []),
             ("S count(note) W (o | x | - | ~ | < | >) G # section", ["count", "NOTE"], ["#", "section"], []),
             ("S note W (o | x | - | ~ | < | >) G file # section +", "NOTE", ["file", "#", "section", "+"], []),
             # value selections ordered by alpha INSIDE groups
             ("S + W (o | x | - | ~ | < | >) O alpha G file", "PROJECT", ["file"], ["alpha"]),
             ("S # W (o | x | - | ~ | < | >) O alpha G type @", "AREA", ["type", "@"], ["alpha"]),
             ("S links W (o | x | - | ~ | < | >) O alpha G file", "LINKS", ["file"], ["alpha"])]
    search = [120]
    for di in range(n_dirs):
        with Z.tmpdir("c09_") as d:
            write_tree(d, gen_dir(rng))
            from freezegun import freeze_time
            with freeze_time(dt.datetime(2024, 6, 1, 12)):
                Z.db_create(d)
            queries = fixed + [gen_query(rng) for _ in range(n_q)]
            for q, sel_model, gs, os_ in queries:
                oc.evaluations += 1
                try:
                    out = ["ok", Z.execute(d, q)]
                except RuntimeError:
                    out = ["exn", "RuntimeError"]
                except Exception as e:  # noqa: BLE001
                    out = ["exn", type(e).__name__]
                query, notes = where_notes(d, q)
                m = eng.call("execute", sel_model, [GKEYS[g] for g in gs], [OKEYS[o] for o in os_] if os_ else
                             ["NOTE_TYPE", "PRIORITY", "MODIFY_DATE", "CREATE_DATE"], notes)
                case = {"query": q, "dir": "generated(seed=%d,dir=%d)" % (seed, di)}
                if out[0] == "ok" and (m != out or (sel_model == "NOTE" and gs)):
                    # look for a failing input of the property itself first
                    for what, got, trig in spec_checks(q, gs, os_, sel_model, notes, out[1]):
                        if not trig:
                            oc.spec_fail.append((dict(case, notes=notes[:40]), {"clause": what, "got": got}, what, None))
                            eng.close()
                            return
                if m != out:
                    # model and implementation differ: keep looking (bounded) for a query on which the property itself fails,
                    # so that the report carries a concrete failing input
                    if not oc.corr_mismatch:
                        oc.corr_mismatch.append(("swog.execute", dict(case, notes=notes[:40]), out, m))
                    search[0] -= 1
                    if search[0] <= 0:
                        eng.close()
                        return
                    continue
                if len(gs) >= 2 or len(os_) >= 2:
                    oc.nontriv(q + str(di))
                oc.count("groups_%d" % len(gs))
                if out[0] == "ok":
                    for what, got, trig in spec_checks(q, gs, os_, sel_model, notes, out[1]):
                        # (here m == out: a known finding is one the model of the unchanged code reproduces)
                        oc.spec_fail.append((dict(case, notes=notes[:40]), {"clause": what, "got": got}, what, trig))
                        if trig:
                            oc.known_hit[trig] = q
                        else:
                            eng.close()
                            return
                if len(oc.samples) < 3:
                    oc.samples.append({"query": q, "n_notes": len(notes)})
    eng.close()


def replay(path):
    import sys
    return lib.replay_by_rerun(sys.modules[__name__], "C09", path)
