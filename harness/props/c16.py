"""C16 — template initialisation.  Model: coq/Model/Templates.v (control logic,
variable map, template body); regex matching and jinja2 rendering are oracles
evaluated here with the real `re` / jinja2."""
import datetime as dt
import glob
import json
import os
import random
import re
import shutil
import tempfile
from pathlib import Path

from harness import lib
from harness.implrun import quiet, read_tree, write_tree

ASSUMPTIONS = [
    "`re` (pattern.match / groupdict) and jinja2 rendering are oracles evaluated by the harness, not modelled",
    "paths are relative to the zettel dir; optional regex groups (None values) are not generated",
]

TEMPLATES = {
    "tmpl/day.zot": "# day template\n# second header line\n\n## {{ date.strftime('%Y-%m-%d') }} day log\n\n- created from day\n",
    "tmpl/prj.zot": "# project template\n\n## Project {{ name }}\n#\n# parent::[[{{ parent }}]]\n\n- first note of {{ name }}\n",
    "work/log.zot": "# t\n\n## WORK {{ date.strftime('%Y%m%d') }} {{ kind }}\n",
    "home/log.zot": "# t\n\n## HOME {{ date.strftime('%Y%m%d') }} ({{ kind }})\n",
    "tmpl/noblank.zot": "# header only, no blank line\n## never used\n",
    "tmpl/plain.zot": "# x\n\n##\n## plain {{ raw }}\n  ##\n##x\n",
    "tmpl/ticket.zot": "# ticket\n\n## TICKET {{ id }}\n",
    # the line that separates header and body holds blanks / a tab only
    "tmpl/wsline.zot": "# header line\n# second\n  \n## WS {{ raw }}\n\n- body after an empty line\n",
    "tmpl/tabline.zot": "# header\n\t\n## TAB {{ raw }}\n- no empty line at all\n",
    # tells a captured EMPTY string from a variable that is not there
    "tmpl/topic.zot": "# topic\n\n## {{ date.strftime('%Y-%m-%d') }} [{{ topic | default('general') }}] "
                      "{% if topic is defined %}given{% else %}absent{% endif %}\n",
}
PATTERNS = [
    (r"^(?P<date>[0-9]{8})\.zo$", "tmpl/day.zot"),
    (r"^log/(?P<date>[0-9]{8})\.zo$", "tmpl/day.zot"),
    (r"^(?P<kind>work)/(?P<date>[0-9]{8})\.zo$", "work/log.zot"),
    (r"^(?P<kind>home)/(?P<date>[0-9]{8})\.zo$", "home/log.zot"),
    (r"^(?P<kind>work|home)/(?P<date>[0-9]{8})\.zo$", "tmpl/day.zot"),
    (r"^prj/(?P<name>[a-z_]+)\.zo$", "tmpl/prj.zot"),
    (r"^(?P<raw>[0-9]{6})\.zo$", "tmpl/plain.zot"),
    (r".*_np\.zo$", "tmpl/noblank.zot"),
    (r"^prj/.*$", "tmpl/plain.zot"),
    (r"^t/(?P<id>[0-9]+)\.zo$", "tmpl/ticket.zot"),       # purely numeric captures of any length
    (r"^notes/(?P<date>[0-9]{8})_?(?P<topic>[a-z]*)\.zo$", "tmpl/topic.zot"),     # a group that may capture the empty string
    (r"^ws/(?P<raw>[a-z]+)\.zo$", "tmpl/wsline.zot"),
    (r"^tab/(?P<raw>[a-z]+)\.zo$", "tmpl/tabline.zot"),
]
TARGETS = ["20240105", "20240105.zo", "log/20240229", "work/20240105", "home/20240105", "work/20241305", "prj/alpha",
           "prj/beta_x", "240105", "zzz", "sub/deep/none", "x_np", "prj/Alpha", "20240100", "home/20240105.zo",
           "t/123456", "t/2024111", "t/20240105", "t/12", "123456", "t/202411", "t/1234567890",
           "notes/20240106", "notes/20240106_math", "notes/20240107_", "notes/20240106", "ws/alpha", "tab/beta", "ws/gamma"]


def gen_case(rng):
    pats = rng.sample(PATTERNS, rng.randint(0, 7))
    files = dict(TEMPLATES)
    existing = {}
    for t in rng.sample(TARGETS, rng.randint(0, 4)):
        p = t if "." in t else t + ".zo"
        # an existing file is left alone whatever it holds - also when it is empty
        existing[p] = rng.choice(["# existing %s\n\n- keep me\n" % p] * 3 + ["", "\n"])
    files.update(existing)
    ops = []
    for _ in range(rng.choice([1, 1, 2, 3])):
        target = rng.choice(TARGETS)
        template = rng.choice([None, None, None, "tmpl/prj.zot", "tmpl/day.zot", "tmpl/missing.zot"])
        vars_ = rng.choice([None, {}, {"parent": "home_page"}, {"parent": "p", "name": "from_vars"}, {"raw": "20240105"},
                            {"date": "20240202", "parent": "q"}, {"name": "n", "date": "not-a-date"}, {"topic": "fromcaller"}])
        ops.append({"target": target, "template": template, "vars": vars_, "overwrite": rng.random() < 0.2})
    return {"files": files, "pats": pats, "ops": ops}


def render_oracle(body, pvars):
    import jinja2
    ctx = {}
    for k, v in pvars:
        if v[0] == "s":
            ctx[k] = v[1]
        else:
            ctx[k] = dt.datetime(int(v[1]), int(v[2]), int(v[3]))
    ctx["dt"] = dt
    try:
        return ["ok", jinja2.Environment().from_string(body).render(ctx)]
    except Exception as e:  # noqa: BLE001
        return ["exn", type(e).__name__]


def expected(eng, pats_in, case, files):
    """Model plan + oracles -> (status, tree)."""
    target = case["target"]
    norm = target if "." in target else target + ".zo"
    pats = []
    for pat, tmpl in pats_in:
        m = re.compile(pat).match(norm)
        if m is None:
            pats.append([pat, tmpl, None])
        else:
            gd = m.groupdict()
            if any(v is None for v in gd.values()):
                return ["oom"], None
            pats.append([pat, tmpl, [[[k, v] for k, v in gd.items()]]])
    r = eng.call("tmpl_plan", [[k, v] for k, v in sorted(files.items())], pats, target,
                 [case["template"]] if case["template"] else None,
                 [[k, v] for k, v in (case["vars"] or {}).items()], case["overwrite"])
    if r[0] != "ok":
        return r, dict(files)
    plan = r[1]
    if plan[0] == "nowrite":
        return ["ok"], dict(files)
    _, path, tmpl, body, pvars = plan
    out = render_oracle(body, pvars)
    if out[0] != "ok":
        return out, dict(files)
    tree = dict(files)
    tree[path] = out[1]
    return ["ok"], tree


def run_impl_once(d, pats_in, case):
    from zorg.service.templates import init_from_template
    pm = {re.compile(p): Path(t) for p, t in pats_in}
    try:
        with quiet():
            init_from_template(d, pm, case["target"], template=Path(case["template"]) if case["template"] else None,
                               var_map=case["vars"], should_overwrite_existing=case["overwrite"])
        return ["ok"]
    except Exception as e:  # noqa: BLE001
        return ["exn", type(e).__name__]


def check_case(eng, case, oc):
    d = tempfile.mkdtemp(prefix="c16_")
    steps = []
    try:
        write_tree(d, case["files"])
        for op in case["ops"]:
            before = read_tree(d)
            st1 = run_impl_once(d, case["pats"], op)
            tree1 = read_tree(d)
            st2 = run_impl_once(d, case["pats"], op)
            tree2 = read_tree(d)
            steps.append((op, before, st1, tree1, st2, tree2))
    finally:
        shutil.rmtree(d, ignore_errors=True)
    oc.evaluations += 1
    for op, before, st1, tree1, st2, tree2 in steps:
        est, etree = expected(eng, case["pats"], op, before)
        if est[0] == "oom":
            oc.count("out_of_model")
            return True
        target = op["target"] if "." in op["target"] else op["target"] + ".zo"
        fails = []
        if (st1[0], tree1) != (est[0], etree):
            fails.append(("init differs from the model's plan rendered by jinja2",
                          {"status": st1, "target": tree1.get(target)}, {"status": est, "target": (etree or {}).get(target)}))
        # property clauses checked on the implementation alone
        if target in before and not op["overwrite"] and tree1 != before:
            fails.append(("existing file changed without overwrite", tree1.get(target), before[target]))
        if st1[0] == "ok" and not op["overwrite"] and tree2 != tree1:
            fails.append(("second init changed something", tree2.get(target), tree1.get(target)))
        changed = [k for k in set(tree1) | set(before) if tree1.get(k) != before.get(k)]
        if any(k != target for k in changed):
            fails.append(("a file other than the target changed", changed, [target]))
        if fails:
            why, impl, spec = fails[0]
            oc.spec_fail.append((case, {"why": why, "op": op, "impl": impl}, spec, None))
            return False
        oc.count("plan_" + ("write" if tree1 != before else "nowrite") + ("_exn" if st1[0] != "ok" else ""))
    return True


def run(oc, tier, seed):
    rng = random.Random(seed)
    eng = lib.Engine()
    n = 400 if tier == "quick" else 8000
    oc.rule = ("random pattern maps (0-6 of 9 overlapping regexes with named groups and date-like captures, in random order), "
               "targets existing/missing/in sub-directories/with invalid dates, optional explicit template, variable maps "
               "colliding with group names, overwrite flag; sequences of 1-3 inits on one directory, each run twice, all in one process (templates with equal basenames "
               "in different directories share the process-wide cache); non-trivial = a file was written")
    for f in sorted(glob.glob(os.path.join(lib.VERIF, "corpus", "C16", "*.json"))):
        check_case(eng, json.load(open(f)), oc)
    # body builder correspondence on all templates
    from zorg.service.templates import ZorgTemplateManager
    for name, text in TEMPLATES.items():
        d = tempfile.mkdtemp(prefix="c16b_")
        try:
            Path(d, "t.zot").write_text(text)
            os.makedirs(os.path.join(d, "out"))
            ZorgTemplateManager._build_template_in_dir(Path(d, "out"), Path(d, "t.zot"))
            impl = Path(d, "out", "t.zot").read_text()
        finally:
            shutil.rmtree(d, ignore_errors=True)
        model = eng.call("build_body", text)
        oc.evaluations += 1
        if impl != model:
            oc.corr_mismatch.append(("build_body", {"template": text}, impl, model))
    # in every run: two templates with the SAME basename in different directories, used in one process, in both orders
    for a, b in (("work", "home"), ("home", "work")):
        fixed = {"files": dict(TEMPLATES), "pats": [list(p) for p in PATTERNS if p[1] in ("work/log.zot", "home/log.zot")],
                 "ops": [{"target": "%s/20240105" % a, "template": None, "vars": None, "overwrite": False},
                         {"target": "%s/20240106" % b, "template": None, "vars": None, "overwrite": False}]}
        check_case(eng, fixed, oc)
    for i in range(n):
        case = gen_case(rng)
        before = len(oc.spec_fail)
        ok = check_case(eng, case, oc)
        if oc.stats.get("plan_write", 0) and ok:
            pass
        if i < 2:
            oc.samples.append({k: v for k, v in case.items() if k != "files"})
        if ok:
            oc.nontriv((case["pats"], str(case["ops"])))
        else:
            break
    eng.close()


def replay(path):
    payload = json.load(open(path))
    eng = lib.Engine()
    oc = lib.Outcome("C16")
    ok = check_case(eng, payload["case"], oc)
    print(json.dumps(oc.spec_fail[:1], indent=1, default=str)[:3000])
    eng.close()
    return 0 if ok else 1
