"""C12 — a note's text form compiles back to the same note."""
import datetime as dt
import glob
import json
import os
import random
import re

from harness import lib, pagegen, c12work
from harness.props import c01

ASSUMPTIONS = c01.ASSUMPTIONS + [
    "parts (a)/(b)/(d): Note.to_string is run for real on the Note objects the real compiler built; part (c) runs the real db create / "
    "swog.execute / refresh_zoq_file on an indexed directory",
]
TODAY = c01.TODAY
OWN = ("body", "zid", "areas", "contexts", "people", "projects", "links", "props")


def same_core(n1, n2):
    diffs = {k: [n1[k], n2[k]] for k in OWN if n1[k] != n2[k]}
    k1 = n1["todo"][1] if n1["todo"] else "-"
    k2 = n2["todo"][1] if n2["todo"] else "-"
    if k1 != k2:
        diffs["kind"] = [k1, k2]
    if n1["zid"] and (n1["create"], n1["modify"]) != (n2["create"], n2["modify"]):
        diffs["dates"] = [[n1["create"], n1["modify"]], [n2["create"], n2["modify"]]]
    if n1["todo"] and n1["todo"][1] not in ("x", "~") and n2["todo"] and n1["todo"][0] != n2["todo"][0]:
        diffs["priority"] = [n1["todo"][0], n2["todo"][0]]
    return diffs


def trigger_of(n1):
    if n1["todo"] and n1["todo"][1] in ("x", "~") and re.match(r"P\d(\s|$)", n1["body"]):
        return "prefix_reinterpreted"
    return None


def items_of(rng, n):
    uid = [1]
    out = []
    for _ in range(n):
        it = pagegen.gen_item(rng, uid)
        out.append("\n".join(pagegen.render_item(it)))
    return out


ODD_PAGE = ("# odd whitespace\n\n"
            "- heading with a trailing space \n  * bullet under it\n"
            "o P2 todo whose continuation holds only indentation\n  \n  * after the gap\n"
            "- double  space inside and a tab-free tail\n"
            "x done with bullets \n  * one \n  * two\n")
# every priority with every kind that keeps it in the text form
PRIO_PAGE = "# priorities\n\n" + "".join("%s P%d todo of kind %s with priority %d\n" % (k, n, {"o": "open", "<": "blocked", ">": "parent"}[k], n)
                                          for k in "o<>" for n in range(10)) + "\n"
# new notes (no ZID yet) that start with a long creation date, with continuation lines, bullets and inner double spaces:
# what the index stores for them at `db create` is what queries emit afterwards
DATED_PAGE = ("# dated new notes\n\n"
              "- 2024-05-10 Buy milk  and bread\n  * when:: tomorrow morning\n  * where:: corner shop\n"
              "o P3 2024-05-11 dated todo with a continuation\n  second line of it\n"
              "- 2024-05-12 single line dated note\n"
              "x 2024-05-13 done  dated\n  * after the double space\n")
KIND_WHERES = {"(o | x | - | ~ | < | >)": None, "o": "o", "-": "-", "(o | x)": "ox", "(- | ~ | <)": "-~<"}
ORDERS = ["", " O none", " O alpha", " O create", " O modify alpha", " O type priority", " O priority"]


def real_pipeline(rng, oc):
    """(c) the texts zorg really emits: swog.execute (ungrouped, every ordering) and refresh_zoq_file on an
    indexed directory, put under a header / read as the saved-query page, recompiled, compared per ZID."""
    from freezegun import freeze_time
    from pathlib import Path
    from harness import zdir as Z, fc
    from harness.implrun import write_tree, read_tree
    today = dt.date(*TODAY)
    with Z.tmpdir("c12_") as d:
        files = {"odd.zo": ODD_PAGE, "prio.zo": PRIO_PAGE, "dated.zo": DATED_PAGE,
                 "many.zo": "# many new notes of one day\n\n" + "".join("%s entry number %d\n" % ("-o~x<>"[k % 6], k) for k in range(46)) + "\n",
                 "gen.zo": pagegen.render(pagegen.gen_page(rng, max_sections=2)),
                 "sub/more.zo": pagegen.render(pagegen.gen_page(rng, max_sections=1))}
        write_tree(d, files)
        with freeze_time(dt.datetime(today.year, today.month, today.day, 12)):
            try:
                Z.db_create(d)
            except Exception as e:  # noqa: BLE001
                oc.spec_fail.append(({"files": files}, "db create raised %s: %s" % (type(e).__name__, str(e)[:200]),
                                     "db create succeeds on well-formed pages", None))
                return False
            orig = {}
            for rel, text in read_tree(d).items():
                if rel.endswith(".zo") and not rel.startswith(".zorg"):
                    r = fc.compile_text(text, today, False)
                    if r["status"] != "ok" or r["nerrors"]:
                        oc.count("c_page_not_wellformed")
                        return True
                    for n in r["notes"]:
                        orig[n["zid"]] = n
            # every indexed note must be found again, under its ZID, in what the files compile to (an emitted ZID that the
            # grammar does not read as a ZID shows here)
            from harness import world as W
            indexed = {n["zid"] for n in W.dump_index(d)}
            if indexed != set(orig):
                oc.spec_fail.append(({"files": files}, {"zids_only_in_index": sorted(z for z in indexed - set(orig) if z)[:5],
                                                         "zids_only_in_files": sorted(z for z in set(orig) - indexed if z)[:5]},
                                     "the notes the index holds are the notes the (written-back) files compile to, ZID for ZID", None))
                return False
            jobs = []
            for w, kinds in KIND_WHERES.items():
                for o in rng.sample(ORDERS, 3):
                    jobs.append((w, kinds, o))
            for i, (w, kinds, o) in enumerate(jobs):
                q = "S note W %s%s G none" % (w, o)
                want = {z for z, n in orig.items() if kinds is None or (n["todo"][1] if n["todo"] else "-") in kinds}
                try:
                    if i % 3 == 2:
                        zq = Path(d, "zoq", "q%d.zoq" % i)
                        zq.parent.mkdir(exist_ok=True)
                        zq.write_text("# %s\n" % q)
                        from zorg.service import swog
                        Z.fresh_process()
                        with quiet_():
                            if i % 2 == 0:
                                # the page was refreshed before with a query that selects MORE: what it showed then must be gone
                                zq.write_text("# S note W (o | x | - | ~ | < | >) O alpha G none\n")
                                swog.refresh_zoq_file(Path(d), Z.db_url(d), zq)
                                body = zq.read_text()
                                zq.write_text("# %s\n" % q + body.split("\n", 1)[1] if "\n" in body else "# %s\n" % q)
                                Z.fresh_process()
                            swog.refresh_zoq_file(Path(d), Z.db_url(d), zq)
                        # the page as written has no final newline (a page-level matter the property does not speak of,
                        # and zorg never compiles *.zoq pages itself): the rendered selection is judged with one
                        page2, how = zq.read_text(), "refresh_zoq_file"
                        if not page2.endswith("\n"):
                            page2 += "\n"
                    else:
                        page2, how = "# RESULTS\n\n" + Z.execute(d, q) + "\n", "swog.execute under a header"
                except Exception as e:  # noqa: BLE001
                    oc.spec_fail.append(({"files": files, "query": q}, "%s raised %s" % (how if 'how' in dir() else 'query', type(e).__name__),
                                         "the query renders", None))
                    return False
                oc.evaluations += 1
                r2 = fc.compile_text(page2, today, False)
                bad = None
                if r2["status"] != "ok" or r2["nerrors"] or r2["has_errors"]:
                    bad = {"recompiled": {k: r2[k] for k in ("status", "nerrors", "has_errors")}}
                else:
                    got = {n["zid"]: n for n in r2["notes"]}
                    if set(got) != want or len(r2["notes"]) != len(want):
                        bad = {"notes": [sorted(want - set(got)), sorted(z for z in set(got) - want if z)], "n": [len(want), len(r2["notes"])]}
                    else:
                        for z in want:
                            dd = {k: v for k, v in same_core(orig[z], got[z]).items() if k in ("body", "zid", "kind", "priority")}
                            if dd and not trigger_of(orig[z]):
                                bad = {"zid": z, "diff[original,recompiled]": dd}
                                break
                if bad:
                    oc.spec_fail.append(({"files": files, "query": q, "how": how}, dict(bad, rendered=page2[:3000]),
                                         "the emitted text under a header is a valid page whose notes are exactly the selected notes", None))
                    return False
                oc.count("c_" + how.split()[0])
                oc.nontriv(q)
    return True


def quiet_():
    from harness.implrun import quiet
    return quiet()


def theorem_tie(eng, rng, oc, n):
    """(d) the domain of C12_emitted_text_is_an_item: generated abstract items are tidy, the model's canonical text is
    the text the page was written with, and the real Note.to_string of the really compiled note is the model's
    render_item (emit_form it)."""
    from harness import apage, fc
    from pathlib import Path
    from zorg.domain.models import Note, TodoPayload
    from zorg.domain.types import NoteType
    uid = [0]
    today = dt.date(*TODAY)
    for _ in range(n):
        it = apage.gen_item(rng, uid)
        text = apage.render_item(it)
        oc.evaluations += 1
        case = {"item_text": text, "item": it}
        if not (eng.call("item_tidy", it) == "t") or eng.call("item_text", it) != text:
            oc.corr_mismatch.append(("abstract item: tidy / canonical text", case, eng.call("item_text", it), text))
            return False
        r = fc.compile_text("# h\n\n" + text + "\n", today, False)
        if r["status"] != "ok" or r["nerrors"] or len(r["notes"]) != 1:
            oc.spec_fail.append((case, {k: r[k] for k in ("status", "nerrors")}, "a well-formed item compiles to one note", None))
            return False
        n1 = r["notes"][0]
        emitted = r["texts"][0]       # the real Note object's text form
        want = eng.call("item_emit", it) + "\n"
        if emitted != want:
            oc.corr_mismatch.append(("Note.to_string vs render_item (emit_form it)", case, emitted, want))
            return False
        oc.count("theorem_items")
    return True


def results_tie(eng, rng, oc, n):
    """(e) the domain of C12_results_page_text: a page of abstract items that carry ZIDs is indexed by the real `db create`;
    the real `S note ... O none G none` output must be the items' text forms (render_item (emit_form it)), one per
    line, in file order - the text the theorem says compiles back to exactly those notes."""
    from freezegun import freeze_time
    from harness import apage, zdir as Z
    from harness.implrun import write_tree
    uid = [0]
    for k in range(n):
        its, seen = [], set()
        while len(its) < rng.randint(1, 7):
            it = apage.gen_item(rng, uid)
            z = it[2][-1] if it[2][0] in ("zid", "modzid") else None
            if z and z not in seen and eng.call("item_tidy", it) == "t":
                seen.add(z)
                its.append(it)
        text = "# results tie\n\n" + "".join(apage.render_item(it) + "\n" for it in its) + "\n"
        want = "\n".join(eng.call("item_emit", it) for it in its)
        oc.evaluations += 1
        with Z.tmpdir("c12e_") as d:
            write_tree(d, {"p.zo": text})
            with freeze_time(dt.datetime(TODAY[0], TODAY[1], TODAY[2], 12)):
                try:
                    Z.db_create(d)
                    got = Z.execute(d, "S note W (o | x | - | ~ | < | >) O none G none")
                except Exception as e:  # noqa: BLE001
                    oc.spec_fail.append(({"page_text": text}, "%s raised" % type(e).__name__, "db create and the query succeed", None))
                    return False
        if got.strip("\n") != want:
            diff = [(a, b) for a, b in zip(want.split("\n"), got.strip("\n").split("\n")) if a != b][:2]
            oc.spec_fail.append(({"page_text": text}, {"lines[theorem, query output]": diff, "n": [len(its), got.count("\n")]},
                                 "the ungrouped selection is the items' text forms, one per line, in order "
                                 "(C12_results_page_text)", None))
            return False
        oc.count("results_pages")
    return True


def run(oc, tier, seed):
    pagegen.SAME_DAY_MOD_RATE = 0.25
    rng = random.Random(seed)
    pool = lib.pool()
    eng = lib.Engine()
    n_items, n_pages = (500, 40) if tier == "quick" else (12000, 800)
    n_dirs = 2 if tier == "quick" else 40
    oc.rule = ("(a) generated items of every kind x priority x identity form x word forms x continuation lines, compiled alone "
               "under a header, rendered with the real Note.to_string, recompiled: same kind, ZID, body, own tags/links/"
               "properties, dates when a ZID is present, priority unless done/cancelled; to_string text vs the Coq model; "
               "(b) all notes of generated pages rendered ungrouped (file order, reversed, alphabetical) under a header must "
               "recompile to exactly those notes; (c) indexed directories (generated pages + a page with inner trailing spaces and "
               "indentation-only continuation lines): the real swog.execute text (5 kind filters x 3 of 7 orderings, ungrouped) under "
               "a header and the real refresh_zoq_file page recompile to exactly the selected notes, same kind/ZID/body/priority; "
               "non-trivial = multi-line item or item with priority, or a real query")
    corpus = [json.load(open(f))["item"] for f in sorted(glob.glob(os.path.join(lib.VERIF, "corpus", "C12", "*.json")))]
    items = corpus + items_of(rng, n_items)
    # irregular spacing after the prefix and Pn-leading bodies
    items += ["x  P4 240101#00 foo", "o  P1   spaced body", "- P4 note that starts like a priority", "> P1 parent todo 240101",
              "> P0 240102#0A parent with zid", "< P9 blocked"]
    res = pool.map(c12work.roundtrip_job, [(it, TODAY) for it in items], chunksize=8)
    pages = [pagegen.render(pagegen.gen_page(rng, max_sections=2)) for _ in range(n_pages)]
    pres = pool.map(c12work.page_job, [(p, TODAY, rng.choice(["file", "rev", "alpha"])) for p in pages], chunksize=4)
    pool.close()
    stop = False
    for it, r in zip(items, res):
        oc.evaluations += 1
        if r["skip"]:
            oc.count("item_not_wellformed")
            continue
        n1 = r["n1"]
        model = eng.call("to_string", [[n1["todo"][0], n1["todo"][1]]] if n1["todo"] else None, n1["body"])
        if model != r["text"]:
            oc.corr_mismatch.append(("Note.to_string", {"item": it}, r["text"], model))
            break
        if "\n" in n1["body"] or n1["todo"]:
            oc.nontriv(it)
        r2 = r["r2"]
        bad = None
        if r2["status"] != "ok" or r2["nerrors"] or r2["has_errors"] or len(r2["notes"] or []) != 1:
            bad = {"text_form": r["text"], "recompiled": {k: r2[k] for k in ("status", "nerrors", "has_errors")},
                   "n_notes": len(r2["notes"] or [])}
        else:
            d = same_core(n1, r2["notes"][0])
            if d:
                bad = {"text_form": r["text"], "diff[original,recompiled]": d}
        if bad:
            trig = trigger_of(n1)
            oc.spec_fail.append(({"item": it}, bad, "the text form compiles to the same note", trig))
            if trig:
                oc.known_hit[trig] = it
            else:
                stop = True
                break
    if not stop:
        for p, r in zip(pages, pres):
            oc.evaluations += 1
            if r["skip"]:
                oc.count("page_not_wellformed")
                continue
            r2 = r["r2"]
            ok = r2["status"] == "ok" and not r2["nerrors"] and not r2["has_errors"] and len(r2["notes"]) == len(r["notes"])
            d = None
            if ok:
                for a, b in zip(r["notes"], r2["notes"]):
                    own_only = {k: v for k, v in same_core(a, b).items() if k in ("body", "zid", "kind", "priority")}
                    if own_only and not trigger_of(a):
                        ok, d = False, own_only
                        break
            if not ok:
                oc.spec_fail.append(({"page": p}, {"rendered": r["page2"], "recompiled": {k: r2[k] for k in ("status", "nerrors", "has_errors")},
                                                   "n": [len(r["notes"]), len(r2["notes"] or [])], "diff": d},
                                     "an ungrouped rendering under a header is a valid page with exactly those notes", None))
                break
            oc.count("pages_roundtripped")
    if not stop and not any(f[3] is None for f in oc.spec_fail):
        theorem_tie(eng, rng, oc, 40 if tier == "quick" else 1500)
        if not any(f[3] is None for f in oc.spec_fail):
            results_tie(eng, random.Random(seed + 9), oc, 6 if tier == "quick" else 120)
    if not stop and not any(f[3] is None for f in oc.spec_fail) and not oc.corr_mismatch:
        for _ in range(n_dirs):
            if not real_pipeline(rng, oc):
                break
    oc.samples.extend(items[len(corpus):len(corpus) + 3])
    eng.close()


def replay(path):
    payload = json.load(open(path))
    case = payload["case"]
    if "item" in case:
        r = c12work.roundtrip_job((case["item"], TODAY))
        print(json.dumps(r, indent=1, default=str)[:3000])
        if r["skip"]:
            return 0
        d = same_core(r["n1"], r["r2"]["notes"][0]) if r["r2"]["notes"] and len(r["r2"]["notes"]) == 1 else {"n": "differs"}
        return 1 if d and not trigger_of(r["n1"]) else 0
    r = c12work.page_job((case["page"], TODAY, "file"))
    print(json.dumps(r, indent=1, default=str)[:3000])
    return 0
