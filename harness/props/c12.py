"""C12 — a note's text form compiles back to the same note."""
import datetime as dt
import glob
import json
import os
import random
import re

from harness import lib, pagegen, c12work
from harness.props import c01

ASSUMPTIONS = c01.ASSUMPTIONS + [
    "Note.to_string is run for real on notes rebuilt from the compiled fields; swog.execute / refresh_zoq_file emit exactly these strings joined by newlines",
]
TODAY = c01.TODAY
OWN = ("body", "zid", "areas", "contexts", "people", "projects", "links", "props")


def same_core(n1, n2):
    diffs = {k: [n1[k], n2[k]] for k in OWN if n1[k] != n2[k]}
    k1 = n1["todo"][1] if n1["todo"] else "-"
    k2 = n2["todo"][1] if n2["todo"] else "-"
    if k1 != k2:
        diffs["kind"] = [k1, k2]
    if n1["zid"] and (n1["create"], n1["modify"]) != (n2["create"], n2["modify"]):
        diffs["dates"] = [[n1["create"], n1["modify"]], [n2["create"], n2["modify"]]]
    if n1["todo"] and n1["todo"][1] not in ("x", "~") and n2["todo"] and n1["todo"][0] != n2["todo"][0]:
        diffs["priority"] = [n1["todo"][0], n2["todo"][0]]
    return diffs


def trigger_of(n1):
    if n1["todo"] and n1["todo"][1] in ("x", "~") and re.match(r"P\d(\s|$)", n1["body"]):
        return "prefix_reinterpreted"
    return None


def items_of(rng, n):
    uid = [1]
    out = []
    for _ in range(n):
        it = pagegen.gen_item(rng, uid)
        out.append("\n".join(pagegen.render_item(it)))
    return out


def run(oc, tier, seed):
    rng = random.Random(seed)
    pool = lib.pool()
    eng = lib.Engine()
    n_items, n_pages = (500, 40) if tier == "quick" else (12000, 800)
    oc.rule = ("(a) generated items of every kind x priority x identity form x word forms x continuation lines, compiled alone "
               "under a header, rendered with the real Note.to_string, recompiled: same kind, ZID, body, own tags/links/"
               "properties, dates when a ZID is present, priority unless done/cancelled; to_string text vs the Coq model; "
               "(b) all notes of generated pages rendered ungrouped (file order, reversed, alphabetical) under a header must "
               "recompile to exactly those notes; non-trivial = multi-line item or item with priority")
    corpus = [json.load(open(f))["item"] for f in sorted(glob.glob(os.path.join(lib.VERIF, "corpus", "C12", "*.json")))]
    items = corpus + items_of(rng, n_items)
    # irregular spacing after the prefix and Pn-leading bodies
    items += ["x  P4 240101#00 foo", "o  P1   spaced body", "- P4 note that starts like a priority", "> P1 parent todo 240101",
              "> P0 240102#0A parent with zid", "< P9 blocked"]
    res = pool.map(c12work.roundtrip_job, [(it, TODAY) for it in items], chunksize=8)
    pages = [pagegen.render(pagegen.gen_page(rng, max_sections=2)) for _ in range(n_pages)]
    pres = pool.map(c12work.page_job, [(p, TODAY, rng.choice(["file", "rev", "alpha"])) for p in pages], chunksize=4)
    pool.close()
    stop = False
    for it, r in zip(items, res):
        oc.evaluations += 1
        if r["skip"]:
            oc.count("item_not_wellformed")
            continue
        n1 = r["n1"]
        model = eng.call("to_string", [[n1["todo"][0], n1["todo"][1]]] if n1["todo"] else None, n1["body"])
        if model != r["text"]:
            oc.corr_mismatch.append(("Note.to_string", {"item": it}, r["text"], model))
            break
        if "\n" in n1["body"] or n1["todo"]:
            oc.nontriv(it)
        r2 = r["r2"]
        bad = None
        if r2["status"] != "ok" or r2["nerrors"] or r2["has_errors"] or len(r2["notes"] or []) != 1:
            bad = {"text_form": r["text"], "recompiled": {k: r2[k] for k in ("status", "nerrors", "has_errors")},
                   "n_notes": len(r2["notes"] or [])}
        else:
            d = same_core(n1, r2["notes"][0])
            if d:
                bad = {"text_form": r["text"], "diff[original,recompiled]": d}
        if bad:
            trig = trigger_of(n1)
            oc.spec_fail.append(({"item": it}, bad, "the text form compiles to the same note", trig))
            if trig:
                oc.known_hit[trig] = it
            else:
                stop = True
                break
    if not stop:
        for p, r in zip(pages, pres):
            oc.evaluations += 1
            if r["skip"]:
                oc.count("page_not_wellformed")
                continue
            r2 = r["r2"]
            ok = r2["status"] == "ok" and not r2["nerrors"] and not r2["has_errors"] and len(r2["notes"]) == len(r["notes"])
            d = None
            if ok:
                for a, b in zip(r["notes"], r2["notes"]):
                    own_only = {k: v for k, v in same_core(a, b).items() if k in ("body", "zid", "kind", "priority")}
                    if own_only and not trigger_of(a):
                        ok, d = False, own_only
                        break
            if not ok:
                oc.spec_fail.append(({"page": p}, {"rendered": r["page2"], "recompiled": {k: r2[k] for k in ("status", "nerrors", "has_errors")},
                                                   "n": [len(r["notes"]), len(r2["notes"] or [])], "diff": d},
                                     "an ungrouped rendering under a header is a valid page with exactly those notes", None))
                break
            oc.count("pages_roundtripped")
    oc.samples.extend(items[len(corpus):len(corpus) + 3])
    eng.close()


def replay(path):
    payload = json.load(open(path))
    case = payload["case"]
    if "item" in case:
        r = c12work.roundtrip_job((case["item"], TODAY))
        print(json.dumps(r, indent=1, default=str)[:3000])
        if r["skip"]:
            return 0
        d = same_core(r["n1"], r["r2"]["notes"][0]) if r["r2"]["notes"] and len(r["r2"]["notes"]) == 1 else {"n": "differs"}
        return 1 if d and not trigger_of(r["n1"]) else 0
    r = c12work.page_job((case["page"], TODAY, "file"))
    print(json.dumps(r, indent=1, default=str)[:3000])
    return 0
