"""C17 — action open.  Model: coq/Model/ActionOpen.v."""
import glob
import json
import os
import random
import re

from harness import lib
from harness.implrun import zorg_main, write_tree
from harness import zdir as Z

ASSUMPTIONS = [
    "`open` / papis subprocesses and saved-query refresh are not run (lines with [!..], z:: targets, binary extensions and query lines are OutOfModel)",
    "the index is described to the model by the ID/RID/ZID rows of the pages the harness itself wrote",
]

PAGES = {
    "a.zo": "# page a\n\n- 240101#00 alpha note ID::alpha\n- 240101#01 knuth RID::knuth\n- 240101#02 dup one ID::dup\n- 240101#03 r RID::dupr\n- 240101#04 rel ID::rel_notes\n- 240101#000 late one ID::late\n",
    "sub/b.zo": "# page b\n\n- 240102#00 dup two ID::dup\n- 240102#01 same1 ID::same\n- 240102#02 same2 ID::same\n- 240102#03 r2 RID::dupr\n- 240102#04 relx ID::relXnotes\n- 240102#05 k RID::knuth_65\n- 240102#06 k2 RID::knuthX65\n- 240102#0A5 later one RID::later\n",
    "foo.zo": "# foo\n",
    "bar.sh": "echo\n",
}
IDS = [("ID", "alpha", "a.zo", "240101#00"), ("RID", "knuth", "a.zo", "240101#01"), ("ID", "dup", "a.zo", "240101#02"),
       ("RID", "dupr", "a.zo", "240101#03"), ("ID", "rel_notes", "a.zo", "240101#04"), ("ID", "dup", "sub/b.zo", "240102#00"),
       ("ID", "same", "sub/b.zo", "240102#01"), ("ID", "same", "sub/b.zo", "240102#02"), ("RID", "dupr", "sub/b.zo", "240102#03"),
       ("ID", "relXnotes", "sub/b.zo", "240102#04"), ("RID", "knuth_65", "sub/b.zo", "240102#05"), ("RID", "knuthX65", "sub/b.zo", "240102#06"),
       # notes whose ZIDs have the three-character suffixes the allocator hands out after #zz
       ("ID", "late", "a.zo", "240101#000"), ("RID", "later", "sub/b.zo", "240102#0A5")]
ZIDS = [(z, p) for (_, _, p, z) in IDS]
TARGETS = ["[[foo]]", "[[foo#sec]]", "[[sub/b]]", "[[missing]]", "[[bar.sh]]", "[^loc1]", "[^X]", "[#alpha]", "[#dup]", "[#same]",
           "[#nope]", "[#rel_notes]", "[@knuth]", "[@dupr]", "[@knuth_65]", "[@none]", "[240101#02]", "240102#01", "[240199#zz]",
           "240102#03", "240101#000", "[240102#0A5]", "[#late]",
           # page names that ARE a binary extension, and pages with two dots
           "[[pdf]]", "[[epub#sec]]", "[[png]]", "[[notes.pdf]]", "[[v1.2]]"]
PLAIN = ["word", "and", "see", "x", "o", "P1", "240601", "-", "note:", "(aside)", "k::v", "#tag", "@ctx", "2024-01-01", "1200"]
# also: bare indentation (a continuation line of a note: it has no ZID of its own, every ZID on it is a reference)
PREFIXES = ["- ", "o ", "o P1 ", "x P3 240601 ", "- 240601 ", "~ ", "< P0 ", "  * ", "", "# ", "  ", "    "]


def decorate(rng, t):
    return rng.choice(["%s", "%s", "%s", "(%s)", "%s.", "%s,", "(%s),", "%s;", "%s:", "%s?", "%s!",
                       # the punctuation set is stripped on both sides, whatever the character
                       ",%s", ":%s:", "%s(", ".%s", ")%s", "?%s!", ";%s", "!%s("]) % t


def gen_line(rng):
    pre = rng.choice(PREFIXES)
    primary = rng.choice(["240105#0A ", "240105#0A ", "", "240105#0A7 "])
    words = []
    for _ in range(rng.randint(0, 7)):
        if rng.random() < 0.45:
            # sometimes the same target again
            prev = [w for w in words if w.strip("(),.?!;:") in TARGETS]
            words.append(decorate(rng, rng.choice(prev).strip("(),.?!;:") if prev and rng.random() < 0.2 else rng.choice(TARGETS)))
        else:
            words.append(rng.choice(PLAIN))
    return pre + primary + " ".join(words)


def norm_out(out, d):
    lines = [l for l in out.split("\n") if l]
    return [l.replace(d + "/", "") for l in lines]


def is_zid(w):
    return len(w) in (9, 10) and w[:6].isdigit() and w[6] == "#"


def spec_targets(line, is_zoq):
    """The property's reading: page/local/global/ref/named-URL links and non-primary ZIDs, in line order.
    The primary ZID is the ZID in identity position (after kind, priority and modify date)."""
    out, primary_seen, in_prefix = [], False, True
    if line.startswith(" "):
        primary_seen, in_prefix = True, False      # a continuation line has no ZID of its own
    for idx, w0 in enumerate(line.split(" ")):
        w = w0.strip("(),.?!;:")
        if re.fullmatch(r"\[\[[^\[\]]+\]\]|\[\^[^\]]+\]|\[#[^\]]+\]|\[@[^\]]+\]|\[![^\]]+\]", w):
            out.append(w)
            in_prefix = False
            continue
        zw = w.strip("[]")
        if is_zid(zw):
            if is_zoq:
                out.append(zw)
            elif in_prefix and not primary_seen and zw == w and idx > 0:
                primary_seen = True          # the note's own ZID
                in_prefix = False
            else:
                out.append(zw)
                if zw != w:
                    in_prefix = False        # a bracketed ZID is a reference: the identity position is over
            continue
        if in_prefix and (w in ("-", "o", "x", "~", "<", ">", "") or re.fullmatch(r"P\d", w) or re.fullmatch(r"\d{6}", w)):
            continue
        in_prefix = False
    return out


def spec_targets_without(line, is_zoq, dropped):
    """spec_targets minus the ZID targets at the given word positions"""
    out, primary_seen, in_prefix = [], False, True
    if line.startswith(" "):
        primary_seen, in_prefix = True, False      # a continuation line has no ZID of its own
    for idx, w0 in enumerate(line.split(" ")):
        w = w0.strip("(),.?!;:")
        if re.fullmatch(r"\[\[[^\[\]]+\]\]|\[\^[^\]]+\]|\[#[^\]]+\]|\[@[^\]]+\]|\[![^\]]+\]", w):
            out.append(w)
            in_prefix = False
            continue
        zw = w.strip("[]")
        if is_zid(zw):
            if is_zoq:
                out.append(zw)
            elif in_prefix and not primary_seen and zw == w and idx > 0:
                primary_seen = True
                in_prefix = False
            else:
                if idx not in dropped:
                    out.append(zw)
                if zw != w:
                    in_prefix = False
            continue
        if in_prefix and (w in ("-", "o", "x", "~", "<", ">", "") or re.fullmatch(r"P\d", w) or re.fullmatch(r"\d{6}", w)):
            continue
        in_prefix = False
    return out


def spec_target_positions(line, is_zoq):
    """word positions of the ZIDs that spec_targets counts as targets"""
    pos, primary_seen, in_prefix = set(), False, True
    if line.startswith(" "):
        primary_seen, in_prefix = True, False
    for idx, w0 in enumerate(line.split(" ")):
        w = w0.strip("(),.?!;:")
        if re.fullmatch(r"\[\[[^\[\]]+\]\]|\[\^[^\]]+\]|\[#[^\]]+\]|\[@[^\]]+\]|\[![^\]]+\]", w):
            in_prefix = False
            continue
        zw = w.strip("[]")
        if is_zid(zw):
            if is_zoq:
                pos.add(idx)
            elif in_prefix and not primary_seen and zw == w and idx > 0:
                primary_seen = True
                in_prefix = False
            else:
                pos.add(idx)
                if zw != w:
                    in_prefix = False
            continue
        if in_prefix and (w in ("-", "o", "x", "~", "<", ">", "") or re.fullmatch(r"P\d", w) or re.fullmatch(r"\d{6}", w)):
            continue
        in_prefix = False
    return pos


def impl_run(d, path, lineno, opt):
    args = ["--dir", d, "action", "open", os.path.join(d, path), str(lineno)]
    if opt is not None:
        args.append(str(opt))
    rc, out = zorg_main(args)
    return norm_out(out, d), rc


def model_run(eng, is_zoq, line, lineno, opt):
    env = [["a.zo", "sub/b.zo", "foo.zo", "bar.sh"], [list(t) for t in IDS], [list(t) for t in ZIDS],
           ["epub", "jpeg", "pdf", "png", "xmind"]]
    r = eng.call("action", env, is_zoq, line, str(lineno), [opt] if opt is not None else None)
    if r[0] != "ok":
        return r
    msgs, rc = r[1]
    return ["ok", ["%s %s" % (m[0], m[1]) for m in msgs], int(rc)]


def check_line(eng, d, path, lineno, line, oc):
    is_zoq = path.endswith(".zoq")
    ok = True
    mt = eng.call("targets", is_zoq, line)
    opts = [None] + ([1, len(mt), -1, len(mt) + 1] if len(mt) >= 2 else [])
    first_out = None
    for opt in opts:
        out, rc = impl_run(d, path, lineno, opt)
        oc.evaluations += 1
        bad_proto = [l for l in out if not re.match(r"(EDIT|SEARCH|PROMPT|ECHO) ", l)]
        if bad_proto:
            oc.spec_fail.append(({"line": line, "file": path, "opt": opt}, out, "only EDIT/SEARCH/PROMPT/ECHO messages", None))
            ok = False
        m = model_run(eng, is_zoq, line, lineno, opt)
        if m[0] == "oom":
            oc.count("out_of_model")
            continue
        if m[0] != "ok" or [out, rc] != [m[1], m[2]]:
            oc.corr_mismatch.append(("action open", {"line": line, "file": path, "opt": opt}, [out, rc], m))
            ok = False
        if opt is None:
            first_out = out
        # resolution clause, on the implementation alone: an ID / RID / ZID target with exactly one
        # owning note opens that note's page
        if len(mt) == 1 or opt is not None:
            t = mt[0] if len(mt) == 1 else (mt[-1] if opt == -1 else (mt[opt - 1] if 1 <= opt <= len(mt) else None))
            owners = None
            if t and t.startswith("[#") and t.endswith("]"):
                owners = sorted({p for (k, v, p, z) in IDS if k == "ID" and v == t[2:-1]})
            elif t and t.startswith("[@") and t.endswith("]"):
                owners = [p for (k, v, p, z) in IDS if k == "RID" and v == t[2:-1]]
            elif t and is_zid(t):
                owners = [p for (z, p) in ZIDS if z == t]
            elif t and re.fullmatch(r"\[\[[A-Za-z0-9_/]+(#[^\]]*)?\]\]", t):
                # a page link whose name has no dot is page <name>.zo under the notes directory, whatever the name
                # looks like ([[pdf]] is the page pdf.zo)
                owners = [t[2:-2].split("#")[0] + ".zo"]
            if owners is not None and len(owners) == 1 and (not out or out[0] != "EDIT " + owners[0]):
                oc.spec_fail.append(({"line": line, "file": path, "opt": opt}, out,
                                     {"target": t, "owner_page": owners[0]}, None))
                ok = False
        # option-k law on the implementation: same as a line containing only the k-th target
        if opt is not None and first_out and first_out[0].startswith("PROMPT ") and opt != len(mt) + 1:
            offered = first_out[0][7:].split(" ")
            if opt != -1 and not (1 <= opt <= len(offered)):
                if out and out[0].startswith(("EDIT ", "SEARCH ")):
                    oc.spec_fail.append(({"line": line, "file": path, "opt": opt}, [out, rc],
                                         {"offered_through_PROMPT": offered, "but_option_opens_something": opt}, None))
                    ok = False
                continue
            t = offered[-1] if opt == -1 else offered[opt - 1]
            single = impl_single.get(t)
            if single is not None and single != [out, rc]:
                oc.spec_fail.append(({"line": line, "file": path, "opt": opt}, [out, rc],
                                     {"line_with_only_that_target": t, "gives": single}, None))
                ok = False
    # targets considered (observable through the no-option answer)
    st = spec_targets(line, is_zoq)
    if first_out is not None and not (line.startswith(("# S ", "# W ")) and is_zoq):
        if len(st) >= 2:
            want = ["PROMPT " + " ".join(st)]
            good = first_out == want
        elif len(st) == 0:
            good = len(first_out) == 1 and first_out[0].startswith("ECHO We did not find")
            want = ["ECHO We did not find anything ..."]
        else:
            single = impl_single.get(st[0])
            good = single is None or first_out == single[0]
            want = single
        if not good:
            words = [w.strip("(),.?!;:") for w in line.split(" ")]
            trig = None
            # known class: a ZID target occurs before any ordinary word (one that is not a kind
            # character, Pn, six digits, a ZID or a link) has been seen on the line
            # (the implementation's found_primary_zid flag is still unset), while the property's reading
            # (spec_targets) counts that ZID as non-primary
            seen_ordinary = False
            dropped = set()
            spec_pos = spec_target_positions(line, is_zoq)
            for i, w in enumerate(words):
                linkish = (("[[" in w and "]]" in w) or ("[#" in w and "]" in w) or ("[@" in w and "]" in w)
                           or ("[!" in w and "]" in w) or w.startswith("z::") or bool(re.fullmatch(r"\[\^[^\]]+\]", w)))
                zw = w.strip("[]")
                if linkish:
                    continue
                if is_zid(zw) and not is_zoq and i != 0 and not seen_ordinary and i in spec_pos:
                    trig = "primary_flag_late"
                    dropped.add(i)
                if is_zid(zw) and (seen_ordinary or is_zoq or i == 0):
                    continue
                if not (w in ("-", "o", "x", "~", "<", ">") or re.fullmatch(r"P\d|\d{6}", w) or is_zid(w)):
                    seen_ordinary = True
            if trig:
                # the known finding explains the answer only if the answer is the one for the targets WITHOUT those ZIDs
                st2 = spec_targets_without(line, is_zoq, dropped)
                if len(st2) >= 2:
                    explained = first_out == ["PROMPT " + " ".join(st2)]
                elif len(st2) == 0:
                    explained = len(first_out) == 1 and first_out[0].startswith("ECHO We did not find")
                else:
                    single2 = impl_single.get(st2[0])
                    explained = single2 is None or first_out == single2[0]
                if not explained:
                    trig = None
            if trig:
                oc.known_hit[trig] = line
                oc.count("known_class_primary_flag")
            else:
                ok = False
            oc.spec_fail.append(({"line": line, "file": path}, first_out, {"targets": st, "answer": want}, trig))
    return ok


impl_single = {}


def run(oc, tier, seed):
    rng = random.Random(seed)
    eng = lib.Engine()
    n = 60 if tier == "quick" else 1500
    oc.rule = ("lines = prefix (kind/priority/modify date/bullet/comment) + optional primary ZID + 0-7 words, 45% of them one of 20 "
               "targets (page/anchor/local/global/ref links, bare and bracketed ZIDs, missing and ambiguous ones) with "
               "surrounding punctuation; each line placed in a .zo and a .zoq page of an indexed directory; `zorg action open` "
               "run for no option, 1, last, -1 and an out-of-range option; non-trivial = >= 2 targets on the line")
    with Z.tmpdir("c17_") as d:
        write_tree(d, PAGES)
        Z.db_create(d)
        # what a line consisting of one target alone answers (for the option-k law and single-target lines)
        singles = list(TARGETS)
        write_tree(d, {"single.zo": "\n".join(singles) + "\n", "single.zoq": "\n".join(singles) + "\n"})
        for i, t in enumerate(singles):
            tt = t.strip("[]") if re.fullmatch(r"\[?\d{6}#\w{2,3}\]?", t) else t
            impl_single[tt] = list(impl_run(d, "single.zo", i + 1, None))
        corpus = [json.load(open(f))["line"] for f in sorted(glob.glob(os.path.join(lib.VERIF, "corpus", "C17", "*.json")))]
        # continuation lines (indented): they have no ZID of their own, every ZID on them is a reference, also when only
        # links and ZIDs precede it
        fixed = ["  [240101#02] [240102#01]", "  [[foo]] [240101#02]", "    240102#03 [#alpha] 240101#000", "  * [240102#0A5] 240101#02",
                 "  see [240101#02], [240102#01]."]
        lines = corpus + fixed + [gen_line(rng) for _ in range(n)]
        write_tree(d, {"lines.zo": "\n".join(lines) + "\n", "lines.zoq": "\n".join(lines) + "\n"})
        for i, line in enumerate(lines):
            for path in ("lines.zo", "lines.zoq"):
                ok = check_line(eng, d, path, i + 1, line, oc)
                if not ok:
                    eng.close()
                    return
            if len(eng.call("targets", False, line)) >= 2:
                oc.nontriv(line)
            if i < 4:
                oc.samples.append(line)
    eng.close()


def replay(path):
    payload = json.load(open(path))
    case = payload["case"]
    eng = lib.Engine()
    oc = lib.Outcome("C17")
    with Z.tmpdir("c17_") as d:
        write_tree(d, PAGES)
        Z.db_create(d)
        write_tree(d, {"single.zo": "\n".join(TARGETS) + "\n"})
        for i, t in enumerate(TARGETS):
            tt = t.strip("[]") if re.fullmatch(r"\[?\d{6}#\w{2,3}\]?", t) else t
            impl_single[tt] = list(impl_run(d, "single.zo", i + 1, None))
        write_tree(d, {case.get("file", "lines.zo"): case["line"] + "\n"})
        ok = check_line(eng, d, case.get("file", "lines.zo"), 1, case["line"], oc)
    print(json.dumps({"spec": oc.spec_fail[:2], "corr": oc.corr_mismatch[:2]}, indent=1, default=str)[:3000])
    eng.close()
    return 0 if ok else 1
