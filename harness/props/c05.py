"""C05 — after `db create` index and files agree; files change only to gain ZIDs.
Model: coq/Model/WriteBack.v (line rewriting, in-memory body) + coq/Model/Zid.v (allocation)."""
import datetime as dt
import glob
import json
import os
import random
import re

from harness import lib, pagegen, world as W
from harness.implrun import write_tree
from harness import zdir as Z

ASSUMPTIONS = [
    "all dates lie in 2000-2099 (a ZID carries two year digits; a long create date outside that century does not survive)",
    "compilation of the pages is the real compiler's (C01); the model covers allocation order, line rewriting and the in-memory body",
    "SQL storage is observed through the real repository (pages rebuilt from the rows), not modelled",
]
TODAY = dt.date(2024, 6, 1)


def gen_dir(rng, irregular=False):
    pagegen.MAX_YEAR = 2099          # a ZID carries two year digits: dates outside 2000-2099 are out of scope
    files = {}
    for name in rng.sample(["alpha.zo", "beta.zo", "sub/gamma.zo", "sub/deep/d.zo", "z.zo"], rng.randint(1, 4)):
        pg = pagegen.gen_page(rng, max_sections=3)
        text = pagegen.render(pg)
        # ZID-less items whose first body word looks like a relative date or another prefix-like word
        lines = text.split("\n")
        for i, l in enumerate(lines):
            m = re.match(r"([-ox~<>] (?:P\d )?)(plain|foo|Baz_1|x1) ", l)
            if m and rng.random() < 0.3:
                lines[i] = m.group(1) + rng.choice(["3d", "10m", "-2d", "1y", "7D", "o1", "x2", "20240301", "2024-W08", "2024-W09-5", "2024W081", "2024-3-1", "24-03-01"]) + " " + l[m.end():]
        # runs of two spaces INSIDE the first line of an item (not after its prefix): legal, kept verbatim everywhere
        for i, l in enumerate(lines):
            m = re.match(r"([-ox~<>] (?:P\d )?\S+ )(\S+ .*)", l)
            if m and rng.random() < 0.15:
                head, tail = m.group(1), m.group(2)
                lines[i] = head + tail.replace(" ", "  ", 1)
        # characters that str.splitlines() treats as line ends but that are NOT line ends of a page (U+2028 as pasted from a
        # browser - UTF-8 bytes here -, form feed, file separator) inside a word of an item: only "\n" ends a line
        if rng.random() < 0.35:
            cand = [i for i, l in enumerate(lines) if re.match(r"[-ox~<>] \S+ \S", l)]
            if cand:
                i = cand[0] if rng.random() < 0.7 else rng.choice(cand)
                head, tail = lines[i].rsplit(" ", 1)
                if re.fullmatch(r"[A-Za-z][A-Za-z0-9_]+", tail):      # an ordinary word: the page stays well-formed
                    lines[i] = head + " " + tail[:1] + rng.choice(["\xe2\x80\xa8", "\x0c", "\x1c", "\xe2\x80\xa9"]) + tail[1:]
        text = "\n".join(lines)
        if irregular:
            # irregular spacing after the prefix on some ZID-less items (known finding)
            lines = text.split("\n")
            for i, l in enumerate(lines):
                if re.match(r"[-ox~<>] (P\d )?[A-Za-z]", l) and rng.random() < 0.4:
                    lines[i] = l.replace(" ", "  ", 1)
            text = "\n".join(lines)
        files[name] = text
    return files


def expected_after_create(eng, d, files):
    """Model: allocate ZIDs page by page (sorted by file name), rewrite first lines."""
    from zorg.service.compiler import walk_zorg_page
    before = W.compile_dir(d, TODAY)
    order = sorted(files, key=lambda p: os.path.basename(p))
    store = []
    out = {}
    for p in order:
        notes = [n for n in before if n["page"] == p]
        todo = [n for n in notes if n["zid"] is None]
        keys = [dt.date.fromisoformat(n["create"]).strftime("%Y%m%d")[2:] for n in todo]
        r = eng.call("zid_hist", store, keys)
        zids, store = r[0], r[1]
        if todo:
            m = eng.call("update_zo", "zid", [[n["line"], z] for n, z in zip(todo, zids)], files[p])
            out[p] = m
        else:
            out[p] = ["ok", files[p]]
        for n, z in zip(todo, zids):
            n["_newzid"] = z
    return out, store, before


def check_dir(eng, rng, files, oc, irregular):
    with Z.tmpdir("c05_") as d:
        from freezegun import freeze_time
        write_tree(d, files)
        exp_files, exp_store, before = expected_after_create(eng, d, files)
        with freeze_time(dt.datetime(2024, 6, 1, 12)):
            try:
                Z.db_create(d)
            except Exception as e:  # noqa: BLE001
                # the pages are well-formed (the real compiler accepted every one of them just above): db create must index them
                oc.evaluations += 1
                oc.spec_fail.append(({"files": files}, "db create raised %s: %s" % (type(e).__name__, str(e)[:300]),
                                     "db create succeeds on a directory of well-formed pages", None))
                return False
        after = W.user_files(d)
        st = W.stores(d)
        oc.evaluations += 1
        case = {"files": files}
        ok = True
        # ---- correspondence: file bytes and next_ids
        for p in files:
            m = exp_files[p]
            if m[0] != "ok" or m[1] != after.get(p):
                oc.corr_mismatch.append(("db create write-back", dict(case, page=p), after.get(p), m))
                ok = False
                break
        model_ids = {k: v for k, v in exp_store}
        if ok and (st["next_ids"] or {}) != model_ids:
            oc.corr_mismatch.append(("next_ids.json", case, st["next_ids"], model_ids))
            ok = False
        # ---- spec on the implementation
        probs = []
        irr = lambda l: bool(re.match(r" *[-ox~<>](  | P\d  )", l))            # the known class: irregular spacing after the prefix
        orig_line = lambda page, line: (files.get(page, "").split("\n") + [""] * (line + 1))[line - 1]
        known_lines = set()        # problems explained by the known finding (by page and line)
        recompiled = W.compile_dir(d, TODAY)
        indexed = W.dump_index(d)
        if any(n["zid"] is None for n in recompiled):
            probs.append("a note of a page carries no ZID after db create")
        a, b = W.key_notes(recompiled), W.key_notes(indexed)
        if a != b:
            diff = None
            explained = len(a) == len(b)
            for x, y in zip(a, b):
                if x != y:
                    if diff is None:
                        diff = {k: [x[k], y[k]] for k in x if x[k] != y[k]}
                    if not irr(orig_line(x["page"], x["line"])):
                        diff = {k: [x[k], y[k]] for k in x if x[k] != y[k]}
                        explained = False
                        break
            msg = "recompiled files differ from the indexed notes: %s (counts %d/%d)" % (diff, len(a), len(b))
            probs.append(msg)
            if explained:
                known_lines.add(msg)
        # files differ only in first lines of notes that lacked a ZID
        for p, old in files.items():
            ol, nl = old.split("\n"), after[p].split("\n")
            if len(ol) != len(nl):
                probs.append("%s: number of lines changed" % p)
                continue
            lacking = {n["line"] for n in before if n["page"] == p and n["zid"] is None}
            for i, (x, y) in enumerate(zip(ol, nl)):
                if x != y:
                    m = re.fullmatch(r"( *[-ox~<>] (?:P\d )?)(.*)", x, re.S)
                    if i + 1 not in lacking or not m:
                        probs.append("%s line %d changed although it is not the first line of a ZID-less note" % (p, i + 1))
                        break
                    rest = m.group(2)
                    rest2 = re.sub(r"^\d{4}-\d\d-\d\d ", "", rest)
                    if not re.fullmatch(re.escape(m.group(1)) + r"\d{6}#\w{2,3} " + re.escape(rest2), y, re.S):
                        msg = "%s line %d: %r -> %r is not 'prefix + ZID + rest'" % (p, i + 1, x, y)
                        probs.append(msg)
                        if irr(x):
                            known_lines.add(msg)
                            continue
                        break
        # running create / reindex again changes nothing
        with freeze_time(dt.datetime(2024, 6, 1, 12)):
            Z.db_reindex(d)
            f2, i2 = W.user_files(d), W.key_notes(W.dump_index(d))
            Z.db_create(d)
            f3, i3 = W.user_files(d), W.key_notes(W.dump_index(d))
        if f2 != after or f3 != after:
            probs.append("a second db create / db reindex changed a file")
        if i2 != b or i3 != b:
            probs.append("a second db create / db reindex changed an indexed note")
        if probs:
            trig = None
            any_irr = any(irr(l) for t in files.values() for l in t.split("\n"))
            # the "second run changes something" problems are consequences; every other problem must be explained by a
            # line with irregular spacing after its prefix
            direct = [m for m in probs if not m.startswith("a second db create")]
            if any_irr and all(m in known_lines for m in direct):
                trig = "irregular_spacing"
            probs.sort(key=lambda m: (m in known_lines, m.startswith("a second db create")))
            oc.spec_fail.append((case, probs[:3], "C05", trig))
            if trig:
                oc.known_hit[trig] = probs[0][:200]
                oc.count("known_irregular_spacing")
            else:
                ok = False
        return ok


def witness(oc):
    from freezegun import freeze_time
    with Z.tmpdir("c05w_") as d:
        write_tree(d, {"w.zo": "# w\n\no  P1   foo\n"})
        with freeze_time(dt.datetime(2024, 6, 1, 12)):
            Z.db_create(d)
        rec, idx = W.key_notes(W.compile_dir(d, TODAY)), W.key_notes(W.dump_index(d))
        oc.evaluations += 1
        if rec != idx:
            oc.known_hit["irregular_spacing"] = "file body %r vs index body %r" % (rec[0]["body"], idx[0]["body"])
    # an edited note that has no ZID yet: the ZID is written in FRONT of its modify date
    with Z.tmpdir("c05w_") as d:
        write_tree(d, {"w.zo": "# w\n\no 240203 foo bar\n"})
        with freeze_time(dt.datetime(2024, 6, 1, 12)):
            Z.db_create(d)
        rec, idx = W.key_notes(W.compile_dir(d, TODAY)), W.key_notes(W.dump_index(d))
        oc.evaluations += 1
        if rec != idx and rec[0]["modify"] != idx[0]["modify"]:
            oc.known_hit["modify_date_without_zid"] = "line %r: modify date in the index %s, in the recompiled file %s" % (
                W.user_files(d)["w.zo"].split("\n")[2], idx[0]["modify"], rec[0]["modify"])


def run(oc, tier, seed):
    rng = random.Random(seed)
    eng = lib.Engine()
    witness(oc)
    n = 12 if tier == "quick" else 250
    oc.rule = ("directories of 1-4 generated well-formed pages (sub-directories, sections, items with and without ZIDs, long "
               "create dates, multi-line items; a separate stream with irregular spacing after the prefix); `db create`, then "
               "`db reindex`, then `db create` again; compared: every file byte-for-byte and next_ids.json with the model "
               "(allocation order + line rewriting), and on the implementation alone: every note has a ZID, recompiled notes "
               "= indexed notes on all fields incl. section path and block, files differ only by 'prefix + ZID + rest' on "
               "first lines of ZID-less notes, repeated runs change nothing; non-trivial = directory with >= 3 new notes")
    # in every run: characters that str.splitlines() takes for line ends, ABOVE notes that still need their ZIDs
    check_dir(eng, rng, {"sep.zo": "# sep\n\n- pasted\xe2\x80\xa8 text above\n- form\x0cfeed and file\x1cseparator\n"
                                   "- a second note without zid\no P1 third\n  * bullet of third\n- fourth\n\n",
                         "sub/plain.zo": "# plain\n\n- only note\n\n"}, oc, False)
    # in every run: more than 40 new notes of one creation date (the suffix chain passes the excluded letters I O Q S g i j l)
    check_dir(eng, rng, {"many.zo": "# many\n\n" + "".join("- new note number %d\n" % k for k in range(30)) + "\n",
                         "sub/more.zo": "# more\n\n" + "".join("o P%d another %d\n" % (k % 10, k) for k in range(18)) + "\n"}, oc, False)
    search = 10
    for i in range(n + 10):
        if i >= n and not oc.corr_mismatch:
            break
        irregular = i % 6 == 5
        files = gen_dir(rng, irregular)
        ok = check_dir(eng, rng, files, oc, irregular)
        if sum(len(re.findall(r"^[-ox~<>] ", t, re.M)) for t in files.values()) >= 3:
            oc.nontriv(sorted(files.items()))
        if len(oc.samples) < 2:
            oc.samples.append({k: v[:300] for k, v in files.items()})
        if not ok:
            # a spec failure is the replay; after a mere model/implementation difference keep looking (bounded)
            # for a directory on which the property itself fails
            if any(f[3] is None for f in oc.spec_fail):
                break
            search -= 1
            if search <= 0:
                break
    # the tie of the page-level theorem (C05_zids_written_into_page) to the real `db create`
    if not any(f[3] is None for f in oc.spec_fail):
        from harness import pagewb
        pagewb.run_zid(eng, random.Random(seed + 5), oc, 15 if tier == "quick" else 250)
        oc.rule += ("; PAGE theorem tie: directories of abstract pages, `db create`: page_text = the text fed to the parser, "
                    "changed lines = lines of ZID-less items, rewritten file = page_text (zidded zf pg) with zf read off the "
                    "index, whenever zid_readyb holds")
    eng.close()


def replay(path):
    payload = json.load(open(path))
    eng = lib.Engine()
    oc = lib.Outcome("C05")
    ok = check_dir(eng, random.Random(1), payload["case"]["files"], oc, False)
    print(json.dumps({"spec": oc.spec_fail[:1], "corr": [(c[0], c[2], c[3]) for c in oc.corr_mismatch[:1]]}, indent=1, default=str)[:4000])
    eng.close()
    return 0 if ok else 1
