"""C04 — query text compiles to the structure it denotes.
Model: coq/Model/QueryListener.v (listener on the exported ANTLR tree)."""
import datetime as dt
import glob
import itertools
import json
import os
import random

from harness import lib, querygen, qc

ASSUMPTIONS = [
    "the ANTLR query lexer/parser is not modelled: the listener model runs on the parse tree exported from the real parser",
    "well-formed = the real parser reports no syntax error and consumes the whole string",
]
TODAYS = [(2024, 1, 31), (2024, 2, 29), (2023, 2, 28), (2024, 12, 31), (2024, 6, 1), (2025, 3, 30), (2000, 1, 1)]


def check_query(eng, q, today, exp, oc):
    t = dt.date(*today)
    res = qc.compile_query(q, t, True)
    oc.evaluations += 1
    ok = True
    if res["tree"] is not None:
        m = eng.call("qlisten", list(today), res["tree"])
        if m[0] == "ok":
            model = ("ok", qc.model_query(m[1]))
        elif m[0] == "exn":
            model = (m[1], None)
        else:
            model = (m[0], None)
        impl = (res["status"], res["query"])
        if model[0] == "oom":
            oc.count("out_of_model")
        elif model != impl:
            diff = None
            if model[1] and impl[1]:
                diff = {k: [impl[1][k], model[1][k]] for k in impl[1] if impl[1][k] != model[1][k]}
            oc.corr_mismatch.append(("query listener", {"q": q, "today": today}, {"status": impl[0], "diff[impl,model]": diff},
                                     {"status": model[0]}))
            ok = False
    wf = res["nerrors"] == 0 and res["consumed"]
    if exp is None:
        return ok
    if not wf:
        oc.count("generated_query_not_wellformed")
        return ok
    if res["status"] != "ok" or res["query"] != exp:
        diff = None
        if res["query"]:
            diff = {k: [exp[k], res["query"][k]] for k in exp if exp[k] != res["query"][k]}
        oc.spec_fail.append(({"q": q, "today": today}, {"status": res["status"], "site": res.get("site"), "diff[expected,got]": diff},
                             "the structure the text spells", None))
        ok = False
    return ok


def base_exp(where):
    return {"select": "NOTE", "where": where, "order": list(querygen.DEFAULT_ORDER), "group": []}


def exhaustive_cases():
    out = []
    # 64 priority spellings
    for a in range(10):
        af = querygen.empty_af(); af["prios"] = {"P%d" % a}
        out.append(("W P%d" % a, base_exp([querygen.canon_af(af)])))
        for b in range(max(a, 1), 10):
            af = querygen.empty_af(); af["prios"] = {"P%d" % i for i in range(a, b + 1)}
            out.append(("W P%d-%d" % (a, b), base_exp([querygen.canon_af(af)])))
    # all 63 non-empty kind sets as one atom (o and x never adjacent)
    chars = "-ox~<>"
    for n in range(1, 7):
        for sub in itertools.combinations(chars, n):
            s = list(sub)
            if "o" in s and "x" in s:
                rest = [c for c in s if c not in "ox"]
                if not rest:
                    continue          # "ox" / "xo" is an identifier, not in the language
                s = ["o"] + rest + ["x"]
            af = querygen.empty_af(); af["kinds"] = set(sub)
            out.append(("W " + "".join(s), base_exp([querygen.canon_af(af)])))
    # order / group lists, both clause orders
    for os_ in itertools.product(querygen.ORDERS, repeat=2):
        for gs in [(), ("file",), ("#", "section"), ("type", "priority", "@", "+")]:
            o = "O " + " ".join(os_)
            g = ("G " + " ".join(gs)) if gs else ""
            af = querygen.empty_af(); af["kinds"] = {"o"}
            e = {"select": "NOTE", "where": [querygen.canon_af(af)], "order": [querygen.ORDERS[k] for k in os_],
                 "group": [querygen.GROUPS[k] for k in gs]}
            out.append((" ".join(x for x in ["W o", o, g] if x), e))
            out.append((" ".join(x for x in ["W o", g, o] if x), e))
    return out


def run(oc, tier, seed):
    rng = random.Random(seed)
    eng = lib.Engine()
    n = 1500 if tier == "quick" else 40000
    oc.rule = ("(a) exhaustive: the 64 priority spellings, all non-empty kind-character sets as one atom, all ordered pairs of "
               "ORDER BY keys x 4 GROUP BY lists in both clause orders; (b) random query structures: every select form, filter "
               "trees of depth <= 3 with every atom kind, negation, all operators and value types, short/relative dates "
               "(d/m/y, negative) on 7 'today's incl. month ends and Feb 28/29, both O/G orders; compared with the denoted "
               "structure (spec) and with the listener model on the exported tree; (c) _process_query normalisation; (d) abstract "
               "queries of the query theorem: well-formed, tree_of_query == the ANTLR tree, spec_query == the compiled Query; "
               "non-trivial = query with a sub-filter or >= 2 alternatives")
    for f in sorted(glob.glob(os.path.join(lib.VERIF, "corpus", "C04", "*.json"))):
        c = json.load(open(f))
        r = qc.compile_query(c["q"], dt.date(2024, 6, 1), False)
        oc.evaluations += 1
        if c.get("expect_status") and r["status"] != c["expect_status"]:
            oc.spec_fail.append((c, {"status": r["status"], "site": r.get("site")}, c["expect_status"], None))
    for q, exp in exhaustive_cases():
        if not check_query(eng, q, (2024, 6, 1), exp, oc):
            eng.close()
            return
    oc.count("exhaustive_cases", len(exhaustive_cases()))
    for i in range(n):
        today = rng.choice(TODAYS)
        q, exp = querygen.gen_query(rng, dt.date(*today))
        ok = check_query(eng, q, today, exp, oc)
        if "(" in q or " | " in q:
            oc.nontriv(q)
        if i < 3:
            oc.samples.append(q)
        if not ok:
            break
    # the domain of the query theorem: well-formedness, parse tree and compiled structure on abstract queries
    if not any(f[3] is None for f in oc.spec_fail) and not oc.corr_mismatch:
        from harness import querytie
        querytie.run(eng, rng, oc, 250 if tier == "quick" else 8000, TODAYS)
    # CLI normalisation
    from zorg.app.config import _process_query
    for q in ["o", "S note W o", "W o", "S file", "S # W o", "W o G none", "S note", "S prop:k W x O create", "@home P1", "S count(note) W o",
              "W o O alpha", "Snote"] + [querygen.gen_query(rng, dt.date(2024, 6, 1))[0] for _ in range(60)]:
        for v in (q, q[2:] if q.startswith("W ") else q):
            kw = {"command": "query", "query": v}
            _process_query(kw)
            m = eng.call("process_query", v)
            oc.evaluations += 1
            if kw["query"] != m:
                oc.corr_mismatch.append(("_process_query", {"q": v}, kw["query"], m))
    eng.close()


def replay(path):
    payload = json.load(open(path))
    case = payload["case"]
    eng = lib.Engine()
    oc = lib.Outcome("C04")
    ok = check_query(eng, case["q"], tuple(case.get("today", (2024, 6, 1))), None, oc)
    r = qc.compile_query(case["q"], dt.date(*case.get("today", (2024, 6, 1))), False)
    print(json.dumps({"q": case["q"], "impl": r, "corr": oc.corr_mismatch[:1]}, indent=1, default=str)[:3000])
    eng.close()
    return 0 if ok else 1
