"""C15 — saved-query references.  Model: coq/Model/SavedQ.v (text-level expansion);
the semantic clause is checked on the implementation: the referencing query must
select exactly the notes of the explicit conjunction."""
import glob
import json
import os
import random

from harness import lib
from harness.implrun import quiet, write_tree
from harness import zdir as Z

ASSUMPTIONS = [
    "the order in which Python iterates the set of referenced names is immaterial because spliced clauses contain no braces (else OutOfModel)",
    "the semantic clause relies on the query compiler and SQL layer (C04/C03) as they are: both sides of the comparison go through them",
]

PAGES = {
    "home.zo": "# home page @home\n\n- 240101#00 plain note #work\no P1 240101#01 open todo +proj due::2024-05-01\nx 240101#02 done todo #work\n"
               "~ P4 240101#03 cancelled thing foo\n< 240101#04 blocked +proj\n> P0 240101#05 parent #work foo\n",
    "work.zo": "# work page #work\n\n- 240102#00 note about foo\no P3 240102#01 open work todo %bob\nx P2 240102#02 done work todo +proj\n"
               "o P0 240102#03 urgent @home due::2024-01-01\n- 240102#04 bar baz\n",
    "misc.zo": "# misc\n\no 240103#00 lonely todo\n- 240103#01 lonely note +proj foo\nx 240103#02 lonely done %bob @home\n"
               "- 240103#03 call Greg about the Open Issues #work\no 240103#04 write Order form +proj\n- 240103#05 Greg and Olga @home\n",
}
ATOMS = ["o", "x", "-", "~", "@home", "#work", "+proj", "%bob", "P0", "P0-2", "P3-9", "'foo'", "due:*", "!@home", "!#work",
         "!due:*", "(o | x)", "(- | @home)", "f=work", "!'foo'",
         # multi-word quoted text whose words start with the clause-marker letters
         "'call Greg'", '"write Order"', "'the Open Issues'", "!'Greg and Olga'", "'Greg'"]


def gen_clause(rng, names, depth):
    """One WHERE clause (list of and-groups joined by ' | ')."""
    groups = []
    for _ in range(rng.choice([1, 1, 1, 2, 3])):
        atoms = [rng.choice(ATOMS) for _ in range(rng.randint(1, 3))]
        if names and rng.random() < 0.5:
            atoms.insert(rng.randint(0, len(atoms)), "{%s}" % rng.choice(names))
        groups.append(" ".join(atoms))
    return " | ".join(groups)


TAG_ATOMS = ["@home", "#work", "+proj", "%bob", "'foo'", "due:*", "!@home", "!#work", "!due:*", "f=work", "!'foo'", "'call Greg'",
             "'the Open Issues'"]


def gen_diamond(rng):
    """A shared building block with alternatives reached through two separate references (kind/priority-free, so
    the known pooling of an unparenthesised splice cannot interfere)."""
    a = lambda: rng.choice(TAG_ATOMS)
    saved = {"alt": "# W %s | %s\n" % (a(), " ".join(a() for _ in range(rng.randint(1, 2)))),
             "left": "# W %s\n" % rng.choice(["%s {alt}" % a(), "{alt} %s" % a(), "{alt}"]),
             "right": "# S note W %s %s\n" % (rng.choice(["%s {alt}" % a(), "{alt} %s" % a()]), rng.choice(["O priority", "G file O priority"])),
             "top": "# W {left} {right}\n"}
    body = rng.choice(["{left} {right}", "{right} {left}", "{top}", "{alt} {left}", "%s {left} {right}" % a(), "{top} %s" % a()])
    return {"saved": saved, "q": "S note W %s O none G none" % body}


def gen_case(rng):
    if rng.random() < 0.15:
        return gen_diamond(rng)
    n = rng.randint(1, 4)
    names = rng.sample(["q", "todo", "work/open", "a", "b_1", "deep", "proj", "proj.done", "v1.2"], n)
    saved = {}
    for i, nm in enumerate(names):
        later = names[i + 1:]
        clause = gen_clause(rng, later, 0)
        sel = rng.choice(["", "S note ", "S count(note) "])
        # both clause orders the grammar allows: O before G and G before O
        tail = rng.choice(["", " O priority", " G file", " O create G none", " G priority file", " G file O priority", " G none O alpha create"])
        saved[nm] = "# %sW %s%s\n#\n# SAVED QUERY\n" % (sel, clause, tail)
    surround = " ".join(rng.choice(ATOMS) for _ in range(rng.randint(0, 2)))
    ref = rng.choice(names)
    missing = rng.random() < 0.08
    if missing:
        ref = rng.choice(["nope", "proj.todo", "q.x"])
    pos = rng.random()
    body = ("%s {%s}" % (surround, ref)).strip() if pos < 0.6 else ("{%s} %s" % (ref, surround)).strip()
    if rng.random() < 0.15 and len(names) > 1:
        body += " {%s}" % rng.choice(names)
    q = "S note W %s O none G none" % body
    return {"saved": saved, "q": q}


def spec_where(saved, name, seen=()):
    """The property's reading: the WHERE clause of the saved query, references
    replaced recursively by parenthesised clauses.  None if a reference is missing."""
    if name not in saved or name in seen:
        return None
    line = saved[name].split("\n")[0][2:]
    ws, inw = [], False
    for w in line.split(" "):
        if w == "W":
            inw = True
        elif w in ("O", "G"):
            inw = False
        elif inw:
            ws.append(w)
    out = []
    for w in ws:
        if w.startswith("{") and w.endswith("}"):
            sub = spec_where(saved, w[1:-1], seen + (name,))
            if sub is None:
                return None
            out.append("(%s)" % sub)
        else:
            out.append(w)
    return " ".join(out)


def spec_query(case):
    import re
    q = case["q"]
    for nm in set(re.findall(r"\{(.*?)\}", q)):
        sub = spec_where(case["saved"], nm)
        if sub is None:
            return None
        q = q.replace("{%s}" % nm, "(%s)" % sub)
    return q


def pooled(q):
    """Signature of the and-groups (per nesting level, between '|'): sorted non-zero counts of
    note-type atoms and of priority atoms.  Splicing without parentheses merges groups, which
    changes this signature exactly when atoms of the same class meet."""
    import re
    body = q.split(" W ", 1)[1] if " W " in q else q
    body = re.split(r" [OG] ", body)[0]
    toks = body.replace("(", " ( ").replace(")", " ) ").split()
    kinds, prios, stack = [], [], [[0, 0]]

    def close(g):
        if g[0]:
            kinds.append(g[0])
        if g[1]:
            prios.append(g[1])
    for t in toks:
        if t == "(":
            stack.append([0, 0])
        elif t == ")":
            close(stack.pop())
            if not stack:
                stack.append([0, 0])
        elif t == "|":
            close(stack[-1])
            stack[-1] = [0, 0]
        elif re.fullmatch(r"[-ox~<>]+", t):
            stack[-1][0] += 1
        elif re.fullmatch(r"P\d(-\d)?", t):
            stack[-1][1] += 1
    while stack:
        close(stack.pop())
    return (sorted(kinds), sorted(prios))


def check_case(eng, d, case, oc):
    from zorg.service.swog._saved_queries import expand_saved_queries
    from pathlib import Path
    zoq = os.path.join(d, "zoq")
    import shutil
    shutil.rmtree(zoq, ignore_errors=True)
    write_tree(d, {"zoq/%s.zoq" % k: v for k, v in case["saved"].items()})
    with quiet():
        impl = expand_saved_queries(Path(d), case["q"])
    oc.evaluations += 1
    model = eng.call("expand_saved", len(case["saved"]) + 2, [[k, v] for k, v in case["saved"].items()], case["q"])
    impl_r = ["ok", impl] if impl is not None else ["exn", "missing"]
    ok = True
    if model[0] == "oom":
        oc.count("out_of_model")
    elif impl_r != model:
        oc.corr_mismatch.append(("expand_saved_queries", case, impl_r, model))
        ok = False
    # Spec: missing reference => error; otherwise same notes as the explicit conjunction
    sq = spec_query(case)
    if sq is None:
        oc.count("missing_ref")
        if impl is not None:
            oc.spec_fail.append((case, {"expanded": impl}, "a reference to a missing saved query must be an error", None))
            ok = False
        else:
            try:
                Z.execute(d, case["q"])
                oc.spec_fail.append((case, "query executed", "RuntimeError", None))
                ok = False
            except RuntimeError:
                pass
        return ok
    if impl is None:
        oc.spec_fail.append((case, None, {"explicit": sq}, None))
        return False
    try:
        got = sorted(Z.execute(d, case["q"]).split("\n"))
        want = sorted(Z.execute(d, sq).split("\n"))
    except Exception as e:  # noqa: BLE001
        oc.count("exec_exception_" + type(e).__name__)
        return ok
    oc.count("notes_%d" % min(len([g for g in got if g]), 9))
    # a known finding explains a failure only when the expansion is the one the modelled (unchanged) code produces
    trig = "pooled_kinds_or_priorities" if (pooled(impl) != pooled(sq) and (model[0] == "oom" or impl_r == model)) else None
    if trig:
        oc.count("known_class_pooled")
    if got != want:
        oc.spec_fail.append((case, {"expanded": impl, "notes": got}, {"explicit": sq, "notes": want}, trig))
        if trig:
            oc.known_hit[trig] = "%s -> %s" % (case["q"], impl)
        else:
            ok = False
    return ok


def check_edit_sequence(eng, d, oc):
    """One process, one directory: {outer} refers to {inner}; inner is edited, then deleted, while outer's page is not
    touched. Every expansion must read the saved queries as they are NOW."""
    from zorg.service.swog._saved_queries import expand_saved_queries
    from pathlib import Path
    import shutil
    shutil.rmtree(os.path.join(d, "zoq"), ignore_errors=True)
    steps = [{"inner": "# W @home\n", "outer": "# S note W +proj {inner} O alpha G none\n"},
             {"inner": "# W @work | -\n"},
             {"inner": None}]
    saved = {}
    q = "W {outer} G none"
    for k, change in enumerate(steps):
        for name, text in change.items():
            path = os.path.join(d, "zoq", name + ".zoq")
            if text is None:
                os.remove(path)
                saved.pop(name)
            else:
                write_tree(d, {"zoq/%s.zoq" % name: text})
                saved[name] = text
        with quiet():
            impl = expand_saved_queries(Path(d), q)
        oc.evaluations += 1
        model = eng.call("expand_saved", len(saved) + 2, [[a, b] for a, b in saved.items()], q)
        impl_r = ["ok", impl] if impl is not None else ["exn", "missing"]
        if model[0] != "oom" and impl_r != model:
            oc.spec_fail.append(({"saved_now": dict(saved), "q": q, "step": k, "history": "outer untouched; inner written, rewritten, deleted"},
                                 {"expanded": impl}, {"the_saved_queries_as_they_are_now_give": model}, None))
            return False
    return True


def run(oc, tier, seed):
    rng = random.Random(seed)
    eng = lib.Engine()
    n = 150 if tier == "quick" else 3000
    oc.rule = ("acyclic sets of 1-4 saved queries (S/O/G clauses, alternatives, nested references, names with '/'), a "
               "referencing query with 0-2 surrounding atoms; (1) expansion text vs the model; (2) on an index of 14 notes, the "
               "referencing query must select the same notes as the explicit parenthesised conjunction; missing references "
               "must raise; non-trivial = the expansion involves a clause with '|' or a nested reference")
    with Z.tmpdir("c15_") as d:
        write_tree(d, PAGES)
        Z.db_create(d)
        for f in sorted(glob.glob(os.path.join(lib.VERIF, "corpus", "C15", "*.json"))):
            check_case(eng, d, json.load(open(f)), oc)
        search = 200
        check_edit_sequence(eng, d, oc)
        for i in range(n + 200):
            if i >= n and not oc.corr_mismatch:
                break
            if i == n // 2 and not any(f[3] is None for f in oc.spec_fail):
                check_edit_sequence(eng, d, oc)          # again, after many other expansions in the same process
            case = gen_case(rng)
            ok = check_case(eng, d, case, oc)
            if any("|" in v.split("\n")[0] or "{" in v for v in case["saved"].values()):
                oc.nontriv(case)
            if i < 3:
                oc.samples.append(case)
            if not ok:
                # a spec failure is the replay; after a mere model/implementation difference keep searching
                # (bounded) for a query on which the property itself fails
                if any(f[3] is None for f in oc.spec_fail):
                    break
                search -= 1
                if search <= 0:
                    break
    eng.close()


def replay(path):
    payload = json.load(open(path))
    eng = lib.Engine()
    oc = lib.Outcome("C15")
    with Z.tmpdir("c15_") as d:
        write_tree(d, PAGES)
        Z.db_create(d)
        ok = check_case(eng, d, payload["case"], oc)
    print(json.dumps({"spec": oc.spec_fail[:1], "corr": oc.corr_mismatch[:1]}, indent=1, default=str)[:3000])
    eng.close()
    return 0 if ok else 1
