"""C06 — incremental reindexing == rebuilding.  Model: coq/Model/World.v (abstract world machine)."""
import datetime as dt
import glob
import json
import os
import random
import re
import shutil

from harness import lib, world as W
from harness.implrun import write_tree, read_tree
from harness import zdir as Z

ASSUMPTIONS = [
    "pages are abstracted to (version of the non-note text, notes = (ZID?, body revision, modify day)); compilation, SHA-256 "
    "(identity on contents) and SQL storage are abstracted away; the correspondence compares, per page and after every step, "
    "whether the file exists, whether its stored hash is current, whether the indexed page equals a fresh compilation, and "
    "the number of notes without ZID",
    "write-back handlers never raise (an exception in an event handler is swallowed by the message bus)",
]
DAY0 = dt.date(2024, 6, 1)


def page_name(k):
    return ["p%d.zo" % k, "sub/p%d.zo" % k][k % 2]


NOTE = re.compile(r"^- (?:\d{6} )?(?:\d{6}#\w{2,3} )?note\d+ r(\d+)$")


def note_line(serial, rich=True):
    serial[0] += 1
    n = serial[0]
    tags = (" %%u%d" % n if n % 2 else "") + (" #shared" if n % 3 == 0 else "") + (" +solo%d" % n if n % 5 == 0 else "")
    # properties and page links (rows in their own SQL tables, removed and re-added with the note)
    if rich:      # only on pages with an even number: the others stay free of properties
        tags += (" k::%d" % n if n % 3 == 1 else "") + (" [[target]] [[l%d]]" % (n % 4) if n % 2 == 0 else "")
    # every fourth note has a bullet line (with a double space) under its first line
    more = "\n  * bullet  of note%d" % n if n % 4 == 1 else ""
    return "- note%d%s r1" % (n, tags) + more


def page_text(k, n_notes, serial):
    # the title carries a tag that changes with every header edit, so that a header edit is visible in the
    # notes of the page (they inherit it) and hence in the index-vs-files observation
    lines = ["# page %d #hv0" % k, ""]
    for _ in range(n_notes):
        lines.append(note_line(serial, k % 2 == 0))
    return "\n".join(lines) + "\n\n"


def note_lines(text):
    return [i for i, l in enumerate(text.split("\n")) if l.startswith("- ")]


def span(lines, i):
    """number of lines of the note whose first line is lines[i]"""
    n = 1
    while i + n < len(lines) and lines[i + n].startswith("  "):
        n += 1
    return n


def apply_real(d, op, serial, day):
    tag = op[0]
    if tag in ("editnote", "delnote", "addnote", "header"):
        p = os.path.join(d, page_name(op[1]))
        if not os.path.exists(p):
            return
        lines = open(p).read().split("\n")
        idx = [i for i, l in enumerate(lines) if l.startswith("- ")]
        if tag == "editnote" and op[2] < len(idx):
            i = idx[op[2]]
            m = re.search(r" r(\d+)$", lines[i])
            lines[i] = lines[i][:m.start()] + " r%d" % (int(m.group(1)) + 1)
        elif tag == "delnote" and op[2] < len(idx):
            i = idx[op[2]]
            del lines[i:i + span(lines, i)]
        elif tag == "addnote":
            pos = (idx[-1] + span(lines, idx[-1])) if idx else 2
            lines[pos:pos] = note_line(serial, op[1] % 2 == 0).split("\n")
        elif tag == "header":
            m = re.search(r" #hv(\d+)$", lines[0])
            lines[0] = lines[0][:m.start()] + " #hv%d" % (int(m.group(1)) + 1)
        open(p, "w").write("\n".join(lines))
    elif tag == "newpage":
        write_tree(d, {page_name(op[1]): page_text(op[1], op[2], serial)})
    elif tag == "delete":
        p = os.path.join(d, page_name(op[1]))
        if os.path.exists(p):
            os.unlink(p)
    elif tag == "rename":
        p, q = os.path.join(d, page_name(op[1])), os.path.join(d, page_name(op[2]))
        if os.path.exists(p):
            os.makedirs(os.path.dirname(q), exist_ok=True)
            os.rename(p, q)


def observe_real(d, day, ks):
    st = W.stores(d)
    hashes = st["hashes"] or {}
    files = W.user_files(d)
    idx = W.dump_index(d)
    comp = W.compile_dir(d, day)
    out = []
    for k in ks:
        name = page_name(k)
        ex = name in files
        if name not in hashes:
            h = "none"
        elif ex and hashes[name] == W.sha(files[name]):
            h = "cur"
        else:
            h = "stale"
        dbn = W.key_notes([n for n in idx if n["page"] == name])
        inpages = name in indexed_pages(d)
        if not inpages:
            dbs = "none"
        elif ex:
            cn = W.key_notes([n for n in comp if n["page"] == name])
            dbs = "sync" if cn == dbn and all(n["zid"] for n in cn) else "stale"
        else:
            dbs = "stale"
        nz = len([n for n in comp if n["page"] == name and not n["zid"]]) if ex else 0
        out.append([str(k), "t" if ex else "f", h, dbs, str(nz)])
    return out


def indexed_pages(d):
    import sqlite3
    con = sqlite3.connect(os.path.join(d, ".zorg", "zorg.db"))
    try:
        return {r[0] for r in con.execute("select path from page")}
    finally:
        con.close()


FORCE = set()      # tails that the next generated history must contain (set by run for the first histories)


def gen_history(rng, allow_unclean):
    npages = rng.randint(2, 3)
    init = [[k, rng.randint(1, 3)] for k in range(1, npages + 1)]
    ops = [["create"]]
    live = set(range(1, npages + 1))
    nxt = npages + 1
    for _ in range(rng.randint(4, 8)):
        r = rng.random()
        p = rng.choice(sorted(live)) if live else None
        if r < 0.25 and p:
            ops.append(["editnote", p, rng.randint(0, 2)])
        elif r < 0.38 and p:
            ops.append(["addnote", p])
        elif r < 0.45 and p:
            ops.append(["delnote", p, rng.randint(0, 2)])
        elif r < 0.52 and p:
            ops.append(["header", p])
        elif r < 0.60:
            ops.append(["newpage", nxt, rng.randint(1, 2)]); live.add(nxt); nxt += 1
        elif r < 0.70:
            ops.append(["nextday"])
        elif r < 0.90:
            if allow_unclean and rng.random() < 0.4 and p:
                ops.append(["reindex", [[p]]])
            else:
                ops.append(["reindex", None])
        elif allow_unclean and p and rng.random() < 0.5:
            ops.append(["delete", p]); live.discard(p)
        elif allow_unclean and p:
            ops.append(["rename", p, nxt]); live.discard(p); live.add(nxt); nxt += 1
        else:
            ops.append(["nextday"])
    # at most ONE special tail per history (the abstract machine's cost grows fast with the number of index commands)
    if FORCE:
        tail = sorted(FORCE)[0]
    else:
        r = rng.random()
        tail = "rows" if r < 0.2 else "empty" if r < 0.35 else "twice" if r < 0.6 else "explicit" if r < 0.85 else None
    if tail and len([o for o in ops if o[0] == "reindex"]) > 2:
        ops[:] = ops[:1] + [o for o in ops[1:] if o[0] != "reindex"][:8]       # keep the history short before a tail
    if tail == "rows" and len(live) >= 2:
        # the page indexed last loses all its notes (the highest row ids become free), then another page gains notes
        last = max(live)
        ops += [["reindex", None]] + [["delnote", last, 0] for _ in range(4)] + [["reindex", None], ["addnote", min(live)],
                                                                                 ["addnote", min(live)], ["reindex", None]]
    elif tail == "empty" and live:
        # a page is indexed while it holds no note at all, then gets notes again and is edited twice
        e = max(live)
        ops += [["reindex", None]] + [["delnote", e, 0] for _ in range(5)] + [["reindex", None], ["addnote", e], ["addnote", e], ["reindex", None],
                                                                               ["nextday"], ["editnote", e, 0], ["reindex", None], ["editnote", e, 1], ["reindex", None]]
    elif tail == "twice" and 1 in live:
        # the same note edited on two later days (first stamp inserts the date, the second replaces it)
        j = 0 if FORCE else rng.randint(0, 1)      # note 0 of page 1 is the multi-line one (a bullet line under it)
        ops += [["reindex", None], ["nextday"], ["editnote", 1, j], ["reindex", None], ["nextday"], ["editnote", 1, j]]
    elif tail == "explicit" and allow_unclean and len(live) >= 2:
        # an explicit-path reindex that is NOT followed by a write-back (the edited note was already stamped today):
        # the hash map then holds only the given page, and the plain reindex meets the other pages as "new"
        a = min(live)
        j = rng.randint(0, 1)
        ops += [["reindex", None], ["editnote", a, j], ["reindex", None], ["editnote", a, j], ["reindex", [[a]]]]
    ops.append(["reindex", None])
    return init, ops


def run_history(eng, rng, oc, allow_unclean):
    from freezegun import freeze_time
    init, ops = gen_history(rng, allow_unclean)
    serial = [0]
    case = {"init": init, "ops": ops}
    with Z.tmpdir("c06_") as d:
        for k, n in init:
            write_tree(d, {page_name(k): page_text(k, n, serial)})
        ks = sorted({k for k, _ in init} | {o[1] for o in ops if o[0] in ("newpage",)} | {o[2] for o in ops if o[0] == "rename"})
        model = eng.call("world_run", [[k, [0, [[None, 1, 0]] * n]] for k, n in init], ops)
        day = DAY0
        mismatch = False
        for step, op in enumerate(ops):
            with freeze_time(dt.datetime(day.year, day.month, day.day, 12)):
                if op[0] in ("create", "reindex"):
                    try:
                        if op[0] == "create":
                            Z.db_create(d)
                        else:
                            t = op[1]
                            Z.db_reindex(d, [os.path.join(d, page_name(k)) for k in t[0]] if t else [])
                    except Exception as e:  # noqa: BLE001
                        # an index command that fails on a history of well-formed pages: the index cannot follow the files
                        oc.spec_fail.append((dict(case, step=step, op=op, files=W.user_files(d)),
                                             "db %s raised %s: %s" % (op[0], type(e).__name__, str(e)[:200]),
                                             "every index command of the history succeeds", None))
                        return False
                elif op[0] == "nextday":
                    day = day + dt.timedelta(days=1)
                else:
                    apply_real(d, op, serial, day)
            if op[0] in ("create", "reindex"):
                obs = observe_real(d, day, ks)
                mobs = {o[0]: o[:5] for o in model[step]}
                real = {o[0]: o for o in obs}
                for k in map(str, ks):
                    m = mobs.get(k, [k, "f", "none", "none", "0"])
                    if real[k] != m and not mismatch:
                        oc.corr_mismatch.append(("world machine", dict(case, step=step, op=op), {"page": k, "real": real[k]}, {"model": m}))
                        mismatch = True     # keep going: the end of the history decides the property itself
        # ---- the property itself: the index equals a fresh index of the final files
        oc.evaluations += 1
        final_idx = W.key_notes(W.dump_index(d))
        with Z.tmpdir("c06f_") as d2:
            write_tree(d2, W.user_files(d))
            # a rebuild in place keeps the ZID counter (db create only replaces the database)
            nid = os.path.join(d, ".zorg", "next_ids.json")
            if os.path.exists(nid):
                os.makedirs(os.path.join(d2, ".zorg"), exist_ok=True)
                shutil.copy(nid, os.path.join(d2, ".zorg", "next_ids.json"))
            with freeze_time(dt.datetime(day.year, day.month, day.day, 12)):
                Z.db_create(d2)
            fresh_idx = W.key_notes(W.dump_index(d2))
            queries = ["S note W (o | x | - | ~ | < | >) O alpha G none", "S file W - O alpha", "S count(note) W - G file"]
            qdiff = None
            for q in queries:
                if Z.execute(d, q) != Z.execute(d2, q):
                    qdiff = q
                    break
        if final_idx != fresh_idx or qdiff:
            # a known finding explains the difference only when the implementation followed the world machine (which
            # reproduces both known findings) at every index command of the history
            trig = None
            if mismatch:
                trig = None
            elif any(o[0] in ("delete", "rename") for o in ops):
                trig = "deleted_page_survives"
            elif any(o[0] == "reindex" and o[1] for o in ops):
                trig = "explicit_path_reindex"
            extra = [n["page"] for n in final_idx if n not in fresh_idx][:3]
            missing = [n["page"] for n in fresh_idx if n not in final_idx][:3]
            oc.spec_fail.append((case, {"notes_only_in_incremental_index": extra, "notes_only_in_fresh_index": missing, "query": qdiff},
                                 "index == fresh index of the final files", trig))
            if trig:
                oc.known_hit[trig] = json.dumps(ops)[:200]
                oc.count("known_" + trig)
            else:
                return False
    return not mismatch


def witness(eng, oc):
    """Deterministic replays of the two known findings on the implementation."""
    class R:  # fixed histories
        pass
    for trig, ops in (("deleted_page_survives", [["create"], ["delete", 2], ["reindex", None]]),
                      ("explicit_path_reindex", [["create"], ["editnote", 2, 0], ["addnote", 1], ["reindex", [[1]]], ["reindex", None]])):
        rng = random.Random(0)
        import types
        saved = globals()["gen_history"]
        globals()["gen_history"] = lambda r, a, ops=ops: ([[1, 1], [2, 1]], ops)
        try:
            o2 = lib.Outcome("C06")
            run_history(eng, rng, o2, True)
            if trig in o2.known_hit:
                oc.known_hit[trig] = o2.known_hit[trig]
            if o2.corr_mismatch:
                oc.corr_mismatch.extend(o2.corr_mismatch)
            oc.spec_fail.extend(f for f in o2.spec_fail if f[3] is None)
            oc.evaluations += o2.evaluations
        finally:
            globals()["gen_history"] = saved


def run(oc, tier, seed):
    rng = random.Random(seed)
    eng = lib.Engine()
    n = 12 if tier == "quick" else 90       # (histories carry forced / frequent special tails: ~8 s each)
    oc.rule = ("histories of 4-8 steps over 2-3 pages (edit a note, add / delete a note, edit the header, add a page, next day, "
               "plain reindex; every third history also explicit-path reindex, delete and rename), always ending with a plain "
               "reindex; after every index command the per-page observation (file exists, stored hash current/stale/none, "
               "indexed page sync/stale/none, notes without ZID) is compared with the abstract world machine; at the end the "
               "index dump and three queries are compared with a fresh `db create` of a copy of the final files; "
               "non-trivial = every history (>= 2 index commands)")
    witness(eng, oc)
    budget = 25
    for i in range(n + 25):
        if i >= n and not oc.corr_mismatch:
            break
        # the first histories of every run contain each special tail, whatever the seed
        FORCE.clear()
        FORCE.update({0: {"rows"}, 1: {"twice"}, 2: {"explicit"}, 3: {"empty"}, 5: {"explicit"}}.get(i, set()))
        ok = run_history(eng, rng, oc, allow_unclean=(i % 3 == 2) and not oc.corr_mismatch)
        FORCE.clear()
        oc.nontriv(("h", i))
        if any(f[3] is None for f in oc.spec_fail):
            break
        if not ok:
            budget -= 1          # model and implementation differ: search on for a history on which the property fails
            if budget <= 0:
                break
    oc.samples.append(gen_history(random.Random(seed), False)[1])
    eng.close()


def replay(path):
    """Re-runs the recorded history (init + ops) on the current tree."""
    payload = json.load(open(path))
    case = payload.get("case", {})
    if "ops" not in case or "init" not in case:
        import sys
        return lib.replay_by_rerun(sys.modules[__name__], "C06", path)
    eng = lib.Engine()
    saved = globals()["gen_history"]
    globals()["gen_history"] = lambda r, a: (case["init"], case["ops"])
    try:
        oc = lib.Outcome("C06")
        run_history(eng, random.Random(0), oc, True)
    finally:
        globals()["gen_history"] = saved
        eng.close()
    known, _ = lib.known_findings("C06")
    triggers = {k["trigger"] for k in known}
    bad = [f for f in oc.spec_fail if f[3] is None or f[3] not in triggers]
    print(json.dumps({"history": case["ops"], "failures_not_explained_by_a_known_finding": [f[1] for f in bad][:2],
                      "model_vs_implementation": [c[2] for c in oc.corr_mismatch][:2]}, indent=1, default=str)[:3000])
    return 1 if bad or oc.corr_mismatch else 0
