"""C14 — file rename.  Model: coq/Model/Rename.v."""
import glob
import json
import os
import random
import shutil
import tempfile

from harness import lib
from harness.implrun import zorg_main, read_tree, write_tree

ASSUMPTIONS = [
    "Path.rename and get_all_zfiles (rglob of *.zo, *.zot, *.zoq) are modelled as a map over the directory listing",
    "page names are relative to the zettel dir and free of '[', ']', '#'",
]

STEMS = ["foo", "bar", "foobar", "xfoo", "foo_2", "a", "ab", "proj", "sub/foo", "sub/deep/foo", "foo/child", "fo", "foo-v2"]
EXTS = [".zo", ".zo", ".zo", ".zot", ".zoq"]


def link_variants(a):
    return ["[[%s]]" % a, "[[%s#sec]]" % a, "[[%s#a-b_c]]" % a, "[[%sx]]" % a, "[[x%s]]" % a, "[[%s/sub]]" % a,
            "[[%s]x" % a, "[[[%s]]]" % a, "[[%s]]]" % a, "[[%s" % a, "[%s]]" % a, "[[%s#" % a, "[[%s]][[%s#q]]" % (a, a),
            "(see [[%s]], [[%s#x]].)" % (a, a), "[[ %s]]" % a, "[[%s ]]" % a, "[[%s.zo]]" % a]


def gen_case(rng):
    stems = rng.sample(STEMS, rng.randint(2, 6))
    src = stems[0]
    base = src.rsplit("/", 1)[-1]
    # also: the same base name in another directory (a move between directories)
    dst = rng.choice(["renamed", "foo2", "sub/moved", src + "_new", "x", "bar2", "arch/" + base, base if "/" in src else "sub/" + base])
    if dst == src:
        dst = "renamed"
    files = {}
    for st in stems:
        ext = ".zo" if st == src else rng.choice(EXTS)
        words = []
        for _ in range(rng.randint(0, 12)):
            r = rng.random()
            if r < 0.55:
                words.append(rng.choice(link_variants(src)))
            elif r < 0.75:
                words.append(rng.choice(link_variants(rng.choice(stems))))
            else:
                words.append(rng.choice(["note", "- o", "#tag", "\n", "\n- ", "x::1", "[[", "]]", "[", "#"]))
        files[st + ext] = "# title\n\n- " + " ".join(words) + ("\n" if rng.random() < 0.8 else "")
    if rng.random() < 0.3:
        files["README.txt"] = "[[%s]] not a zorg file" % src
    # pages whose own name or directory starts with a dot are pages like any other
    for hidden in rng.sample([".inbox.zo", ".archive/old.zo", ".archive/deep/more.zot", "sub/.drafts/d.zoq"], rng.choice([0, 0, 1, 2])):
        files[hidden] = "# hidden\n\n- see [[%s]] and [[%s#x]] %s\n" % (src, src, rng.choice(link_variants(src)))
    files.setdefault(src + ".zo", "# t\n")
    # destination directory must exist
    if "/" in dst:
        files.setdefault(os.path.dirname(dst) + "/keep.zo", "# k\n")
    if dst + ".zo" in files or any(k.rsplit(".", 1)[0] == dst for k in files):
        dst = "renamed"            # the destination must be free (the property does not speak of overwriting a page)
    style = rng.choice(["plain", "ext"])
    return {"files": files, "src": src + (".zo" if style == "ext" else ""), "dst": dst + (".zo" if style == "ext" else "")}


def run_impl(case):
    d = tempfile.mkdtemp(prefix="c14_")
    try:
        write_tree(d, case["files"])
        rc, out = zorg_main(["--dir", d, "file", "rename", case["src"], case["dst"]])
        tree = read_tree(d)
        tree = {k: v for k, v in tree.items() if not k.startswith(".zorg")}
        return rc, tree
    finally:
        shutil.rmtree(d, ignore_errors=True)


def check_case(eng, case, oc):
    rc, tree = run_impl(case)
    oc.evaluations += 1
    model = eng.call("rename_dir", case["src"], case["dst"], [[k, v] for k, v in sorted(case["files"].items())])
    model = {k: v for k, v in model}
    ok = True
    if rc != 0 or tree != model:
        diff = sorted(k for k in set(tree) | set(model) if tree.get(k) != model.get(k))
        oc.corr_mismatch.append(("rename_dir", case, {"rc": rc, "differs": diff, "impl": {k: tree.get(k) for k in diff[:3]}},
                                 {k: model.get(k) for k in diff[:3]}))
        ok = False
    # Spec: the one-pass reading per file + the move
    a = case["src"][:-3] if case["src"].endswith(".zo") else case["src"]
    b = case["dst"][:-3] if case["dst"].endswith(".zo") else case["dst"]
    srcf = case["src"] if "." in case["src"] else case["src"] + ".zo"
    dstf = case["dst"] if "." in case["dst"] else case["dst"] + ".zo"
    expect = {}
    for k, v in case["files"].items():
        nk = dstf if k == srcf else k
        if nk.endswith((".zo", ".zot", ".zoq")):
            m, sp, okn = eng.call("rename_text", a, b, v)
            assert okn == "t"
            expect[nk] = sp
        else:
            expect[nk] = v
    if rc != 0 or tree != expect:
        diff = sorted(k for k in set(tree) | set(expect) if tree.get(k) != expect.get(k))
        oc.spec_fail.append((case, {"rc": rc, "differs": diff, "impl": {k: tree.get(k) for k in diff[:3]}},
                             {k: expect.get(k) for k in diff[:3]}, None))
        ok = False
    return ok


def shrink(eng, case):
    def fails(c):
        o = lib.Outcome("C14")
        try:
            return not check_case(eng, c, o)
        except Exception:
            return False
    changed = True
    while changed:
        changed = False
        srcf = case["src"] if "." in case["src"] else case["src"] + ".zo"
        for k in list(case["files"]):
            if k == srcf:
                continue
            f2 = dict(case["files"]); del f2[k]
            c = dict(case, files=f2)
            if fails(c):
                case, changed = c, True
                break
        if changed:
            continue
        for k, v in list(case["files"].items()):
            ws = v.split(" ")
            for i in range(len(ws)):
                f2 = dict(case["files"]); f2[k] = " ".join(ws[:i] + ws[i + 1:])
                c = dict(case, files=f2)
                if len(ws) > 1 and fails(c):
                    case, changed = c, True
                    break
            if changed:
                break
    return case


def run(oc, tier, seed):
    rng = random.Random(seed)
    eng = lib.Engine()
    n = 150 if tier == "quick" else 4000
    oc.rule = ("random directories (2-6 pages incl. sub-directories, .zo/.zot/.zoq and one non-zorg file) whose texts mix "
               "links to A in 17 shapes (plain, anchored, extended, prefixed, half-open, bracketed, adjacent) with links to "
               "look-alike names; rename A -> B through the real CLI; every file compared byte-for-byte with the model and "
               "with the one-pass spec; non-trivial = some file contains both a plain and an anchored link to A")
    for f in sorted(glob.glob(os.path.join(lib.VERIF, "corpus", "C14", "*.json"))):
        check_case(eng, json.load(open(f)), oc)
    for i in range(n):
        case = gen_case(rng)
        ok = check_case(eng, case, oc)
        a = case["src"][:-3] if case["src"].endswith(".zo") else case["src"]
        if any("[[%s]]" % a in v and "[[%s#" % a in v for v in case["files"].values()):
            oc.nontriv(case)
        oc.count("files_%d" % len(case["files"]))
        if i < 2:
            oc.samples.append(case)
        if not ok:
            small = shrink(eng, case)
            o2 = lib.Outcome("C14")
            check_case(eng, small, o2)
            if o2.spec_fail:
                oc.spec_fail[-1:] = o2.spec_fail[-1:]
            if o2.corr_mismatch and oc.corr_mismatch:
                oc.corr_mismatch[-1:] = o2.corr_mismatch[-1:]
            break
    eng.close()


def replay(path):
    payload = json.load(open(path))
    eng = lib.Engine()
    oc = lib.Outcome("C14")
    ok = check_case(eng, payload["case"], oc)
    print(json.dumps({"spec_fail": oc.spec_fail[:1], "corr": oc.corr_mismatch[:1]}, indent=1, default=str)[:3000])
    eng.close()
    return 0 if ok else 1
