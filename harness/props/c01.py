"""C01 — compiling a page yields exactly the notes written in it.
Model: coq/Model/FileListener.v (listener on the imported ANTLR tree)."""
import datetime as dt
import glob
import json
import os
import random

from harness import lib, pagegen, fcwork, fc

ASSUMPTIONS = [
    "the ANTLR lexer/parser is not modelled: the listener model runs on the parse tree exported from the real parser",
    "well-formed = the real parser reports no syntax error on the rendered page",
]
TODAY = (2024, 6, 1)
CORE = ("body", "line", "zid", "create", "modify")


def kind_prio(n):
    return (n["todo"][1], n["todo"][0]) if n["todo"] else ("-", None)


def check_page(eng, text, res, exp, oc, where):
    """res: implementation result; exp: expected notes (or None)."""
    oc.evaluations += 1
    ok = True
    # correspondence: listener model on the exported tree
    if res["tree"] is not None:
        m = eng.call("listen", list(TODAY), bool(res["nerrors"]), res["tree"])
        if m[0] == "ok":
            mh, mnotes, msecs = m[1]
            model = ("ok", mh == "t", [fc.model_note(x) for x in mnotes])
        elif m[0] == "exn":
            model = (m[1], None, None)
        else:
            model = (m[0], None, None)
        impl = (res["status"], res["has_errors"], res["notes"])
        if model != impl:
            first = None
            if model[0] == impl[0] == "ok" and model[2] is not None and impl[2] is not None:
                for a, b in zip(impl[2], model[2]):
                    if a != b:
                        first = {k: [a[k], b[k]] for k in a if a[k] != b[k]}
                        break
            oc.corr_mismatch.append(("listener", {"text": text}, {"status": impl[0], "has_errors": impl[1],
                                                                 "n": len(impl[2] or []), "first_diff[impl,model]": first},
                                     {"status": model[0], "has_errors": model[1], "n": len(model[2] or [])}))
            ok = False
    if exp is None:
        return ok
    if res["status"] != "ok" or res["nerrors"]:
        oc.count("generated_page_not_wellformed")
        return ok
    got = res["notes"]
    e = [dict({k: x[k] for k in CORE}, kind=x["kind"], prio=x["prio"]) for x in exp]
    g = [dict({k: x[k] for k in CORE}, kind=kind_prio(x)[0], prio=kind_prio(x)[1]) for x in got]
    if res["has_errors"] or e != g:
        diff = None
        for a, b in zip(e, g):
            if a != b:
                diff = {k: [a[k], b[k]] for k in a if a[k] != b[k]}
                break
        oc.spec_fail.append(({"text": text}, {"has_errors": res["has_errors"], "n_notes": len(g), "first_diff[expected,got]": diff},
                             {"n_notes": len(e)}, None))
        ok = False
    return ok


def one_item_pages():
    """6 kinds x 11 priorities x 6 identity forms x 2 spacing variants."""
    out = []
    for kind in pagegen.KINDS:
        for prio in [None] + ["P%d" % i for i in range(10)]:
            if kind == "-" and prio:
                continue
            for ident in ["none", "zid", "zid3", "mod+zid", "long", "mod"]:
                for tail in ["foo bar", "o x P5 1200 2024-01-01 240101 240101#0A"]:
                    first = {"none": [], "zid": ["240102#0A"], "zid3": ["690630#zz0"], "mod+zid": ["991231", "240102#0A"],
                             "long": ["2031-12-31"], "mod": ["240203"]}[ident]
                    words = (["plain"] if ident == "none" else []) + tail.split(" ")
                    zid = {"zid": "240102#0A", "zid3": "690630#zz0", "mod+zid": "240102#0A"}.get(ident)
                    cdate = {"zid": dt.date(2024, 1, 2), "zid3": dt.date(2069, 6, 30), "mod+zid": dt.date(2024, 1, 2),
                             "long": dt.date(2031, 12, 31)}.get(ident)
                    mod = {"mod+zid": dt.date(2099, 12, 31), "mod": dt.date(2024, 2, 3)}.get(ident)
                    it = {"kind": kind, "prio": prio, "first": first, "words": words, "cont": [], "own": pagegen.Meta(),
                          "zid": zid, "mod": mod, "cdate": cdate}
                    pg = {"head": ["# t"], "title_meta": pagegen.Meta(), "head_meta": pagegen.Meta(), "top": [[it]], "sections": []}
                    out.append(pg)
    return out


def run(oc, tier, seed):
    pagegen.SAME_DAY_MOD_RATE = 0.25
    rng = random.Random(seed)
    pool = lib.pool()
    eng = lib.Engine()
    n = 300 if tier == "quick" else 6000
    oc.rule = ("(a) exhaustive one-item pages: every kind x priority x identity form (none, ZID, 3-char ZID, modify date + ZID, "
               "long date, modify date only) x two bodies (plain / all look-alike words); (b) random structured pages: header "
               "block, 0-2 top blocks, 0-5 sections over every legal nesting, items of every kind with priorities, identity "
               "forms with two-digit years 00-99, 1-6 body words over all word forms with look-alikes over-weighted, 0-3 "
               "continuation lines with bullets and property bullets, in-block comments; compared: note count/order, kind, "
               "priority, body, line, ZID, create and modify date (spec), and every field against the listener model on the "
               "exported tree; (c) abstract pages of the page theorem (sections nested to H4, every item form): valid_pageb holds, "
               "tree_of_page == the ANTLR tree, spec_page == the compiled notes; non-trivial = page has >= 2 notes or a multi-line item")
    pages = one_item_pages()
    pages += [pagegen.gen_page(rng) for _ in range(n)]
    texts = [pagegen.render(p) for p in pages]
    corpus = [json.load(open(f)) for f in sorted(glob.glob(os.path.join(lib.VERIF, "corpus", "C01", "*.json")))]
    jobs = [(c["text"], TODAY, True) for c in corpus] + [(t, TODAY, True) for t in texts]
    results = pool.map(fcwork.compile_job, jobs, chunksize=8)
    pool.close()
    today = dt.date(*TODAY)
    for i, res in enumerate(results):
        if i < len(corpus):
            check_page(eng, corpus[i]["text"], res, None, oc, "corpus")
            continue
        pg = pages[i - len(corpus)]
        text = texts[i - len(corpus)]
        exp = pagegen.expected(pg, today)
        ok = check_page(eng, text, res, exp, oc, "gen")
        if len(exp) >= 2 or any("\n" in e["body"] for e in exp):
            oc.nontriv(text)
        oc.count("notes_%d" % min(len(exp), 9))
        if len(oc.samples) < 2 and len(exp) >= 3:
            oc.samples.append(text)
        if not ok:
            break
    oc.exhaustive = False
    oc.count("one_item_pages", len(one_item_pages()))
    # (c) the domain of the page theorem: hypothesis, parse tree and compiled notes on generated abstract pages
    if not any(f[3] is None for f in oc.spec_fail) and not oc.corr_mismatch:
        from harness import pagetie
        pool2 = lib.pool()
        pagetie.run(eng, pool2, rng, oc, 120 if tier == "quick" else 3000, TODAY, "C01")
        pool2.close()
    eng.close()


def replay(path):
    payload = json.load(open(path))
    text = payload["case"]["text"]
    eng = lib.Engine()
    oc = lib.Outcome("C01")
    res = fc.compile_text(text, dt.date(*TODAY), True)
    ok = check_page(eng, text, res, None, oc, "replay")
    print(text)
    print(json.dumps({"impl": {k: res[k] for k in ("status", "has_errors", "nerrors", "notes")}, "corr": oc.corr_mismatch[:1]},
                     indent=1, default=str)[:4000])
    eng.close()
    return 0 if ok else 1
