"""C18 — file-group expansion.  Model: coq/Model/FileGroups.v (expand)."""
import contextlib
import datetime as dt
import io
import json
import random

from harness import lib

ASSUMPTIONS = [
    "pathlib.Path normalisation is the identity on the generated names (no '//', './', trailing '/')",
    "str.format is modelled for the replacement fields {yyyymmdd[i]} and {days[i].year|month|day} only",
    "freezegun freezes datetime.now() for the implementation run",
]

# related names: prefixes / suffixes / case variants of one another (a lookup must be exact)
NAMES = ["a", "b", "c", "work", "home", "x1", "daily", "g", "work_old", "wo", "ab", "x", "x12", "Work", "day", "days", "ho",
         "wk{{1}}", "{inbox}"]       # a group NAME is never formatted: braces in it are plain characters
FILES = ["foo.zo", "bar.zo", "sub/baz.zo", "2024/notes.zo", "p q.zo", "x@y.zo", "a.b.zo", "zo"]
PATTERNS = ["{yyyymmdd[%d]}.zo", "{days[%d].year}/{yyyymmdd[%d]}.zo", "log/{days[%d].year}-{days[%d].month}-{days[%d].day}.zo",
            "d{days[%d].day}", "{days[%d].month}/x.zo"]
DAYS = [(2024, 3, 1), (2024, 1, 1), (2023, 1, 3), (2024, 2, 29), (2025, 3, 5), (2000, 1, 6), (2024, 12, 31),
        (2024, 7, 15), (2099, 1, 2), (2021, 5, 4)]


def gen_case(rng: random.Random):
    n = rng.randint(1, 6)
    names = rng.sample(NAMES, n)
    gmap = {}
    # acyclic: group i may only refer to groups j > i
    for i, g in enumerate(names):
        members = []
        for _ in range(rng.randint(0, 4)):
            r = rng.random()
            if r < 0.4 and i + 1 < n:
                members.append("@" + rng.choice(names[i + 1:]))
            elif r < 0.7:
                pat = rng.choice(PATTERNS)
                k = pat.count("%d")
                same = rng.randint(0, 6)
                members.append(pat % tuple(same if rng.random() < 0.7 else rng.randint(0, 6) for _ in range(k)))
            else:
                members.append(rng.choice(FILES))
        gmap[g] = members
    args = []
    for _ in range(rng.randint(0, 5)):
        if rng.random() < 0.55:
            args.append("@" + rng.choice(names))
        else:
            args.append(rng.choice(FILES))
    if rng.random() < 0.04:
        args.insert(rng.randint(0, len(args)), "@missing")
    today = rng.choice(DAYS) if rng.random() < 0.7 else (rng.randint(2001, 2098), rng.randint(1, 12), rng.randint(1, 28))
    # local clocks whose UTC date is the previous / the next day, besides plain noon
    clock = rng.choice([(12, 0), (12, 0), (1, 5), (22, -8), (0, 14), (23, -12)])
    return {"today": list(today), "map": gmap, "args": args, "clock": list(clock)}


def depth(gmap, g, seen=()):
    if g not in gmap:
        return 0
    return 1 + max([depth(gmap, m[1:]) for m in gmap[g] if m.startswith("@")] or [0])


import contextlib


@contextlib.contextmanager
def local_clock(local_now, off):
    """A frozen clock with a real time zone: naive now()/today() are local (UTC+off), now(tz)/utcnow() are
    the same instant in that zone (freezegun's now(tz) adds the offset twice, so it cannot tell them apart)."""
    import datetime as real
    RealDT, RealDate = real.datetime, real.date
    utc_now = local_now - real.timedelta(hours=off)

    class FakeDT(RealDT):
        @classmethod
        def now(cls, tz=None):
            if tz is None:
                return cls(*local_now.timetuple()[:6])
            return tz.fromutc(cls(*utc_now.timetuple()[:6], tzinfo=tz))

        @classmethod
        def utcnow(cls):
            return cls(*utc_now.timetuple()[:6])

        @classmethod
        def today(cls):
            return cls.now()

    class FakeDate(RealDate):
        @classmethod
        def today(cls):
            return cls(local_now.year, local_now.month, local_now.day)

    real.datetime, real.date = FakeDT, FakeDate
    try:
        yield
    finally:
        real.datetime, real.date = RealDT, RealDate


def run_impl(case):
    from freezegun import freeze_time
    from zorg.service.file_groups import expand_file_group_paths
    y, m, d = case["today"]
    # the local clock: (hour, UTC offset); the local date is case["today"] even when the UTC date differs
    hour, off = case.get("clock", (12, 0))
    with (freeze_time(dt.datetime(y, m, d, hour, 0, 0)) if off == 0 else local_clock(dt.datetime(y, m, d, hour, 0, 0), off)):
        try:
            r = expand_file_group_paths(list(case["args"]), file_group_map=case["map"])
            return ["ok", [str(p) for p in r]]
        except RecursionError:
            return ["fuel"]
        except Exception as e:  # noqa: BLE001
            return ["exn", type(e).__name__]


def run_model(eng, case):
    fuel = len(case["map"]) + 2
    gm = [[k, v] for k, v in case["map"].items()]
    r = eng.call("expand", fuel, case["today"], gm, case["args"])
    return r


def check_case(eng, case, oc, where="gen"):
    impl = run_impl(case)
    model = run_model(eng, case)
    oc.evaluations += 1
    if model[0] == "oom":
        oc.count("out_of_model")
        return True
    if impl != model:
        # Model == Spec here (C18_sound / C18_complete), so this is a failure of the property
        oc.spec_fail.append((case, impl, model, None))
        return False
    # law checked on the implementation alone: expand(xs ++ ys) = expand xs ++ expand ys
    if impl[0] == "ok" and len(case["args"]) >= 2:
        k = len(case["args"]) // 2
        a = run_impl(dict(case, args=case["args"][:k]))
        b = run_impl(dict(case, args=case["args"][k:]))
        if a[0] == "ok" and b[0] == "ok" and a[1] + b[1] != impl[1]:
            oc.spec_fail.append((case, impl, ["concat-law", a, b], None))
            return False
    return True


def shrink(eng, case):
    """Greedy: drop args, drop members, drop groups while the failure persists."""
    def fails(c):
        oc = lib.Outcome("C18")
        try:
            return not check_case(eng, c, oc)
        except Exception:  # noqa: BLE001
            return False
    changed = True
    while changed:
        changed = False
        for i in range(len(case["args"])):
            c = dict(case, args=case["args"][:i] + case["args"][i + 1:])
            if fails(c):
                case, changed = c, True
                break
        if changed:
            continue
        for g in list(case["map"]):
            for i in range(len(case["map"][g])):
                mp = dict(case["map"])
                mp[g] = mp[g][:i] + mp[g][i + 1:]
                c = dict(case, map=mp)
                if fails(c):
                    case, changed = c, True
                    break
            if changed:
                break
    return case


def run(oc, tier, seed):
    rng = random.Random(seed)
    eng = lib.Engine()
    n = 600 if tier == "quick" else 20000
    oc.rule = ("random acyclic group maps (1-6 groups, members: @refs to later groups / date patterns / plain "
               "files), 0-5 arguments, frozen clock on month/year boundaries; non-trivial = some argument is a "
               "group of nesting depth >= 2 or a date pattern is reached; distinct by case hash")
    # corpus first
    import glob, os
    for f in sorted(glob.glob(os.path.join(lib.VERIF, "corpus", "C18", "*.json"))):
        check_case(eng, json.load(open(f)), oc, "corpus")
    for i in range(n):
        case = gen_case(rng)
        ok = check_case(eng, case, oc)
        d = max([depth(case["map"], a[1:]) for a in case["args"] if a.startswith("@")] or [0])
        oc.count("depth_%d" % d)
        oc.count("args_%d" % len(case["args"]))
        if d >= 2 or any("{" in m for ms in case["map"].values() for m in ms):
            oc.nontriv(case)
        if i < 3:
            oc.samples.append(case)
        if not ok:
            case2 = shrink(eng, case)
            c, impl, spec, t = oc.spec_fail[-1]
            oc2 = lib.Outcome("C18")
            check_case(eng, case2, oc2)
            if oc2.spec_fail:
                oc.spec_fail[-1] = oc2.spec_fail[-1]
            break
    eng.close()


def replay(path):
    payload = json.load(open(path))
    eng = lib.Engine()
    oc = lib.Outcome("C18")
    case = payload["case"]
    ok = check_case(eng, case, oc)
    print("case:", json.dumps(case))
    print("impl:", run_impl(case))
    print("model/spec:", run_model(eng, case))
    eng.close()
    return 0 if ok else 1
