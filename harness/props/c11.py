"""C11 — modification stamps.  Model: coq/Model/WriteBack.v (stamp decision, line rewriting)."""
import datetime as dt
import glob
import json
import os
import random
import re

from harness import lib, pagegen, world as W
from harness.implrun import write_tree
from harness import zdir as Z
from harness.props import c09

ASSUMPTIONS = [
    "compilation of the pages is the real compiler's; the previous index state is read through the real repository",
    "all dates lie in 2000-2099",
]
DAY0 = dt.date(2024, 6, 1)
ITEM = re.compile(r"^([-ox~<>])( P\d)?( \d{6})?( \d{6}#\w{2,3})( .*)?$")


def edit_page(rng, text, allow_weird):
    """Random user edits to a page; returns the new text."""
    lines = text.split("\n")
    idx = [i for i, l in enumerate(lines) if ITEM.match(l)]
    for i in sorted(rng.sample(idx, min(len(idx), rng.randint(0, 3))), reverse=True):
        m = ITEM.match(lines[i])
        kind, pr, md, zid, rest = m.group(1), m.group(2) or "", m.group(3) or "", m.group(4), m.group(5) or ""
        r = rng.random()
        if r < 0.4:
            rest = rest + " edited%d" % rng.randint(0, 99)
        elif r < 0.55:
            kind = rng.choice([k for k in "ox~<>" if k != kind]) if kind != "-" else "-"
            if kind == "-":
                rest = rest + " changed"
        elif r < 0.7 and kind != "-":
            pr = " P%d" % rng.randint(0, 9)
        elif r < 0.85:
            lines[i] = kind + pr + md + zid + rest
            lines.insert(i + 1, "  * new bullet %d" % rng.randint(0, 99))
            continue
        elif allow_weird and md:
            md = ""                      # the user removes the modify-date word (known finding)
            rest = rest + " second"
        lines[i] = kind + pr + md + zid + rest
    # a priority-only change (or removal) on a done / cancelled todo: its text form does not show the priority
    closed = [i for i in idx if i < len(lines) and ITEM.match(lines[i]) and ITEM.match(lines[i]).group(1) in "x~"
              and ITEM.match(lines[i]).group(4)]
    if closed and rng.random() < 0.35:
        i = rng.choice(closed)
        m = ITEM.match(lines[i])
        kind, pr, md, zid, rest = m.group(1), m.group(2) or "", m.group(3) or "", m.group(4), m.group(5) or ""
        new_pr = rng.choice([p for p in [""] + [" P%d" % k for k in range(10)] if p != pr and not (p == "" and pr == " P3") and not (p == " P3" and pr == "")])
        lines[i] = kind + new_pr + md + zid + rest
    r = rng.random()
    if r < 0.3:
        # a brand new note at the end of the first block
        for i, l in enumerate(lines):
            if ITEM.match(l):
                lines.insert(i, "- brand new note %d" % rng.randint(0, 999))
                break
    elif r < 0.45:
        for i, l in enumerate(lines):
            if l.startswith(("####", "====", "++++", "----")) and " " in l:
                lines[i] = l + " retitled"
                break
    return "\n".join(lines)


def to_m(n):
    return [[n["zid"]] if n["zid"] else None, n["body"], [[n["prio"], n["kind"]]] if n["kind"] != "-" else None, n["modify"], n["create"]]


def run_history(eng, rng, oc, allow_weird):
    from freezegun import freeze_time
    pagegen.MAX_YEAR = 2099
    with Z.tmpdir("c11_") as d:
        files = {name: c09.gen_c09_page(rng) for name in rng.sample(["alpha.zo", "beta.zo", "sub/gamma.zo"], 2)}
        # a character that str.splitlines() takes for a line end (form feed, file separator, U+2028 in UTF-8) inside a word of
        # the first item: the lines of a page end at "\n" only, so every later note keeps its line number
        for name in list(files):
            if rng.random() < 0.5:
                ls = files[name].split("\n")
                for i, l in enumerate(ls):
                    m = re.match(r"[-ox~<>] .*\b(plain|foo|Baz_1)\b", l)
                    if m:
                        ls[i] = l[:m.end(1) - 1] + rng.choice(["\x0c", "\x1c", "\xe2\x80\xa8"]) + l[m.end(1) - 1:]
                        break
                files[name] = "\n".join(ls)
        write_tree(d, files)
        with freeze_time(dt.datetime(2024, 6, 1, 12)):
            Z.db_create(d)
        day = DAY0
        tainted = False      # a known-finding event earlier in this history left index and file apart
        for step in range(3):
            day = day + dt.timedelta(days=rng.choice([1, 1, 2, 30]))
            before_files = W.user_files(d)
            old_index = W.dump_index(d)
            edited = {p: (edit_page(rng, t, allow_weird) if rng.random() < 0.8 else t) for p, t in before_files.items() if p.endswith(".zo")}
            # a note (with its ZID) cut from one page and pasted, verbatim, below the last note of another: it is new to
            # that page's index state and must not be stamped
            zo = [p for p in edited if p.endswith(".zo")]
            if len(zo) >= 2 and rng.random() < 0.35:
                src, dst = rng.sample(zo, 2)
                sl, dl = edited[src].split("\n"), edited[dst].split("\n")
                cand = [i for i, l in enumerate(sl) if ITEM.match(l) and not (i + 1 < len(sl) and sl[i + 1].startswith("  "))]
                last = [i for i, l in enumerate(dl) if ITEM.match(l)]
                if cand and last:
                    i = rng.choice(cand)
                    j = last[-1] + 1
                    while j < len(dl) and dl[j].startswith("  "):
                        j += 1
                    dl.insert(j, sl[i])
                    del sl[i]
                    if not any(re.match(r"[-ox~<>] ", l) for l in sl[max(0, i - 1):i + 1]) and i < len(sl) and sl[i] == "" and i > 0 and sl[i - 1] == "":
                        del sl[i]      # the block became empty: do not leave two blank lines (harmless either way)
                    edited[src], edited[dst] = "\n".join(sl), "\n".join(dl)
                    oc.count("notes_moved_between_pages")
            write_tree(d, edited)
            compiled = W.compile_dir(d, day)
            with freeze_time(dt.datetime(day.year, day.month, day.day, 12)):
                try:
                    Z.db_reindex(d)
                except Exception as e:  # noqa: BLE001
                    oc.spec_fail.append(({"day": day.isoformat(), "before": before_files, "edited": edited},
                                         "db reindex raised %s: %s" % (type(e).__name__, str(e)[:200]),
                                         "db reindex succeeds on well-formed pages", None))
                    return False
                after_files = W.user_files(d)
                new_index = W.dump_index(d)
                Z.db_reindex(d)
                again_files, again_index = W.user_files(d), W.dump_index(d)
            oc.evaluations += 1
            case = {"day": day.isoformat(), "before": before_files, "edited": edited}
            ok = True
            weird = tainted
            for p, text in edited.items():
                if text == before_files[p]:
                    if after_files[p] != text:
                        oc.spec_fail.append((dict(case, page=p), "an unchanged page was rewritten", "untouched", None))
                        return False
                    continue
                old_notes = [n for n in old_index if n["page"] == p]
                new_notes = [n for n in compiled if n["page"] == p]
                # ---- model decisions
                stamped_model = {}
                for n in new_notes:
                    r = eng.call("stamp", [day.year, day.month, day.day], [to_m(o) for o in old_notes], to_m(n))
                    if r:
                        stamped_model[n["zid"]] = r[0]
                # ---- spec: stamped iff (had the ZID before, text or todo state differs, not dated today)
                oz = {o["zid"]: o for o in old_notes if o["zid"]}
                expect = set()
                for n in new_notes:
                    o = oz.get(n["zid"]) if n["zid"] else None
                    if o and (n["body"], n["kind"], n["prio"]) != (o["body"], o["kind"], o["prio"]) and n["modify"] != day.isoformat():
                        expect.add(n["zid"])
                        has_md_word = bool(re.match(r"\d{6} ", n["body"]))
                        if has_md_word != (o["modify"] != n["create"]):
                            weird = tainted = True
                if set(stamped_model) != expect:
                    oc.corr_mismatch.append(("stamp decision", dict(case, page=p), sorted(expect), sorted(stamped_model)))
                    return False
                idx_now = {n["zid"]: n for n in new_index if n["page"] == p}
                short = day.strftime("%Y%m%d")[2:]
                lines_e, lines_a = text.split("\n"), after_files[p].split("\n")
                # new notes get ZIDs too (C05): compare line by line
                probs = []
                if len(lines_e) != len(lines_a):
                    probs.append("number of lines changed")
                else:
                    first_line = {n["line"]: n for n in new_notes}
                    for i, (x, y) in enumerate(zip(lines_e, lines_a)):
                        n = first_line.get(i + 1)
                        if n and n["zid"] in expect:
                            m = re.fullmatch(r"( *[-ox~<>] (?:P\d )?)(?:\d{6} )?(\d{6}#\w{2,3}.*)", x, re.S)
                            if not m or y != m.group(1) + short + " " + m.group(2):
                                probs.append("line %d of an edited note: %r -> %r (expected the date %s in front of the ZID)" % (i + 1, x, y, short))
                        elif n and n["zid"] is None:
                            continue            # a new note gains its ZID (C05)
                        elif x != y:
                            probs.append("line %d changed although its note was not edited: %r -> %r" % (i + 1, x, y))
                for z in expect:
                    if z in idx_now and idx_now[z]["modify"] != day.isoformat():
                        probs.append("index: note %s not stamped (modify %s)" % (z, idx_now[z]["modify"]))
                for z, n in idx_now.items():
                    if z not in expect and z in oz and z in {m["zid"] for m in new_notes}:
                        cn = [m for m in new_notes if m["zid"] == z][0]
                        if n["modify"] != cn["modify"]:
                            probs.append("index: untouched note %s has modify %s, file says %s" % (z, n["modify"], cn["modify"]))
                if probs:
                    trig = "mdate_word_heuristic" if weird else None
                    oc.spec_fail.append((dict(case, page=p), probs[:3], "C11", trig))
                    if trig:
                        oc.known_hit[trig] = probs[0][:160]
                    else:
                        return False
            # file and index agree after stamping; an immediate reindex changes nothing
            rec = W.key_notes(W.compile_dir(d, day))
            if rec != W.key_notes(new_index):
                diff = None
                for x, y in zip(rec, W.key_notes(new_index)):
                    if x != y:
                        diff = {k: [x[k], y[k]] for k in x if x[k] != y[k]}
                        break
                trig = "mdate_word_heuristic" if weird else None
                oc.spec_fail.append((case, "file and index disagree after stamping: %s" % diff, "agree", trig))
                if trig:
                    oc.known_hit[trig] = str(diff)[:160]
                else:
                    return False
            if (again_files != after_files or W.key_notes(again_index) != W.key_notes(new_index)) and not weird:
                oc.spec_fail.append((case, "an immediately following reindex changed something", "idempotent", None))
                return False
        return True


def witness(oc):
    """Replays the known finding on the implementation: explicit modify date equal to the create date."""
    from freezegun import freeze_time
    with Z.tmpdir("c11w_") as d:
        write_tree(d, {"w.zo": "# w\n\n- 240101 240101#00 old text\n- 240301 240102#00 other old\n"})
        with freeze_time(dt.datetime(2024, 6, 1, 12)):
            Z.db_create(d)
        write_tree(d, {"w.zo": "# w\n\n- 240101 240101#00 new text\n- 240102#00 other second\n"})
        with freeze_time(dt.datetime(2024, 6, 2, 12)):
            Z.db_reindex(d)
        rec = W.key_notes(W.compile_dir(d, dt.date(2024, 6, 2)))
        idx = W.key_notes(W.dump_index(d))
        oc.evaluations += 1
        if rec != idx:
            bodies = [(a["body"], b["body"]) for a, b in zip(rec, idx) if a["body"] != b["body"]]
            oc.known_hit["mdate_word_heuristic"] = "file vs index bodies after stamping: %s" % bodies[:2]


def run(oc, tier, seed):
    rng = random.Random(seed)
    eng = lib.Engine()
    witness(oc)
    n = 8 if tier == "quick" else 150
    oc.rule = ("histories over 3 later calendar days on an indexed directory of 2 pages: edits to bodies, kinds, priorities, "
               "added bullets, new notes, retitled sections, untouched pages; notes already stamped on earlier days; a stream that "
               "also removes modify-date words (known finding); after each `db reindex`: stamped set = notes with the ZID in the "
               "previous index state whose text or todo state differs and that are not dated today (spec = model decision), "
               "YYMMDD inserted/replaced in front of the ZID, every other line byte-identical, index and recompiled files "
               "agree, an immediate second reindex changes nothing; non-trivial = history step with >= 1 stamped note")
    for i in range(n):
        ok = run_history(eng, rng, oc, allow_weird=(i % 4 == 3))
        oc.nontriv(("hist", i))
        if not ok:
            break
    oc.samples.append("history %d steps on generated pages" % 3)
    # the tie of the page-level theorem (C11_dates_written_into_page) to the real reindex
    if not any(f[3] is None for f in oc.spec_fail):
        from harness import pagewb
        pagewb.run_mdate(eng, random.Random(seed + 5), oc, 12 if tier == "quick" else 200)
        oc.rule += ("; PAGE theorem tie: abstract pages whose items all carry ZIDs, some items edited, reindexed the next "
                    "day: the file equals page_text (stamped d chosen pg) whenever mdate_readyb holds")
    eng.close()


def replay(path):
    import sys
    return lib.replay_by_rerun(sys.modules[__name__], "C11", path)
