"""C02 — metadata scoping.  Exhaustive over legal section skeletons; spec = pagegen.expected."""
import datetime as dt
import glob
import json
import os
import random

from harness import lib, pagegen, fcwork, fc
from harness.props import c01

ASSUMPTIONS = c01.ASSUMPTIONS + [
    "tags inside quoted words and date-valued properties in headers are don't-cares of the statement and are not generated",
]
TODAY = c01.TODAY
META = ("areas", "contexts", "people", "projects", "links", "props", "create")


def check_page(eng, text, res, exp, oc):
    ok = c01.check_page(eng, text, res, None, oc, "c02")      # listener correspondence (all fields)
    if res["status"] != "ok" or res["nerrors"]:
        oc.count("generated_page_not_wellformed")
        return ok
    got = res["notes"]
    e = [{k: x[k] for k in META} for x in exp]
    g = [{k: x[k] for k in META} for x in got]
    if e != g:
        diff, idx = None, None
        for i, (a, b) in enumerate(zip(e, g)):
            if a != b:
                diff = {k: [a[k], b[k]] for k in a if a[k] != b[k]}
                idx = i
                break
        trig = None
        if diff and set(diff) == {"props"}:
            extra = set(diff["props"][1]) - set(diff["props"][0])
            if extra and all(k.startswith("[") for k in extra) and all(
                    diff["props"][1].get(k) == v for k, v in diff["props"][0].items()):
                trig = "bullet_inline_prop"
        if trig:
            oc.known_hit[trig] = "note %s of page: extra keys %s" % (idx, sorted(set(diff["props"][1]) - set(diff["props"][0])))
        else:
            ok = False
        oc.spec_fail.append(({"text": text}, {"n_notes": len(g), "note": idx, "first_diff[expected,got]": diff},
                             {"n_notes": len(e)}, trig))
    return ok


def run(oc, tier, seed):
    pagegen.SAME_DAY_MOD_RATE = 0.25
    pagegen.BULLET_SHARED_KEY_RATE = 0.4
    rng = random.Random(seed)
    pool = lib.pool()
    eng = lib.Engine()
    maxlen, reps = (5, 2) if tier == "quick" else (7, 4)
    oc.rule = ("EXHAUSTIVE over legal header-level sequences (first header H1 or H2, at most one level deeper than the "
               "previous) of length <= %d, %d random decorations each: every title line, later header line, section header, "
               "in-block comment and item carries its own tags, links, properties (with keys shared across scopes), digits-only "
               "tags and dates; every header carries 2-4 decorations and every section 1-2 blocks; compared per note: tags, links, properties, create date (spec) and all "
               "fields against the listener model; plus the abstract pages of the page theorem (shared tag names across scopes, "
               "sections nested to H4): valid_pageb holds, tree_of_page == the ANTLR tree, spec_page == the compiled notes; "
               "non-trivial = skeleton has >= 2 headers" % (maxlen, reps))
    pages, sks = [], []
    for n in range(0, maxlen + 1):
        for sk in pagegen.all_skeletons(n):
            for _ in range(reps):
                pages.append(pagegen.gen_page(rng, skeleton=sk, rich=True))
                sks.append(sk)
    oc.count("skeletons", len(set(map(tuple, sks))))
    texts = [pagegen.render(p) for p in pages]
    corpus = [json.load(open(f)) for f in sorted(glob.glob(os.path.join(lib.VERIF, "corpus", "C02", "*.json")))]
    jobs = [(c["text"], TODAY, True) for c in corpus] + [(t, TODAY, True) for t in texts]
    results = pool.map(fcwork.compile_job, jobs, chunksize=8)
    pool.close()
    today = dt.date(*TODAY)
    for i, res in enumerate(results):
        if i < len(corpus):
            c = corpus[i]
            exp = c.get("expected")
            if exp is not None:
                check_page(eng, c["text"], res, exp, oc)
            continue
        j = i - len(corpus)
        exp = pagegen.expected(pages[j], today)
        ok = check_page(eng, texts[j], res, exp, oc)
        if len(sks[j]) >= 2:
            oc.nontriv(texts[j])
        if len(oc.samples) < 2 and len(sks[j]) >= 4:
            oc.samples.append({"skeleton": sks[j], "text": texts[j]})
        if not ok:
            break
    oc.exhaustive = True
    # the domain of the page theorem (C02_scoping_on_pages): hypothesis, parse tree, compiled notes
    if not any(f[3] is None for f in oc.spec_fail) and not oc.corr_mismatch:
        from harness import pagetie
        pool2 = lib.pool()
        pagetie.run(eng, pool2, rng, oc, 120 if tier == "quick" else 3000, TODAY, "C02")
        pool2.close()
    eng.close()


def replay(path):
    return c01.replay(path)
