"""C03 — a WHERE filter returns exactly the indexed notes that satisfy it.
Model: coq/Model/Where.v (the generated SQL as SQLite evaluates it, over the raw index rows)."""
import datetime as dt
import glob
import json
import os
import random
import re
import sqlite3
from pathlib import Path

from harness import lib, querygen, qc
from harness.implrun import quiet, write_tree
from harness import zdir as Z

ASSUMPTIONS = [
    "SQLite and SQLAlchemy are modelled by coq/Model/Where.v (LIKE, CAST AS INTEGER, date(), NULL handling as far as it occurs); "
    "values on which SQLite's date() is exotic are OutOfModel and counted",
    "the filter structure is the one the real query compiler produced (C04's subject); the index is read from the raw SQLite rows",
]
TODAY = (2024, 6, 1)
STATUS = {"OPEN_TODO": "o", "CLOSED_TODO": "x", "CANCELED_TODO": "~", "BLOCKED_TODO": "<", "PARENT_TODO": ">", "BASIC": "-"}

BODY_WORDS = ["foo", "Foo", "FOO", "bar", "a_b", "aXb", "100%", "50", "path\\to", "it's", "e.g.", "snake_case", "done", "a-b", "x9",
              "Bar", "(p)", "#tag", "'foo'", '"Bar"', "'foo"]
TAGS = {"#": ["home", "work", "a1", "bob"], "@": ["home", "work", "bob"], "%": ["bob", "x9", "home", "work"],
        "+": ["proj_x", "projXx", "foo", "home", "work", "bob"]}   # the same names under every tag kind
PROPS = [("due", ["2024-05-01", "2024-06-01", "2024-06-15", "2023-12-31", "soon", "2024-13-01"]),
         ("k", ["7", "42", "007", "val", "x9", "Some_Value", "-3", "12abc"]),
         ("ab_c", ["1200", "P3", "file", "val"]), ("foo", ["2031-12-31", "240101#0A"])]
LINKS = ["[[target]]", "[[target#sec]]", "[[targetX]]", "[[sub/bar]]", "[[foo]]", "[[Zed]]", "[#gid1]", "[@rid1]", "[240105#0A]", "[[foo_bar]]",
         "[[fooXbar]]", "[@rid2]", "[#gid3]", "[@rid2]"]


def gen_page(rng, n_items, with_ids=False):
    lines = ["# Page %s" % rng.choice(["", "#home", "@work +foo"]), ""]
    for i in range(n_items):
        kind = rng.choice(["-", "-", "o", "o", "x", "~", "<", ">"])
        pr = (" P%d" % rng.randint(0, 9)) if kind != "-" and rng.random() < 0.7 else ""
        ws = ["plain"]
        if rng.random() < 0.3:
            ws.insert(0, "2312%02d#%s%02d" % (rng.randint(1, 28), rng.choice("ABCDEFGH"), rng.randint(0, 99)))
            if rng.random() < 0.4:
                ws.insert(0, "2401%02d" % rng.randint(1, 28))
        for _ in range(rng.randint(1, 5)):
            r = rng.random()
            if r < 0.4:
                ws.append(rng.choice(BODY_WORDS))
            elif r < 0.6:
                s = rng.choice(list(TAGS)); ws.append(s + rng.choice(TAGS[s]))
            elif r < 0.78:
                k, vs = rng.choice(PROPS); ws.append("%s::%s" % (k, rng.choice(vs)))
            else:
                ws.append(rng.choice(LINKS))
        if with_ids and i < 4:
            ws.append(["ID::gid1", "RID::rid1", "ID::gid2", "ID::gid3 RID::rid2"][i])     # one note owns both an ID and an RID
        lines.append("%s%s %s" % (kind, pr, " ".join(ws)))
        if rng.random() < 0.25:
            lines.append("")
    return "\n".join(lines) + "\n\n"


def gen_dir(rng):
    files = {"target.zo": gen_page(rng, 5, with_ids=True), "foo_bar.zo": gen_page(rng, 4), "fooXbar.zo": gen_page(rng, 3),
             "sub/bar.zo": gen_page(rng, 4), "sub/foo.zo": gen_page(rng, 3), "Zed.zo": gen_page(rng, 3)}
    files["target.zo"] = files["target.zo"].replace("\n\n", "\n\n- 240105#0A the zid target note\n", 1)
    # every directory has notes that reach the target page through each kind of indirection (page link, anchor, the ID,
    # the RID of the note that owns BOTH an ID and an RID, the RID-only note, the ZID)
    files["Zed.zo"] += ("- 240106#Z1 via page [[target]]\n- 240106#Z2 via anchor [[target#sec]]\n- 240106#Z3 via id [#gid3]\n"
                        "- 240106#Z4 via rid of the id-owner [@rid2]\n- 240106#Z5 via rid [@rid1]\n- 240106#Z6 via zid [240105#0A]\n"
                        "- 240106#Z7 via nothing [[targetX]]\n\n")
    return files


def read_index(d):
    con = sqlite3.connect(os.path.join(d, ".zorg", "zorg.db"))
    notes = []
    for (nid, body, line, zid, cd, md, prio, status, block, page) in con.execute(
            "select id, body, line_no, zid, create_date, modify_date, todo_priority, todo_status, block_id, page_path from note order by id"):
        def names(link, tbl, col):
            return [r[0] for r in con.execute("select t.name from %s l join %s t on t.id = l.%s where l.note_id = ?" % (link, tbl, col), (nid,))]
        props = [[r[0], r[1]] for r in con.execute(
            "select p.name, l.value from propertylink l join property p on p.id = l.prop_id where l.note_id = ?", (nid,))]
        notes.append([nid, zid or "", page, body, cd, md, [prio] if prio else None, [STATUS[status]] if status else None,
                      names("arealink", "area", "area_id"), names("contextlink", "context", "context_id"),
                      names("personlink", "person", "person_id"), names("projectlink", "project", "project_id"),
                      names("linklink", "link", "link_id"), props])
    con.close()
    return notes


def af_to_sexp(a):
    o = lambda x: [x] if x is not None else None
    return [a["kinds"], a["areas"], a["contexts"], a["people"], a["projects"],
            [[r[0], o(r[1])] for r in a["creates"]], [[r[0], o(r[1])] for r in a["modifies"]],
            [[p[0], p[1], p[2], p[3], p[4]] for p in a["props"]],
            [[x[0], o(x[1]), x[2]] for x in a["descs"]], [[f[0], f[1]] for f in a["files"]], [[l[0], l[1]] for l in a["links"]],
            a["prios"], [[af_to_sexp(x) for x in oo] for oo in a["ors"]]]


# ---- Spec: the property sentence, three-valued (None = the statement does not say) ----
def glob_match(pat, s):
    rx = "".join(".*" if c == "*" else re.escape(c) for c in pat)
    return re.fullmatch(rx, s, re.S) is not None


def typed(v, vt):
    if vt == "DATE":
        if re.fullmatch(r"\d{4}-\d\d-\d\d", v):
            try:
                return dt.date.fromisoformat(v)
            except ValueError:
                return None
        return None
    if vt == "INTEGER":
        return int(v) if re.fullmatch(r"-?\d+", v) else None
    return v


def from_date_spec(v, today):
    from dateutil.relativedelta import relativedelta
    if re.fullmatch(r"\d{6}", v):
        return dt.datetime.strptime("20" + v, "%Y%m%d").date()
    if re.fullmatch(r"\d{4}-\d\d-\d\d", v):
        return dt.date.fromisoformat(v)
    m = re.fullmatch(r"(-?)(\d+)([dmy])", v.lower())
    n = int(m.group(2)); delta = {"d": dt.timedelta(days=n), "m": relativedelta(months=n), "y": relativedelta(years=n)}[m.group(3)]
    return today - delta if m.group(1) else today + delta


def sat_and(ix, n, a, today):
    """-> True / False / None"""
    res = []
    def add(b):
        res.append(b)
    nid, zid, page, body, cd, md, prio, status, areas, contexts, people, projects, links, props = n
    if a["kinds"]:
        add((status[0] if status else "-") in a["kinds"])
    if a["prios"]:
        add(bool(prio) and prio[0] in a["prios"])
    for names, have in ((a["areas"], areas), (a["contexts"], contexts), (a["people"], people), (a["projects"], projects)):
        for nm in names:
            add((nm[1:] not in have) if nm.startswith("-") else (nm in have))
    for key, d in (("creates", cd), ("modifies", md)):
        for s, e in a[key]:
            add(s <= d <= (e or s))
    for key, val, op, vt, neg in a["props"]:
        vals = [v for k, v in props if k == key]
        if op == "EXISTS":
            add((not vals) if neg else bool(vals))
            continue
        fv = from_date_spec(val, today) if vt == "DATE" else typed(val, vt)
        tv = [typed(v, vt) for v in vals]
        if any(t is None for t in tv):
            add(None)          # the note's value is not well-typed for the filter's value type
            continue
        cmp = {"EQ": lambda x: x == fv, "LT": lambda x: x < fv, "LE": lambda x: x <= fv, "GT": lambda x: x > fv, "GE": lambda x: x >= fv}[op]
        if len(tv) > 1:
            add(None)
        elif not tv:
            add(False)                         # negated or not, the property must exist
        else:
            add((not cmp(tv[0])) if neg else cmp(tv[0]))
    for val, cs, neg in a["descs"]:
        sens = cs if cs is not None else (not val.islower())
        hit = (val in body) if sens else (val.lower() in body.lower())
        add((not hit) if neg else hit)
    for g, neg in a["files"]:
        hit = glob_match(g, page)
        add((not hit) if neg else hit)
    for link, neg in a["links"]:
        owned = [m for m in ix if m[2] == link + ".zo"]
        ind = ["global:" + v for m in owned for k, v in m[13] if k == "ID"] + ["ref:" + v for m in owned for k, v in m[13] if k == "RID"] + \
              ["zid:" + m[1] for m in owned]
        hit = any(l == link or l.startswith(link + "#") or l in ind for l in links)
        add((not hit) if neg else hit)
    for o in a["ors"]:
        r = sat_or(ix, n, o, today)
        add(r)
    if not res:
        return None
    if any(r is False for r in res):
        return False
    if any(r is None for r in res):
        return None
    return True


def sat_or(ix, n, o, today):
    rs = [sat_and(ix, n, a, today) for a in o]
    if any(r is True for r in rs):
        return True
    if any(r is None for r in rs):
        return None
    return False


def triggers(a):
    """Known-finding classes an and-filter (recursively) falls into."""
    t = set()
    for val, cs, neg in a["descs"]:
        sens = cs if cs is not None else (not val.islower())
        if sens and "_" in val:
            t.add("desc_cs_underscore")
        if not sens and "%" in val:
            t.add("desc_ci_percent")
        if "\\" in val:
            t.add("desc_backslash")
    for g, neg in a["files"]:
        if "_" in g or "%" in g:
            t.add("file_glob_wildcard")
    for l, neg in a["links"]:
        if neg:
            t.add("negated_link")
        if "_" in l or "%" in l:
            t.add("link_wildcard")
    if not any(a[k] for k in ("kinds", "prios", "areas", "contexts", "people", "projects", "creates", "modifies", "props", "descs",
                              "files", "links", "ors")):
        t.add("empty_and_filter")
    for o in a["ors"]:
        for x in o:
            t |= triggers(x)
    return t


EXTRA_ATOMS = ['c"a_b"', '"a_b"', "'100%'", '"path\\to"', "f=foo_bar", "f=foo*", "f=*bar", "f=sub/*", "![[target]]", "[[target]]", "[[foo_bar]]",
               "![[sub/bar]]", "[[sub/bar]]", "due:<2024-06-01", "!due:<2024-06-01", "due:0d", "due:>=-30d", "k:>7", "k:007", "!k:42", "k:<=42",
               "ab_c:P3", "ab_c:>1200", "foo:2031-12-31", "!due:*", "due:*", "c'Foo'", "'foo'", "'FOO'", '!"foo"', "^231201:240201", "$240101:240131",
               "P3-1", "@home", "!@home", "!#work", "!#home", "!%bob", "!@work", "!+home", "#work", "%home", "#a1", "+proj_x", "%x9", "k:val", "k:>val", "!k:>=x9"]


# several text atoms in one AND-group: case-sensitive (upper case / c'..'), case-insensitive, negated, in every order
TEXT_ATOMS = ['"Foo"', '!"Foo"', '"Bar"', '!"Bar"', "c'foo'", "!c'foo'", "c'bar'", "!c'bar'", "'FOO'", "!'FOO'", "'foo'", "!'bar'",
              '"plain"', "!c'done'", "'x9'", '!"a_b"', "c'a-b'", '!"(p)"']


# a parenthesised group with ONE alternative next to atoms of the same sort: the group is a conjunct (intersection).
# Each with the structure its TEXT denotes (what the property is about), written by hand.
def _af(**kw):
    a = querygen.empty_af()
    for k, v in kw.items():
        a[k] = v
    return a


GROUPED = [
    ("o (x)", [_af(kinds={"o"}, ors=[[_af(kinds={"x"})]])]),
    ("(o) (x)", [_af(ors=[[_af(kinds={"o"})], [_af(kinds={"x"})]])]),
    ("P0-2 (P2-3)", [_af(prios={"P0", "P1", "P2"}, ors=[[_af(prios={"P2", "P3"})]])]),
    ("- (o +foo)", [_af(kinds={"-"}, ors=[[_af(kinds={"o"}, projects={"foo"})]])]),
    ("o P1 (P1-3 o)", [_af(kinds={"o"}, prios={"P1"}, ors=[[_af(kinds={"o"}, prios={"P1", "P2", "P3"})]])]),
    ("(- | o) (o)", [_af(ors=[[_af(kinds={"-"}), _af(kinds={"o"})], [_af(kinds={"o"})]])]),
    ("o (o #home)", [_af(kinds={"o"}, ors=[[_af(kinds={"o"}, areas={"home"})]])]),
    ("x (x @work) | - (o)", [_af(kinds={"x"}, ors=[[_af(kinds={"x"}, contexts={"work"})]]), _af(kinds={"-"}, ors=[[_af(kinds={"o"})]])]),
    ("(P0-4) (P3-9) (o | x)", [_af(ors=[[_af(prios={"P0", "P1", "P2", "P3", "P4"})], [_af(prios={"P3", "P4", "P5", "P6", "P7", "P8", "P9"})],
                                        [_af(kinds={"o"}), _af(kinds={"x"})]])]),
    ("#home (#work)", [_af(areas={"home"}, ors=[[_af(areas={"work"})]])]),
    ("+foo | o (x (@home))", [_af(projects={"foo"}), _af(kinds={"o"}, ors=[[_af(kinds={"x"}, ors=[[_af(contexts={"home"})]])]])]),
    # quoted text whose first / last inner character is the OTHER quote: every character between the delimiters is text
    ("\"'foo'\"", [_af(descs={("'foo'", None, False)})]),
    ("!\"'foo'\"", [_af(descs={("'foo'", None, True)})]),
    ("'\"Bar\"'", [_af(descs={('"Bar"', None, False)})]),
    ("\"'foo\" o", [_af(kinds={"o"}, descs={("'foo", None, False)})]),
]
TEXT_AST = {}      # query text -> the structure the text denotes (for queries whose structure the generator knows)


def gen_query(rng, today):
    if rng.random() < 0.08:
        t, ast = rng.choice(GROUPED)
        TEXT_AST["W " + t] = [querygen.canon_af(a) for a in ast]
        return "W " + t
    if rng.random() < 0.15:
        atoms = rng.sample(TEXT_ATOMS, rng.randint(2, 3))
        if rng.random() < 0.3:
            atoms.append(rng.choice(EXTRA_ATOMS))
        rng.shuffle(atoms)
        t = " ".join(atoms)
        if rng.random() < 0.25:
            t = "(%s) | %s" % (t, rng.choice(TEXT_ATOMS))
        return "W " + t
    if rng.random() < 0.55:
        atoms = [rng.choice(EXTRA_ATOMS) for _ in range(rng.randint(1, 3))]
        if rng.random() < 0.3:
            atoms.append("(" + rng.choice(EXTRA_ATOMS) + " | " + rng.choice(EXTRA_ATOMS) + ")")
        t = " ".join(atoms)
        if rng.random() < 0.3:
            t += " | " + rng.choice(EXTRA_ATOMS)
        return "W " + t
    t, _ = querygen.gen_or(rng, today, 1)     # (the generator's own structure is not an exact reading of every atom: not used as spec)
    return "W " + t


def run(oc, tier, seed):
    rng = random.Random(seed)
    eng = lib.Engine()
    n_dirs, n_q = (2, 170) if tier == "quick" else (20, 600)
    oc.rule = ("indexes built by the real `db create` from generated directories (6 pages incl. foo_bar/fooXbar look-alikes, "
               "ID/RID/ZID targets, bodies with % _ \\ and mixed case, typed and ill-typed property values), read back from the raw "
               "SQLite rows; filters = every atom kind incl. negations, all operators and value types, literal %/_/\\ in text, "
               "globs, link indirection, nesting; compared: ZID set of repo.get_notes_by_query vs the model (SQL semantics) and "
               "vs the three-valued property-level spec; non-trivial = filter with >= 2 atoms or a sub-filter")
    from freezegun import freeze_time
    from zorg.service.compiler import build_zorg_query
    from zorg.storage.sql import SQLSession
    today = dt.date(*TODAY)
    for di in range(n_dirs):
        with Z.tmpdir("c03_") as d:
            write_tree(d, gen_dir(rng))
            with freeze_time(dt.datetime(*TODAY, 12)):
                Z.db_create(d)
                ix = read_index(d)
                queries = [c["q"] for c in (json.load(open(f)) for f in sorted(glob.glob(os.path.join(lib.VERIF, "corpus", "C03", "*.json"))))]
                queries += ["W [[target]]", "W [[target]] plain", "W ([[target]] | [[sub/bar]])", "W [[Zed]]"]
                for t, ast in GROUPED:         # in every run, each judged against the structure its text denotes
                    TEXT_AST["W " + t] = [querygen.canon_af(a) for a in ast]
                    queries.append("W " + t)
                queries += [gen_query(rng, today) for _ in range(n_q)]
                for q in queries:
                    oc.evaluations += 1
                    Z.fresh_process()
                    with quiet():
                        try:
                            query = build_zorg_query(q)
                        except Exception:  # noqa: BLE001
                            oc.count("query_compile_exception")
                            continue
                        cq = qc.canon_impl_query(query)
                        try:
                            with SQLSession(Path(d), Z.db_url(d)) as session:
                                impl = ["ok", sorted(n.zid for n in session.repo.get_notes_by_query(query.where))]
                        except Exception as e:  # noqa: BLE001
                            impl = ["exn", type(e).__name__]
                    w = cq["where"]
                    # the property is about the filter EXPRESSION: where the generator knows the structure the text denotes,
                    # the spec is evaluated on that structure, not on what the query compiler made of the text
                    w_text = TEXT_AST.get(q)
                    if w_text is not None and w is not None and w_text != w:
                        oc.count("compiled_filter_differs_from_text_structure")
                    w_spec = w_text if w_text is not None else w
                    m = eng.call("eval_where", list(TODAY), ix, [[af_to_sexp(a) for a in w]] if w is not None else None)
                    case = {"q": q, "dir": "generated(seed=%d,dir=%d)" % (seed, di)}
                    if m[0] == "oom":
                        oc.count("out_of_model")
                    corr_bad = m[0] != "oom" and [m[0], sorted(m[1]) if m[0] == "ok" else m[1]] != impl
                    if q.count(" ") >= 2:
                        oc.nontriv(q + str(di))
                    # spec
                    trig = set()
                    for a in (w_spec or []):
                        trig |= triggers(a)
                    bad, unexplained = None, False
                    if impl[0] != "ok":
                        bad = "raised %s" % impl[1]
                        unexplained = m[0] not in ("oom",) and m[0] == "ok"     # the SQL model answers, the code raises
                    elif w_spec:
                        model_set = set(m[1]) if m[0] == "ok" else None
                        for n in ix:
                            s = sat_or(ix, n, w_spec, today)
                            if s is None:
                                continue
                            if s != (n[1] in impl[1]):
                                # a known SQL defect is reproduced by the SQL model; a failing note on which the
                                # implementation also leaves the model is not explained by any known finding
                                new = model_set is not None and ((n[1] in model_set) != (n[1] in impl[1]))
                                if bad is None or (new and not unexplained):
                                    bad = "note %s %s but %s" % (n[1], "satisfies the filter" if s else "does not satisfy the filter",
                                                                 "is not returned" if s else "is returned")
                                    unexplained = new
                                if new:
                                    break
                    if bad and w_text is not None and w is not None and w_text != w:
                        unexplained = True      # the compiled filter is not the structure of the text: no SQL-level finding explains that
                        bad += " (the filter was compiled to a different structure than its text denotes)"
                    if bad:
                        t = sorted(trig)[0] if (trig and not unexplained) else None
                        oc.spec_fail.append((dict(case, index=ix), {"what": bad, "returned": impl[1]}, "exactly the satisfying notes", t))
                        if t:
                            oc.known_hit.setdefault(t, "%s: %s" % (q, bad))
                            oc.count("known_" + t)
                        else:
                            eng.close()
                            return
                    if corr_bad:
                        oc.corr_mismatch.append(("get_notes_by_query", dict(case, index=ix), impl, m))
                        eng.close()
                        return
                    if len(oc.samples) < 3:
                        oc.samples.append({"q": q, "returned": impl[1][:5] if impl[0] == "ok" else impl})
    eng.close()


def replay(path):
    import sys
    return lib.replay_by_rerun(sys.modules[__name__], "C03", path)
