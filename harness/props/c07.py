"""C07 — ZIDs unique, well-formed, recognised.  Model: coq/Model/Zid.v."""
import contextlib
import datetime as dt
import glob
import io
import json
import os
import random
import re
import shutil
import tempfile

from harness import lib

ASSUMPTIONS = [
    "SHA/JSON/file I/O of ZIDManager are modelled as an association list (the manager re-reads the file on every call)",
    "ANTLR lexers are not proved to implement maximal munch; both generated lexers are run on sampled ZIDs and all roll-over points",
    "recognition on recompilation is checked by running walk_zorg_page on pages carrying sampled ZIDs",
]


def impl_chain():
    from zorg.storage.sql._zid_manager import _get_next_id
    return _get_next_id


def lex_tokens(which, text):
    import antlr4
    if which == "file":
        from zorg.grammar.zorg_file.ZorgFileLexer import ZorgFileLexer as LX
    else:
        from zorg.grammar.zorg_query.ZorgQueryLexer import ZorgQueryLexer as LX
    names = {v: k for k, v in vars(LX).items() if isinstance(v, int) and re.fullmatch(r"[A-Z][A-Z0-9_]*|T__\d+", k)}
    lx = LX(antlr4.InputStream(text))
    lx.removeErrorListeners()
    toks = []
    while True:
        t = lx.nextToken()
        if t.type == antlr4.Token.EOF:
            break
        toks.append((names.get(t.type, str(t.type)), t.text))
    return toks


# the days only leap years have, month ends, century ends
LEAP_DAYS = [dt.date(2024, 2, 29), dt.date(2000, 2, 29), dt.date(2096, 2, 29), dt.date(2024, 12, 31), dt.date(2099, 12, 31), dt.date(2000, 1, 1)]


def run(oc, tier, seed):
    rng = random.Random(seed)
    eng = lib.Engine()
    nxt = impl_chain()
    oc.rule = ("(1) exhaustive: every suffix of the successor chain from '00' through _get_next_id vs the model's next_id; "
               "(2) random multi-date allocation histories through ZIDManager.get_next with a fresh manager before every "
               "call vs the model, plus uniqueness / shape on the implementation's own output; (3) both generated ANTLR "
               "lexers on sampled ZIDs and all roll-over points must give exactly one ZID token; (4) is_zid; (5) recompilation "
               "of pages carrying sampled ZIDs; non-trivial = roll-over steps, histories with >= 2 dates, 3-char ZIDs")
    # ---- (1) exhaustive successor chain --------------------------------
    chain, s = [], "00"
    while True:
        chain.append(s)
        try:
            s = nxt(s)
        except RuntimeError:
            break
        if len(chain) > 200000:
            oc.spec_fail.append(({"chain": "does not terminate"}, None, None, None))
            break
    impl_steps = {}
    for a, b in zip(chain, chain[1:]):
        impl_steps[a] = ["ok", b]
    impl_steps[chain[-1]] = ["exn", "RuntimeError"]
    model_steps = {}
    for i in range(0, len(chain), 4000):
        part = chain[i:i + 4000]
        r = eng.call("next_ids", part)
        for a, b in zip(part, r):
            model_steps[a] = b
    oc.evaluations += len(chain)
    oc.count("chain_len", len(chain))
    oc.exhaustive = True
    for a in chain:
        if impl_steps[a] != model_steps[a]:
            oc.corr_mismatch.append(("next_id", {"last_id": a}, impl_steps[a], model_steps[a]))
            break
        if len(a) != len(impl_steps[a][1]) or a.endswith("z"):
            oc.nontriv(("roll", a))
    # alphabet & shape on the implementation's own chain (spec)
    from zorg.storage.sql._zid_manager import _UNSUPPORTED_ZID_CHARS
    bad = [c for c in chain if not re.fullmatch(r"[0-9A-Za-z]{2,3}", c) or any(u in c for u in _UNSUPPORTED_ZID_CHARS)]
    if bad:
        oc.spec_fail.append(({"kind": "ill-formed suffix", "suffix": bad[0]}, bad[:5], "YYMMDD#XX[X] without look-alikes", None))
    if len(set(chain)) != len(chain):
        oc.spec_fail.append(({"kind": "suffix repeated in the chain"}, None, None, None))
    mchars = eng.call("zid_chars")
    ichars = "".join(sorted(set("".join(chain))))
    if "".join(sorted(mchars)) != ichars:
        oc.corr_mismatch.append(("alphabet", {}, ichars, mchars))
    # exhaustion: the property says all 135,252 suffixes are handed out
    n_alloc = len(chain) - 1   # get_next raises when the stored next suffix is the last of the chain
    oc.count("allocations_per_date", n_alloc)
    if len(chain) != 135252:
        oc.spec_fail.append(({"kind": "suffix space", "size": len(chain)}, len(chain), 135252, None))

    # ---- (2) histories -------------------------------------------------
    from zorg.storage.sql._zid_manager import ZIDManager
    n_hist = 60 if tier == "quick" else 1500
    rollover_starts = [c for c in ["0x", "0z", "zx", "zz", "00z", "0zz", "zzx", "zzz", "Hz", "9z", "Zz", "Yz", "0Y"] if c in set(chain)]
    for h in range(n_hist):
        d = tempfile.mkdtemp(prefix="c07_")
        try:
            dates = [rng.choice(LEAP_DAYS) if rng.random() < 0.12 else
                     dt.date(rng.choice([2024, 2000, 2099, 2031]), rng.randint(1, 12), rng.randint(1, 28))
                     for _ in range(rng.randint(1, 4))]
            store = {}
            for dd in dates:
                if rng.random() < 0.5:
                    store[dd.strftime("%Y%m%d")[2:]] = rng.choice(rollover_starts + [rng.choice(chain)])
            os.makedirs(os.path.join(d, ".zorg"))
            if store or rng.random() < 0.5:
                with open(os.path.join(d, ".zorg", "next_ids.json"), "w") as f:
                    json.dump(store, f)
            seq = [rng.choice(dates) for _ in range(rng.randint(1, 40))]
            got = []
            from pathlib import Path
            mgr = ZIDManager(Path(d))
            for dd in seq:
                if rng.random() < 0.6:
                    mgr = ZIDManager(Path(d))      # restart
                try:
                    got.append(mgr.get_next(dd))
                except RuntimeError:
                    got.append("EXN")
            final = json.load(open(os.path.join(d, ".zorg", "next_ids.json"))) if os.path.exists(
                os.path.join(d, ".zorg", "next_ids.json")) else {}
            keys = [dd.strftime("%Y%m%d")[2:] for dd in seq]
            r = eng.call("zid_hist", [[k, v] for k, v in store.items()], keys)
            oc.evaluations += 1
            case = {"store": store, "keys": keys}
            model_final = {k: v for k, v in r[1]}
            if got != r[0] or (final != model_final and not (not final and not model_final)):
                oc.corr_mismatch.append(("get_next history", case, [got, final], r))
            oks = [g for g in got if g != "EXN"]
            if len(set(oks)) != len(oks):
                oc.spec_fail.append((case, got, "no ZID returned twice", None))
            # the stored successor s of a date says that every suffix before s in the chain has been handed out: what
            # is handed out from then on lies at or after s, strictly increasing along the chain
            pos = {c: i for i, c in enumerate(chain)}
            last = {k: pos.get(v, 0) - 1 for k, v in store.items()}
            for k, g in zip(keys, got):
                if g == "EXN":
                    continue
                p_ = pos.get(g[7:], -1)
                if p_ <= last.get(k, -1):
                    oc.spec_fail.append((case, {"returned": g, "history": got},
                                         "a suffix at or before one already handed out for that date (stored successor %r) is never "
                                         "handed out again" % store.get(k, "00"), None))
                    break
                last[k] = p_
            for g in oks:
                if not re.fullmatch(r"\d{6}#[0-9A-Za-z]{2,3}", g) or any(u in g[7:] for u in _UNSUPPORTED_ZID_CHARS):
                    oc.spec_fail.append((case, g, "YYMMDD#XX[X] without look-alikes", None))
            if len(set(keys)) >= 2:
                oc.nontriv(case)
            if h < 2:
                oc.samples.append({"history": case, "returned": got})
        finally:
            shutil.rmtree(d, ignore_errors=True)

    # ---- (2b) one date carried through the whole two-character range into the three-character range, through the
    # real manager and its JSON file, restarted every 97 allocations: all distinct, all well-formed
    d = tempfile.mkdtemp(prefix="c07l_")
    try:
        from pathlib import Path
        os.makedirs(os.path.join(d, ".zorg"))
        day = dt.date(2024, 3, 9)
        n_long = 2750 if tier == "quick" else 8000
        seen, mgr = {}, ZIDManager(Path(d))
        for i in range(n_long):
            if i % 97 == 0:
                mgr = ZIDManager(Path(d))
            z = mgr.get_next(day)
            if z in seen or not re.fullmatch(r"240309#[0-9A-Za-z]{2,3}", z):
                oc.spec_fail.append(({"kind": "long run on one date", "allocation": i, "first_returned_at": seen.get(z)}, z,
                                     "every allocation on a date returns a new well-formed ZID", None))
                break
            seen[z] = i
        oc.evaluations += 1
        oc.count("long_run_allocations", len(seen))
    finally:
        shutil.rmtree(d, ignore_errors=True)

    # ---- (2c) more distinct dates than a year has days, then the early dates again: their counters must still be there
    d = tempfile.mkdtemp(prefix="c07d_")
    try:
        from pathlib import Path
        os.makedirs(os.path.join(d, ".zorg"))
        seen = {}
        start = dt.date(2023, 1, 1)
        days = [start + dt.timedelta(days=k) for k in range(400)]
        order = days[:3] * 2 + days + days[:5] + [days[399], days[0], days[200]]
        for i, day in enumerate(order):
            z = ZIDManager(Path(d)).get_next(day)
            if z in seen:
                oc.spec_fail.append(({"kind": "many dates", "allocation": i, "date": day.isoformat(), "first_returned_at": seen[z]}, z,
                                     "a ZID is never handed out twice, however many dates are in use", None))
                break
            seen[z] = i
        oc.evaluations += 1
        oc.count("many_dates_allocations", len(seen))
    finally:
        shutil.rmtree(d, ignore_errors=True)

    # ---- (3) lexers, (4) is_zid, (5) recompilation ---------------------
    from zorg.shared.dates import is_zid
    n_lex = 400 if tier == "quick" else len(chain)
    picks = [c for c in chain if c.endswith("z") or c.startswith("z") or len(c) == 3 and c.endswith("00")][:150]
    picks += rng.sample(chain, min(n_lex, len(chain)))
    if tier == "thorough":
        picks = chain
    for suf in picks:
        dd = (rng.choice(LEAP_DAYS) if rng.random() < 0.1 else
              dt.date(rng.choice([2000, 2024, 2069, 2099]), rng.randint(1, 12), rng.randint(1, 28)))
        z = dd.strftime("%Y%m%d")[2:] + "#" + suf
        oc.evaluations += 1
        for which in ("file", "query"):
            toks = lex_tokens(which, z)
            if toks != [("ZID", z)]:
                oc.spec_fail.append(({"kind": "lexer", "grammar": which, "zid": z}, toks, [["ZID", z]], None))
        iz = is_zid(z)
        mz = eng.call("is_zid", z) == "t"
        if iz != mz:
            oc.corr_mismatch.append(("is_zid", {"zid": z}, iz, mz))
        if not iz:
            oc.spec_fail.append(({"kind": "is_zid", "zid": z}, iz, True, None))
        if len(suf) == 3:
            oc.nontriv(("3char", suf))
    # is_zid correspondence on arbitrary strings
    pool = ["240101#00", "240101#000", "240101#0", "24010#000", "2401011#00", "240101_00", "24o101#00", "", "#", "240101#0000",
            "240101#ab", "abcdef#00", "999999#zz", "240101 #00"]
    for i in range(300):
        s = rng.choice(pool) if i < len(pool) * 2 else "".join(rng.choice("0123459#azZ _") for _ in range(rng.randint(0, 12)))
        if i < len(pool):
            s = pool[i]
        iz, mz = is_zid(s), eng.call("is_zid", s) == "t"
        oc.evaluations += 1
        if iz != mz:
            oc.corr_mismatch.append(("is_zid", {"zid": s}, iz, mz))
    # recompilation
    from pathlib import Path
    from zorg.service.compiler import walk_zorg_page
    n_pages = 6 if tier == "quick" else 60
    for p in range(n_pages):
        d = tempfile.mkdtemp(prefix="c07p_")
        try:
            sufs = rng.sample(chain, 6) + [rng.choice([c for c in chain if len(c) == 3]) for _ in range(3)]
            zids = []
            lines = ["# page", ""]
            for i, suf in enumerate(sufs):
                z = "%s#%s" % (rng.choice(["2405%02d" % rng.randint(1, 28), "240229", "000229", "241231", "000101"]), suf)
                zids.append(z)
                kind = rng.choice(["-", "o", "x P1", "o P5", "<", ">", "~"])
                md = rng.choice(["", "240601 ", "240229 ", "960229 "])
                lines.append("%s %s%s note number %d" % (kind, md, z, i))
            Path(d, "a.zo").write_text("\n".join(lines) + "\n")
            with contextlib.redirect_stdout(io.StringIO()), contextlib.redirect_stderr(io.StringIO()):
                page = walk_zorg_page(Path(d), Path("a.zo"))
            got = [n.zid for n in page.notes]
            oc.evaluations += 1
            if got != zids:
                oc.spec_fail.append(({"kind": "recompile", "page": "\n".join(lines)}, got, zids, None))
            oc.nontriv(("page", tuple(zids)))
        finally:
            shutil.rmtree(d, ignore_errors=True)

    # ---- corpus / known findings --------------------------------------
    for f in sorted(glob.glob(os.path.join(lib.VERIF, "corpus", "C07", "*.json"))):
        c = json.load(open(f))
        if c["kind"] == "is_zid":
            if is_zid(c["zid"]) != c["expect"]:
                oc.spec_fail.append((c, is_zid(c["zid"]), c["expect"], None))
        elif c["kind"] == "last_suffix":
            if n_alloc == 135251:
                oc.known_hit["last_suffix_never_allocated"] = "allocations per date = %d, suffix space = %d" % (n_alloc, len(chain))
    if n_alloc != 135252 and "last_suffix_never_allocated" not in oc.known_hit:
        oc.spec_fail.append(({"kind": "exhaustion", "allocations_per_date": n_alloc}, n_alloc, 135252, None))
    elif n_alloc == 135251:
        oc.spec_fail.append(({"kind": "exhaustion", "allocations_per_date": n_alloc}, n_alloc, 135252, "last_suffix_never_allocated"))
    eng.close()


def replay(path):
    payload = json.load(open(path))
    print(json.dumps(payload, indent=1)[:3000])
    oc = lib.Outcome("C07")
    run(oc, "quick", payload.get("seed", 1))
    bad = [f for f in oc.spec_fail if f[3] is None] or oc.corr_mismatch
    print("still failing" if bad else "passes now")
    return 1 if bad else 0
