"""C10 — note move.  Model: coq/Model/Move.v (line-level add/delete, hidden metadata, text form)."""
import datetime as dt
import glob
import json
import os
import random
import re
import shutil
from pathlib import Path

from harness import lib, fc
from harness.implrun import quiet, write_tree, read_tree
from harness import zdir as Z
from harness.props import c09

ASSUMPTIONS = [
    "the moved note is read from the index with the real repository (its body, kind, inherited tags and properties are inputs of the model)",
    "template initialisation of a missing destination is C16's; here a variable-free template is used",
]
TEMPLATE = "# tmpl header\n\n## New page from template\n\n"


def gen_dir(rng):
    files = {name: c09.gen_c09_page(rng, refs=True) for name in rng.sample(["alpha.zo", "beta.zo", "sub/gamma.zo"], 2)}
    # pages that mention other notes' ZIDs get patched after indexing (ZIDs are allocated by db create)
    files["empty_dest.zo"] = "# Header only\n"
    files["sections_dest.zo"] = "# Sections\n\n- 240302#00 top note\n\n" + "#" * 32 + " First\n\n- 240302#01 in first\n\n" + "=" * 24 + " Sub\n\no 240302#02 in sub\n"
    files["tmpl/new.zot"] = TEMPLATE
    # a destination that MENTIONS the ZID of a note that will be moved there (a mention is not the note)
    files["mention_dest.zo"] = "# Mentions\n\n- 240302#10 follow up on 240301#F1 once it is done\n- 240302#11 unrelated\n\n"
    # in every directory: a note whose own tags merely START like the tags it inherits (+p10 / +p1 ...), below an earlier
    # note whose three-character ZID extends its two-character one
    files["fixed.zo"] = ("# Fixed page +p1\n\n" + "#" * 32 + " Sec @work %bob #a\n\n- 240301#F1x extended zid earlier note\n"
                         "- 240301#F1 prefix tags +p10 @work_laptop %bobby #ab\n  * a bullet of it\n"
                         # the NAMES of the tags it inherits occur inside links and quotes only: they are no tags of the note
                         "- 240301#F2 names only in refs [#a] [@work] ([#a]), '%bob' \"+p1\"\n\n")
    return files


def note_info(d, zid):
    from zorg.service import note_utils
    Z.fresh_process()
    with quiet():
        n = note_utils.get_note_by_zid(Path(d), Z.db_url(d), zid)
    if n is None:
        return None
    tp = n.todo_payload
    return {"zid": zid, "body": n.body, "todo": [tp.priority, tp.status.value] if tp else None, "path": str(n.file_path),
            "line": n.line_no, "projects": list(n.projects), "areas": list(n.areas), "contexts": list(n.contexts),
            "people": list(n.people), "props": [[str(k), str(v)] for k, v in n.properties.items()]}


RELATIVE = [False]


def do_move(d, zid, dest, marker):
    from zorg.service import note_utils
    Z.fresh_process()
    # the second pattern matches EXISTING pages too: a template must never be written over an existing page
    existing = [n for n in ("alpha", "beta", "sections_dest", "empty_dest") if os.path.exists(os.path.join(d, n + ".zo"))]
    pm = {re.compile(r"^new/.*\.zo$"): Path("tmpl/new.zot"),
          re.compile(r"^(%s)(\.zo)?$" % "|".join(existing or ["-"])): Path("tmpl/new.zot")}
    # the destination as typed on the command line: relative to the notes directory (the process runs elsewhere) or absolute
    new_page = Path(dest) if RELATIVE[0] else Path(d) / dest
    with quiet():
        try:
            return note_utils.move_note(Path(d), Z.db_url(d), pm, zid=zid, new_page=new_page, note_type=marker)
        except Exception as e:  # noqa: BLE001
            return "exn:" + type(e).__name__


def compile_notes(text):
    r = fc.compile_text(text, dt.date(2024, 6, 1), False)
    return r


def check_move(eng, base, info, dest, marker, oc):
    """base: directory (indexed). Works on a scratch copy."""
    with Z.tmpdir("c10m_") as d2:
        shutil.rmtree(d2)
        shutil.copytree(base, d2)
        before = read_tree(d2)
        rc = do_move(d2, info["zid"], dest, marker)
        after = read_tree(d2)
    oc.evaluations += 1
    src = info["path"]
    dst = dest if "." in dest else dest + ".zo"
    case = {"zid": info["zid"], "src": src, "dst": dst, "marker": marker, "src_text": before.get(src), "dst_text": before.get(dst)}
    dst_before = before.get(dst)
    if dst_before is None and dst.startswith("new/"):
        import jinja2
        dst_before = jinja2.Environment().from_string(eng.call("build_body", TEMPLATE)).render()
    # ---- model
    ok = True
    if dst_before is None:
        model = ["rc1", None, None]
    else:
        text, dst2, src2 = eng.call("move", info["zid"], info["body"], [info["todo"]] if info["todo"] else None,
                                    [marker] if marker else None, info["projects"], info["areas"], info["contexts"],
                                    info["people"], info["props"], dst2src(before, src, dst, dst_before), dst_before)
        # same page: delete runs on the text add_note wrote
        if src == dst:
            r = eng.call("move", info["zid"], info["body"], [info["todo"]] if info["todo"] else None,
                         [marker] if marker else None, info["projects"], info["areas"], info["contexts"],
                         info["people"], info["props"], dst2, dst_before)
            src2 = r[2]
        model = ["rc0" if src2 else "rc1", dst2, src2[0] if src2 else None]
    impl_dst, impl_src = after.get(dst), after.get(src)
    if model[0] == "rc1" and dst_before is None:
        if rc != 1:
            oc.corr_mismatch.append(("move_note", case, {"rc": rc}, model))
            ok = False
        return ok
    exp_src = model[2] if model[2] is not None else (model[1] if src == dst else before.get(src))
    exp_dst = model[1] if src != dst else exp_src
    if (rc, impl_dst, impl_src) != ((0 if model[0] == "rc0" else 1), exp_dst, exp_src):
        oc.corr_mismatch.append(("move_note", case, {"rc": rc, "dst": impl_dst, "src": impl_src},
                                 {"rc": model[0], "dst": exp_dst, "src": exp_src}))
        ok = False
    # ---- spec, on the implementation alone
    if rc == 0 and src != dst:
        probs = []
        sl = before[src].split("\n")
        k = len(info["body"].split("\n"))
        want_src = "\n".join(sl[:info["line"] - 1] + sl[info["line"] - 1 + k:])
        trig = None
        if impl_src != want_src:
            if any((" %s " % info["zid"]) in l for l in sl[:info["line"] - 1]):
                trig = "zid_mentioned_earlier"
            probs.append(("source differs from original minus exactly the note's lines", trig))
        nb = lambda t: [l for l in t.split("\n") if l.strip()]
        a, b = nb(impl_dst), nb(dst_before)
        # the destination is its old non-blank lines with one contiguous block inserted
        m = len(a) - len(b)
        cut = next((i for i in range(len(b) + 1) if a[:i] + a[i + m:] == b), None) if m >= 0 else None
        note_lines = a[cut:cut + m] if cut is not None else None
        kept = b if cut is not None else None
        if dst_before and not dst_before.endswith("\n") and (note_lines is None or kept != b):
            probs.append(("destination lost lines", "dest_no_trailing_newline"))
        elif note_lines is None or kept != b:
            probs.append(("destination lines other than the inserted note changed", None))
        # recompile both pages
        ra, rb = compile_notes(impl_src), compile_notes(impl_dst)
        r0a, r0b = compile_notes(before[src]), compile_notes(dst_before)
        fine = lambda r: r["status"] == "ok" and not r["nerrors"]
        if all(fine(r) for r in (ra, rb, r0a, r0b)):
            z_before = sorted(n["zid"] or "" for n in r0a["notes"] + r0b["notes"])
            z_after = sorted(n["zid"] or "" for n in ra["notes"] + rb["notes"])
            if z_before != z_after and not probs:      # (a known finding loses / duplicates notes by itself)
                probs.append(("the set of notes (ZIDs) of the two pages changed: %s -> %s" % (z_before, z_after), None))
        if fine(rb):
            moved = [n for n in rb["notes"] if n["zid"] == info["zid"]]
            if len(moved) == 1 and not any(t is None for _, t in probs):
                m = moved[0]
                want_kind = marker or (info["todo"][1] if info["todo"] else "-")
                got_kind = m["todo"][1] if m["todo"] else "-"
                if got_kind != want_kind:
                    probs.append(("moved note has kind %r, requested %r" % (got_kind, want_kind), None))
                for key in ("projects", "areas", "contexts", "people"):
                    if not set(info[key]) <= set(m[key]):
                        probs.append(("moved note lost %s %s" % (key, sorted(set(info[key]) - set(m[key]))), None))
                for kk, vv in info["props"]:
                    if m["props"].get(kk) != vv:
                        probs.append(("moved note lost property %s::%s (now %r)" % (kk, vv, m["props"].get(kk)), None))
                        break
        # a known finding explains a problem only when both files are what the modelled (unchanged) code produces
        if not ok:
            probs = [(w, None) for w, _ in probs]
        # an unclassified problem is reported before a known one
        probs.sort(key=lambda wt: wt[1] is not None)
        for what, trig in probs[:1]:
            oc.spec_fail.append((case, {"what": what, "src_after": impl_src, "dst_after": impl_dst}, "C10", trig))
            if trig:
                oc.known_hit[trig] = "%s -> %s" % (info["zid"], dst)
                oc.count("known_" + trig)
            else:
                ok = False
    return ok


def dst2src(before, src, dst, dst_before):
    return before[src]


def run(oc, tier, seed):
    rng = random.Random(seed)
    eng = lib.Engine()
    n_dirs, n_moves = (2, 45) if tier == "quick" else (15, 200)
    oc.rule = ("indexed directories (2 generated pages with sections, multi-line notes, shared tags and properties, plus a "
               "header-only page, a page without trailing newline, a page with sections, a template); every move = (a note of "
               "the index, single- or multi-line) x destination in {other page, header-only, no-trailing-newline, sections "
               "page, missing page created from a template, missing without template, the source page itself} x marker in "
               "{none, x, ~}; pages mentioning the moved ZID in an earlier note are injected, and earlier notes whose 3-character ZID extends the moved 2-character one; compared: exit code and both "
               "files byte-for-byte with the model; spec on the implementation: source minus exactly the note's lines, "
               "destination lines unchanged, same ZIDs after recompiling, kind and metadata of the moved note; "
               "non-trivial = multi-line note or note with inherited metadata")
    for di in range(n_dirs):
        with Z.tmpdir("c10_") as d:
            write_tree(d, gen_dir(rng))
            from freezegun import freeze_time
            with freeze_time(dt.datetime(2024, 6, 1, 12)):
                Z.db_create(d)
            tree = read_tree(d)
            zids = []
            for p, t in tree.items():
                if p.endswith(".zo") and not p.startswith(".") and p != "no_newline.zo":
                    zids += re.findall(r"^(?:[-ox~<>] )(?:P\d )?(?:\d{6} )?(\d{6}#\w{2,3})(?= |$)", t, re.M)
            # mention a ZID in an earlier note of its own page (known finding) for a few notes
            for z in rng.sample(zids, min(2, len(zids))):
                info = note_info(d, z)
                if info and info["line"] > 4:
                    p = os.path.join(d, info["path"])
                    lines = open(p).read().split("\n")
                    for i in range(2, info["line"] - 1):
                        if re.match(r"[-ox~<>] ", lines[i]):
                            lines[i] += " see %s there" % z
                            break
                    open(p, "w").write("\n".join(lines))
            # an earlier note of the same page whose three-character ZID extends a two-character one
            # (240510#0A5 before 240510#0A): the allocator really hands these out after #zz
            for z in rng.sample(zids, min(3, len(zids))):
                info = note_info(d, z)
                if info and len(z) == 9 and not any((" %s " % z) in l for l in open(os.path.join(d, info["path"])).read().split("\n")[:info["line"] - 1]):
                    p = os.path.join(d, info["path"])
                    lines = open(p).read().split("\n")
                    ext = z + rng.choice("05Az")
                    if ext not in zids:
                        lines.insert(info["line"] - 1, "- %s extended zid note" % ext)
                        zids.append(ext)
                        open(p, "w").write("\n".join(lines))
            with freeze_time(dt.datetime(2024, 6, 1, 12)):
                Z.db_reindex(d)
            # a destination that is not indexed and lacks the final newline
            write_tree(d, {"no_newline.zo": "# No trailing newline\n\n- 240301#00 last line without newline"})
            dests = ["alpha", "beta.zo", "sub/gamma", "empty_dest", "no_newline", "sections_dest", "new/created", "missing/nowhere"]
            search_budget = 40
            forced = [("240301#F1", "sections_dest", None), ("240301#F1", "new/created", "x"), ("240301#F1", "empty_dest", "~"),
                      ("240301#F2", "sections_dest", None), ("240301#F2", "empty_dest", "x"),
                      ("240301#F1", "mention_dest", None), ("240301#F1", "fixed", "x"), ("240301#F2", "fixed", None)]
            for mv in range(n_moves):
                z = forced[mv][0] if mv < len(forced) else rng.choice(zids)
                info = note_info(d, z)
                if info is None:
                    continue
                dest = rng.choice(dests)
                marker = rng.choice([None, None, "x", "~"])
                if mv < len(forced):
                    dest, marker = forced[mv][1], forced[mv][2]
                RELATIVE[0] = rng.random() < 0.4
                ok = check_move(eng, d, info, dest, marker, oc)
                oc.count("dest_given_" + ("relative" if RELATIVE[0] else "absolute"))
                RELATIVE[0] = False
                if "\n" in info["body"] or info["projects"] or info["areas"] or info["props"]:
                    oc.nontriv((di, z, dest, marker))
                oc.count("dest_" + dest.split("/")[0].split(".")[0])
                if len(oc.samples) < 3:
                    oc.samples.append({"zid": z, "dest": dest, "marker": marker, "body": info["body"]})
                if not ok:
                    # a model/implementation difference: keep searching (bounded) for an input on which the
                    # property itself fails, so that the report carries a concrete replay
                    if any(f[3] is None for f in oc.spec_fail):
                        eng.close()
                        return
                    search_budget -= 1
                    if search_budget <= 0:
                        eng.close()
                        return
    eng.close()


def replay(path):
    import sys
    return lib.replay_by_rerun(sys.modules[__name__], "C10", path)
