"""C13 — re-running an interrupted index operation converges.
Model: coq/Model/World.v (effect ordering, crash_reindex); real crashes: a child process that
dies right before its k-th external effect, for EVERY k."""
import datetime as dt
import json
import os
import random
import re
import shutil
import subprocess
import sys
from concurrent.futures import ThreadPoolExecutor

from harness import lib, world as W
from harness.implrun import write_tree, read_tree
from harness import zdir as Z
from harness.props import c06

ASSUMPTIONS = [
    "a kill is simulated by os._exit in a fresh child process right before an external effect (opening a file for writing, "
    "Path.unlink, Session.commit); a committed SQLite transaction survives, an uncommitted one vanishes; file writes are atomic "
    "(the torn-write variant truncates the file at that point, thorough tier)",
    "the model's effects are coarser (one commit per page): real crash points inside remove_file_by_name are mapped to the "
    "number of completed per-page commits",
]
DAY = "2024-06-02"
CHILD = os.path.join(lib.HERE, "crash_child.py")


def child(d, cmd, crash_at, trace):
    p = subprocess.run([lib.PY, CHILD, d, cmd, str(crash_at), DAY, trace], stdout=subprocess.DEVNULL, stderr=subprocess.DEVNULL, timeout=300)
    return p.returncode


def scenario_dir(rng, base):
    """An indexed directory with pending work: new notes, edited notes, a new page."""
    from freezegun import freeze_time
    serial = [0]
    for k, n in ((1, 2), (2, 2), (3, 1)):
        write_tree(base, {c06.page_name(k): c06.page_text(k, n, serial)})
    # a page whose notes carry no tag, property or link of their own: removing it issues no commit of its own
    serial[0] += 2
    write_tree(base, {c06.page_name(5): "# page 5 #hv0\n\n- note%d r1\n- note%d r1\n\n" % (serial[0] - 1, serial[0])})
    # two pages with syntax errors, both accepted into the whitelist by the first run: a re-run must accept them again
    write_tree(base, {"a_broken.zo": "# broken one\n\n- a note with an [[unclosed link\n\n",
                      "zz_broken.zo": "# broken two\n\n- another ((unclosed\n\n"})
    with freeze_time(dt.datetime(2024, 6, 1, 12)):
        Z.db_create(base, update_whitelist=True)
    # ZIDs of the crash day already exist (an earlier, complete run on that day): a counter that starts over would
    # hand them out again
    c06.apply_real(base, ["addnote", 3], serial, None)
    with freeze_time(dt.datetime(2024, 6, 2, 12)):
        Z.db_reindex(base)
    ops = [["addnote", 1], ["editnote", 2, 0], ["newpage", 4, 2], ["addnote", 3], ["editnote", 1, 0]]
    rng.shuffle(ops)
    # every kind of pending work in every scenario (new notes on two pages, edited notes on two pages, a new page, an
    # edited note on the page without rows of its own); only the order varies
    applied = ops + [["editnote", 5, rng.randint(0, 1)]]
    for op in applied:
        c06.apply_real(base, op, serial, None)
    return ops, applied


def final_state(d):
    day = dt.date.fromisoformat(DAY)
    files = W.user_files(d)
    idx = W.key_notes(W.dump_index(d))
    comp = W.key_notes(W.compile_dir(d, day))
    return files, idx, comp


ZID_RE = re.compile(r"\b(\d{6})#\w{2,3}\b")


def normal_state(files, idx):
    """files and index with the ZID suffixes blanked (which suffix a note gets may depend on the crash point)"""
    nf = {p: ZID_RE.sub(r"\1#__", t) for p, t in files.items()}
    ni = {}
    for n in idx:
        m = dict(n)
        m["zid"] = ZID_RE.sub(r"\1#__", m["zid"] or "")
        m["body"] = ZID_RE.sub(r"\1#__", m["body"])
        ni.setdefault(n["page"], []).append(m)
    return nf, ni


def judge(d, orig_files, ref=None):
    """The property's clauses on the state after crash + re-run."""
    files, idx, comp = final_state(d)
    probs = []
    judge.ref_pages = set()
    if ref is not None:
        nf, ni = normal_state(files, idx)
        rf, ri = ref
        pages = {p for p in set(nf) | set(rf) if nf.get(p) != rf.get(p)} | {p for p in set(ni) | set(ri) if ni.get(p) != ri.get(p)}
        if pages:
            judge.ref_pages = pages
            p0 = sorted(pages)[0]
            a, b = (rf.get(p0) or "").split("\n"), (nf.get(p0) or "").split("\n")
            line = next(((x, y) for x, y in zip(a, b) if x != y), (None, None))
            probs.append("the state differs from the state after an uninterrupted run on %s (first differing line: uninterrupted %r, "
                         "after crash + re-run %r)" % (sorted(pages), line[0], line[1]))
    if any(n["zid"] is None for n in comp):
        probs.append("a note in a file has no ZID although the index was brought up to date")
    bad_pages = set()
    if idx != comp:
        only_idx = [n["zid"] for n in idx if n not in comp][:3]
        only_file = [n["zid"] for n in comp if n not in idx][:3]
        bad_pages = {n["page"] for n in idx if n not in comp} | {n["page"] for n in comp if n not in idx}
        probs.append("index and files disagree (only in index: %s, only in files: %s)" % (only_idx, only_file))
    judge.bad_pages = bad_pages
    zs = [n["zid"] for n in idx if n["zid"]]
    if len(zs) != len(set(zs)):
        probs.append("a ZID is assigned to two notes")
    # no user text lost: every original note body (without ZID/date words) is still present
    for p, t in orig_files.items():
        for l in t.split("\n"):
            m = re.match(r"- (?:\d{6} )?(?:\d{6}#\w{2,3} )?(note\d+.*)$", l)
            if m and p in files and m.group(1) not in files[p]:
                probs.append("user text lost from %s: %r" % (p, m.group(1)))
    return probs


def run_point(args):
    base, cmd, k, tmp = args
    d = os.path.join(tmp, "k%d" % k)
    shutil.copytree(base, d)
    tr = os.path.join(tmp, "trace%d" % k)
    rc1 = child(d, cmd, k, tr)
    rc2 = child(d, cmd, -1, tr + "b")
    return k, rc1, rc2, d


def explore(eng, oc, rng, cmd, tmp):
    base = os.path.join(tmp, "base")
    os.makedirs(base)
    ops = scenario_dir(rng, base)
    ops_applied = ops[1]
    ops = ops[1]
    orig = W.user_files(base)
    base_idx = W.dump_index(base)

    def has_own_rows(k):
        """the unchanged remove_file_by_name commits while removing a page only for property links and for tags that no
        note of another page carries"""
        name = c06.page_name(k)
        mine = [n for n in base_idx if n["page"] == name]
        others = [n for n in base_idx if n["page"] != name]
        for n in mine:
            if n["props"]:
                return True
            for f in ("areas", "contexts", "people", "projects"):
                if any(all(t not in o[f] for o in others) for t in n[f]):
                    return True
        return False
    # full trace of an uninterrupted run
    full = os.path.join(tmp, "full")
    shutil.copytree(base, full)
    tr = os.path.join(tmp, "trace_full")
    rc = child(full, cmd, -1, tr)
    trace = [l.split(" ", 2) for l in open(tr).read().strip().split("\n")]
    oc.count("%s_effects" % cmd, len(trace))
    ref_probs = judge(full, orig)
    rfiles, ridx, _ = final_state(full)
    ref = normal_state(rfiles, ridx)
    if rc != 0 or ref_probs:
        oc.spec_fail.append(({"cmd": cmd, "ops": ops, "crash_at": None}, {"rc": rc, "problems": ref_probs}, "uninterrupted run", None))
        return
    with ThreadPoolExecutor(16) as ex:
        results = list(ex.map(run_point, [(base, cmd, k, tmp) for k in range(1, len(trace) + 1)]))
    # hash-map write of reindex_database, and the write-backs after it
    for k, rc1, rc2, d in results:
        oc.evaluations += 1
        label, who = trace[k - 1][1], trace[k - 1][2].strip()
        before = trace[:k - 1]
        oc.nontriv((cmd, k, label, who))
        probs = judge(d, orig, ref)
        bad_pages = set(getattr(judge, "bad_pages", set())) | set(getattr(judge, "ref_pages", set()))
        if rc2 != 0:
            probs.insert(0, "the re-run failed (exit %d)" % rc2)
        trig = None
        if cmd == "reindex":
            order = sorted({o[1] for o in ops_applied if o[0] in ("editnote", "addnote", "newpage")})
            # the known window opens with the hash-map write that FOLLOWS the per-page commits of all changed pages
            # (an earlier write of the hash map is not part of the unchanged command)
            hash_written = any(l[1] == "write:.zorg/file_hash.json" and l[2].strip() == "_write_file_hash_to_disk" and
                               not any(x[2].strip() == "_update_zo_file" for x in trace[:i]) and
                               len([x for x in trace[:i] if x[1] == "commit" and x[2].strip() == "commit"]) >= len(order)
                               for i, l in enumerate(before))
            if hash_written:
                trig = "crash_after_hash_write"
            else:
                # a page whose edited note was stamped in the index is committed, its file not yet rewritten
                commits_done = len([l for l in before if l[1] == "commit" and l[2].strip() == "commit"])
                stamped_pages = sorted({o[1] for o in ops_applied if o[0] == "editnote"})
                order = sorted({o[1] for o in ops_applied if o[0] in ("editnote", "addnote", "newpage")})
                done_pages = order[:commits_done]
                names = {c06.page_name(p) for p in done_pages if p in stamped_pages}
                # the page being re-indexed when the kill came: notes removed so far were made durable by a commit INSIDE
                # remove_file_by_name (only pages with property links / tags of their own have such commits)
                last_page_commit = max([i for i, l in enumerate(before) if l[1] == "commit" and l[2].strip() == "commit"] or [-1])
                inner = [l for l in before[last_page_commit + 1:] if l[1] == "commit" and l[2].strip() == "remove_file_by_name"]
                pip = order[commits_done] if commits_done < len(order) else None
                partial = set()
                if inner and pip is not None and has_own_rows(pip):
                    partial = {c06.page_name(pip)}
                if (names | partial) and bad_pages <= (names | partial) and all("disagree" in x or "uninterrupted" in x for x in probs):
                    trig = "partial_removal_commit" if (bad_pages & partial) - names else "stamp_commit_before_writeback"
                    if (bad_pages & partial) and (bad_pages & names):
                        oc.known_hit.setdefault("stamp_commit_before_writeback", "killed before effect %d (%s in %s)" % (k, label, who))
        if probs:
            oc.spec_fail.append(({"cmd": cmd, "ops": ops, "crash_before_effect": k, "effect": label, "in": who,
                                  "trace": [" ".join(x).strip() for x in trace]}, probs[:3], "converges", trig))
            if trig:
                oc.known_hit.setdefault(trig, "killed before effect %d (%s in %s): %s" % (k, label, who, probs[0][:100]))
                oc.count("known_" + trig)
        shutil.rmtree(d, ignore_errors=True)
    if len(oc.samples) < 2:
        oc.samples.append({"cmd": cmd, "trace": [" ".join(x).strip() for x in trace]})


def run(oc, tier, seed):
    rng = random.Random(seed)
    eng = lib.Engine()
    n = 1 if tier == "quick" else 8
    oc.rule = ("EXHAUSTIVE over crash points: for an indexed directory with pending work (new notes, edited notes, a new page) "
               "every boundary between consecutive external effects (file opened for writing, unlink, SQL commit) of `db "
               "reindex` and of `db create` incl. their write-back events is hit by killing a child process right before the "
               "effect; the command is re-run; judged: re-run exits 0, every note has a ZID, index == recompiled files, no "
               "duplicate ZID, no user text lost, files and index equal to those after the uninterrupted run (ZID suffixes blanked); "
               "non-trivial = every crash point")
    for i in range(n):
        for cmd in ("reindex", "create"):
            with Z.tmpdir("c13_") as tmp:
                explore(eng, oc, rng, cmd, tmp)
            if any(f[3] is None for f in oc.spec_fail):
                eng.close()
                return
    oc.exhaustive = True
    # model correspondence: the abstract machine's crash theorem on the same shape
    m = eng.call("world_run", [[1, [0, [[None, 1, 0]]]], [2, [0, [[None, 1, 0]]]]],
                 [["create"], ["addnote", 1], ["editnote", 2, 0], ["crash", None, 1], ["reindex", None]])
    if [o[3] for o in m[-1]] != ["sync", "sync"]:
        oc.corr_mismatch.append(("world machine crash", {}, None, m[-1]))
    eng.close()


def replay(path):
    import sys
    return lib.replay_by_rerun(sys.modules[__name__], "C13", path)
