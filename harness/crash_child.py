"""Child process for C13: runs one index command and dies right before its k-th external effect.

usage: crash_child.py ZDIR create|reindex CRASH_AT YYYY-MM-DD TRACE_FILE
Effects: opening a file for writing (write_text / Path.open / open), unlink / remove, rename / replace, rmdir, Session.commit.
"""
import os
import sys

zdir, cmd, crash_at, day, trace = sys.argv[1], sys.argv[2], int(sys.argv[3]), sys.argv[4], sys.argv[5]
os.environ["PYTHONPATH"] = "/repo/src"
sys.path.insert(0, "/repo/src")
os.dup2(os.open(os.devnull, os.O_WRONLY), 2)
os.dup2(os.open(os.devnull, os.O_WRONLY), 1)

import datetime as dt  # noqa: E402
import pathlib  # noqa: E402
import traceback  # noqa: E402

count = [0]
tf = os.open(trace, os.O_WRONLY | os.O_CREAT | os.O_APPEND)


def effect(label):
    count[0] += 1
    # innermost zorg frame (who performs the effect)
    who = "?"
    for fr in reversed(traceback.extract_stack()[:-2]):
        if "/zorg/" in fr.filename:
            who = fr.name
            break
    os.write(tf, ("%d %s %s\n" % (count[0], label, who)).encode())
    os.fsync(tf)
    if count[0] == crash_at:
        os._exit(99)


orig_open = pathlib.Path.open


def p_open(self, mode="r", *a, **k):
    if "w" in mode or "a" in mode or "+" in mode:
        rel = os.path.relpath(str(self), zdir)
        effect("write:" + rel)
    return orig_open(self, mode, *a, **k)


import builtins  # noqa: E402


def _rel(p):
    try:
        return os.path.relpath(os.fspath(p), zdir)
    except Exception:  # noqa: BLE001
        return str(p)


def _inside(p):
    try:
        return not _rel(p).startswith("..")
    except Exception:  # noqa: BLE001
        return False


# deletions and renames, whoever performs them (pathlib goes through these os functions)
for _name, _label in (("unlink", "unlink"), ("remove", "unlink"), ("rename", "rename"), ("replace", "rename"), ("rmdir", "rmdir")):
    def _mk(orig, label):
        def f(path, *a, **k):
            if _inside(path):
                effect("%s:%s" % (label, _rel(path)))
            return orig(path, *a, **k)
        return f
    setattr(os, _name, _mk(getattr(os, _name), _label))

# open(..., "w") that does not go through pathlib
orig_builtin_open = builtins.open


def b_open(file, mode="r", *a, **k):
    if isinstance(mode, str) and ("w" in mode or "a" in mode or "+" in mode or "x" in mode) and isinstance(file, (str, os.PathLike)) and _inside(file):
        effect("write:" + _rel(file))
    return orig_builtin_open(file, mode, *a, **k)


builtins.open = b_open
pathlib.Path.open = p_open

from sqlalchemy.orm import Session  # noqa: E402

orig_commit = Session.commit


def s_commit(self, *a, **k):
    effect("commit")
    return orig_commit(self, *a, **k)


Session.commit = s_commit

from freezegun import freeze_time  # noqa: E402
from zorg.domain.messages import commands  # noqa: E402
from zorg.service import messagebus  # noqa: E402

y, m, d = map(int, day.split("-"))
Z = pathlib.Path(zdir)
url = "sqlite:///%s/.zorg/zorg.db" % zdir
try:
    with freeze_time(dt.datetime(y, m, d, 12)):
        if cmd == "create":
            messagebus.handle(Z, url, [commands.CreateDBCommand(Z, update_error_file_whitelist=False)], should_delete_existing_db=True)
        else:
            messagebus.handle(Z, url, [commands.ReindexDBCommand(Z, paths=[])])
except SystemExit:
    raise
except BaseException:  # noqa: BLE001
    os._exit(3)
os._exit(0)
