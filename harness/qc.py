"""Running the real query compiler and exporting its parse tree."""
import datetime as dt

from harness.implrun import quiet
from harness.fc import tree_to_sexp


def canon_impl_af(af):
    from zorg.domain.types import PropertyOperator
    def rng_(s):
        return sorted([[r.start.isoformat(), r.end.isoformat() if r.end else None] for r in s], key=str)
    return {"kinds": sorted(k.value for k in af.allowed_note_types), "areas": sorted(af.areas), "contexts": sorted(af.contexts),
            "people": sorted(af.people), "projects": sorted(af.projects), "creates": rng_(af.create_date_ranges),
            "modifies": rng_(af.modify_date_ranges),
            "props": sorted([[p.key, p.value, p.op.name, p.value_type.name, p.negated] for p in af.property_filters], key=str),
            "descs": sorted([[d.value, d.case_sensitive, d.op.name == "NOT_CONTAINS"] for d in af.desc_filters], key=str),
            "files": sorted([[f.path_glob, f.negated] for f in af.file_filters], key=str),
            "links": sorted([[l.link, l.negated] for l in af.link_filters], key=str),
            "prios": sorted(af.priorities), "ors": [[canon_impl_af(a) for a in o.and_filters] for o in af.or_filters]}


def canon_impl_query(q):
    from zorg.domain.types import SelectAggregation, SelectPropertyValues
    def sel(s):
        if isinstance(s, SelectPropertyValues):
            return ["PV", s.key]
        return s.name
    s = q.select
    select = ["AGG", s.func_name, sel(s.select_type)] if isinstance(s, SelectAggregation) else sel(s)
    return {"select": select, "where": None if q.where is None else [canon_impl_af(a) for a in q.where.and_filters],
            "order": [o.name for o in q.order_by], "group": [g.name for g in q.group_by]}


def compile_query(text, today=dt.date(2024, 6, 1), want_tree=True):
    import antlr4
    from freezegun import freeze_time
    from zorg.grammar.zorg_query.ZorgQueryParser import ZorgQueryParser
    from zorg.service.compiler import _api
    captured = {}
    orig_walk = antlr4.ParseTreeWalker.walk

    def walk(self, listener, tree):
        if "tree" not in captured:
            captured["tree"] = tree
        return orig_walk(self, listener, tree)
    res = {"status": "ok", "query": None, "nerrors": None, "consumed": None, "tree": None}
    antlr4.ParseTreeWalker.walk = walk
    try:
        with quiet(), freeze_time(dt.datetime(today.year, today.month, today.day, 12)):
            q = _api.build_zorg_query(text)
        res["query"] = canon_impl_query(q)
    except Exception as e:  # noqa: BLE001
        res["status"] = type(e).__name__
        import traceback
        site = None
        for fr in traceback.extract_tb(e.__traceback__):
            if "/zorg/" in fr.filename and "/grammar/" not in fr.filename:
                site = fr.name
        res["site"] = site
    finally:
        antlr4.ParseTreeWalker.walk = orig_walk
    if "tree" in captured:
        tree = captured["tree"]
        p = tree.parser
        res["nerrors"] = p.getNumberOfSyntaxErrors()
        ts = p.getTokenStream()
        # everything consumed: the next token is EOF
        res["consumed"] = ts.LA(1) == -1
        if want_tree:
            res["tree"] = tree_to_sexp(tree, ZorgQueryParser)
    return res


def model_query(m):
    """sQuery sexp -> canonical dict"""
    def opt(x, f):
        return f(x[0]) if x else None
    def af(a):
        ki, ar, cx, pe, pj, cr, mo, pr, de, fi, li, ps, ors = a
        rr = lambda l: sorted([[r[0], opt(r[1], lambda y: y)] for r in l], key=str)
        return {"kinds": sorted(set(ki)), "areas": sorted(set(ar)), "contexts": sorted(set(cx)), "people": sorted(set(pe)),
                "projects": sorted(set(pj)), "creates": dedup(rr(cr)), "modifies": dedup(rr(mo)),
                "props": dedup(sorted([[p[0], p[1], p[2], p[3], p[4] == "t"] for p in pr], key=str)),
                "descs": dedup(sorted([[d[0], opt(d[1], lambda y: y == "t"), d[2] == "t"] for d in de], key=str)),
                "files": dedup(sorted([[f[0], f[1] == "t"] for f in fi], key=str)),
                "links": dedup(sorted([[l[0], l[1] == "t"] for l in li], key=str)),
                "prios": sorted(set(ps)), "ors": [[af(x) for x in o] for o in ors]}
    sel, where, order, group = m
    if isinstance(sel, list) and sel and sel[0] == "AGG":
        select = ["AGG", sel[1], sel[2]]
    else:
        select = sel
    return {"select": select, "where": opt(where, lambda w: [af(a) for a in w]), "order": order, "group": group}


def dedup(l):
    out = []
    for x in l:
        if x not in out:
            out.append(x)
    return out
