"""Translates the CURRENT source of a few pure helper functions of zorg into terms of the PyLite deep embedding
(coq/Lex/PyLite.v) -> coq/Gen/PySrc.v.  Fail-closed: any construct outside the supported fragment raises, so that
the build (and with it the check) reports that the source can no longer be related to the model.

Supported: def with positional parameters; assignments to a name (plain, annotated, += / -=); if / elif / else;
while; return; raise Name(...); expressions over names, str / int / bool / None constants, tuples, s[i], s[a:b],
len / abs / ord / chr, + and -, comparisons (== != < <= > >= in, not in, is, is not; one operator), and / or /
not, all(ch.isdigit() for ch in s), f-strings without format specs, calls to other translated functions, and
module-level tuple / str / int constants (inlined)."""
import ast
import importlib
import inspect
import textwrap

FUNCTIONS = [
    ("zorg.storage.sql._zid_manager", "_get_next_id"),
    ("zorg.shared.dates", "is_short_date_spec"),
    ("zorg.shared.dates", "is_zid"),
]


class Unsupported(Exception):
    pass


def coq_str(s):
    if not all(32 <= ord(c) < 127 for c in s):
        raise Unsupported("non-printable string constant %r" % s)
    return '(S "%s")' % s.replace('"', '""')


class Tr:
    def __init__(self, module, names):
        self.module = module
        self.names = names            # translated function names
        self.locals = set()

    def const(self, v):
        if v is None:
            return "ENone"
        if isinstance(v, bool):
            return "(EBool %s)" % ("true" if v else "false")
        if isinstance(v, int):
            return "(EInt (%d)%%Z)" % v
        if isinstance(v, str):
            return "(EStr %s)" % coq_str(v)
        if isinstance(v, tuple):
            return "(ETuple [%s])" % "; ".join(self.const(x) for x in v)
        raise Unsupported("constant %r" % (v,))

    def expr(self, e):
        if isinstance(e, ast.Constant):
            return self.const(e.value)
        if isinstance(e, ast.Name):
            if e.id in self.locals:
                return "(EVar %s)" % coq_str(e.id)
            if hasattr(self.module, e.id):
                return self.const(getattr(self.module, e.id))      # module-level constant, inlined
            raise Unsupported("name %s" % e.id)
        if isinstance(e, ast.Tuple):
            return "(ETuple [%s])" % "; ".join(self.expr(x) for x in e.elts)
        if isinstance(e, ast.Subscript):
            if isinstance(e.slice, ast.Slice):
                if e.slice.step is not None:
                    raise Unsupported("slice step")
                opt = lambda x: "None" if x is None else "(Some %s)" % self.expr(x)
                return "(ESlice %s %s %s)" % (self.expr(e.value), opt(e.slice.lower), opt(e.slice.upper))
            return "(EIndex %s %s)" % (self.expr(e.value), self.expr(e.slice))
        if isinstance(e, ast.UnaryOp):
            if isinstance(e.op, ast.USub):
                return "(ENeg %s)" % self.expr(e.operand)
            if isinstance(e.op, ast.Not):
                return "(ENot %s)" % self.expr(e.operand)
            raise Unsupported("unary %s" % type(e.op).__name__)
        if isinstance(e, ast.BinOp):
            op = {ast.Add: "EAdd", ast.Sub: "ESub"}.get(type(e.op))
            if not op:
                raise Unsupported("binary %s" % type(e.op).__name__)
            return "(%s %s %s)" % (op, self.expr(e.left), self.expr(e.right))
        if isinstance(e, ast.BoolOp):
            op = "EAnd" if isinstance(e.op, ast.And) else "EOr"
            vals = [self.expr(v) for v in e.values]
            out = vals[-1]
            for v in reversed(vals[:-1]):
                out = "(%s %s %s)" % (op, v, out)
            return out
        if isinstance(e, ast.Compare):
            if len(e.ops) != 1:
                raise Unsupported("chained comparison")
            op = {ast.Eq: "CEq", ast.NotEq: "CNe", ast.Lt: "CLt", ast.LtE: "CLe", ast.Gt: "CGt", ast.GtE: "CGe",
                  ast.In: "CIn", ast.NotIn: "CNotIn", ast.Is: "CIs", ast.IsNot: "CIsNot"}.get(type(e.ops[0]))
            if not op:
                raise Unsupported("comparison %s" % type(e.ops[0]).__name__)
            return "(ECmp %s %s %s)" % (op, self.expr(e.left), self.expr(e.comparators[0]))
        if isinstance(e, ast.JoinedStr):
            parts = []
            for v in e.values:
                if isinstance(v, ast.Constant):
                    parts.append(self.const(v.value))
                elif isinstance(v, ast.FormattedValue) and v.format_spec is None and v.conversion == -1:
                    parts.append(self.expr(v.value))
                else:
                    raise Unsupported("f-string part")
            return "(EFmt [%s])" % "; ".join(parts)
        if isinstance(e, ast.Call) and isinstance(e.func, ast.Name) and not e.keywords:
            f = e.func.id
            if f in ("len", "abs", "ord", "chr") and len(e.args) == 1:
                return "(%s %s)" % ({"len": "ELen", "abs": "EAbs", "ord": "EOrd", "chr": "EChr"}[f], self.expr(e.args[0]))
            if f == "all" and len(e.args) == 1 and isinstance(e.args[0], ast.GeneratorExp):
                g = e.args[0]
                if (len(g.generators) == 1 and not g.generators[0].ifs and isinstance(g.generators[0].target, ast.Name)
                        and isinstance(g.elt, ast.Call) and isinstance(g.elt.func, ast.Attribute) and g.elt.func.attr == "isdigit"
                        and isinstance(g.elt.func.value, ast.Name) and g.elt.func.value.id == g.generators[0].target.id
                        and not g.elt.args):
                    return "(EAllDigits %s)" % self.expr(g.generators[0].iter)
                raise Unsupported("generator expression")
            if f in self.names:
                return "(ECall %s [%s])" % (coq_str(f), "; ".join(self.expr(a) for a in e.args))
            raise Unsupported("call of %s" % f)
        raise Unsupported(type(e).__name__)

    def stmts(self, body):
        out = []
        for s in body:
            if isinstance(s, ast.Expr) and isinstance(s.value, ast.Constant) and isinstance(s.value.value, str):
                continue                                  # docstring
            if isinstance(s, ast.Pass):
                continue
            if isinstance(s, ast.Assign):
                if len(s.targets) != 1 or not isinstance(s.targets[0], ast.Name):
                    raise Unsupported("assignment target")
                v = self.expr(s.value)
                self.locals.add(s.targets[0].id)
                out.append("SAssign %s %s" % (coq_str(s.targets[0].id), v))
            elif isinstance(s, ast.AnnAssign):
                if not isinstance(s.target, ast.Name) or s.value is None:
                    raise Unsupported("annotated assignment")
                v = self.expr(s.value)
                self.locals.add(s.target.id)
                out.append("SAssign %s %s" % (coq_str(s.target.id), v))
            elif isinstance(s, ast.AugAssign):
                if not isinstance(s.target, ast.Name) or s.target.id not in self.locals:
                    raise Unsupported("augmented assignment target")
                op = {ast.Add: "EAdd", ast.Sub: "ESub"}.get(type(s.op))
                if not op:
                    raise Unsupported("augmented operator")
                out.append("SAssign %s (%s (EVar %s) %s)" % (coq_str(s.target.id), op, coq_str(s.target.id), self.expr(s.value)))
            elif isinstance(s, ast.If):
                c = self.expr(s.test)
                # both branches may assign: collect names conservatively
                t = self.stmts(s.body)
                f = self.stmts(s.orelse)
                out.append("SIf %s [%s] [%s]" % (c, "; ".join(t), "; ".join(f)))
            elif isinstance(s, ast.While):
                if s.orelse:
                    raise Unsupported("while-else")
                c = self.expr(s.test)
                b = self.stmts(s.body)
                out.append("SWhile %s [%s]" % (c, "; ".join(b)))
            elif isinstance(s, ast.Return):
                out.append("SReturn %s" % (self.expr(s.value) if s.value is not None else "ENone"))
            elif isinstance(s, ast.Raise):
                exc = s.exc
                if isinstance(exc, ast.Call):
                    exc = exc.func
                if not isinstance(exc, ast.Name):
                    raise Unsupported("raise")
                out.append("SRaise %s" % coq_str(exc.id))
            else:
                raise Unsupported(type(s).__name__)
        return out


def _prescan_locals(fn):
    names = {a.arg for a in fn.args.args}
    for n in ast.walk(fn):
        if isinstance(n, (ast.Assign,)):
            for t in n.targets:
                if isinstance(t, ast.Name):
                    names.add(t.id)
        elif isinstance(n, (ast.AnnAssign, ast.AugAssign)) and isinstance(n.target, ast.Name):
            names.add(n.target.id)
    return names


def translate():
    names = {f for _, f in FUNCTIONS}
    defs = []
    for modname, fname in FUNCTIONS:
        mod = importlib.import_module(modname)
        src = textwrap.dedent(inspect.getsource(getattr(mod, fname)))
        tree = ast.parse(src)
        fn = tree.body[0]
        if not isinstance(fn, ast.FunctionDef) or fn.args.vararg or fn.args.kwarg or fn.args.kwonlyargs or fn.args.defaults:
            raise Unsupported("signature of %s" % fname)
        tr = Tr(mod, names)
        tr.locals = _prescan_locals(fn)
        body = tr.stmts(fn.body)
        params = "; ".join(coq_str(a.arg) for a in fn.args.args)
        ident = "src_" + fname.lstrip("_")
        defs.append((ident, "Definition %s : fn :=\n  mkFn %s [%s]\n    [%s]." % (ident, coq_str(fname), params, ";\n     ".join(body))))
    out = ["(* GENERATED by harness/translate_py.py from /repo's current source - do not edit *)",
           "From Zorg Require Import Base.PyStr Lex.PyLite.", "From Coq Require Import ZArith.", ""]
    out += [d for _, d in defs]
    out.append("Definition src_fns : list fn := [%s]." % "; ".join(i for i, _ in defs))
    return "\n".join(out) + "\n"


if __name__ == "__main__":
    print(translate())
