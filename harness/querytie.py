"""The tie of the query theorem (C04_query_denotes_its_structure) to the code: on generated abstract queries,
tree_of_query equals the tree the real ANTLR parser builds for the query's text (implicit-literal token types
normalised), the text is well-formed (no syntax error, wholly consumed), and spec_query equals what the real
compiler returns (or both fail)."""
import datetime as dt
import re

from harness import aquery, qc


def _norm(t):
    if t[0] == "N":
        return ["N", t[1], [_norm(k) for k in t[3]]]
    ty = t[1]
    if ty == "LIT" or re.fullmatch(r"T__\d+", ty):
        ty = "LIT"
    return [t[0], ty] + list(t[2:])


def run(eng, rng, oc, n, todays):
    for _ in range(n):
        q = aquery.gen_query(rng)
        text = aquery.render(q)
        today = rng.choice(todays)
        r = qc.compile_query(text, dt.date(*today), True)
        oc.evaluations += 1
        case = {"query_text": text, "aquery": q, "today": list(today)}
        if r["nerrors"] or not r["consumed"]:
            oc.corr_mismatch.append(("generated abstract query is not a well-formed query text", case,
                                     {"nerrors": r["nerrors"], "consumed": r["consumed"]}, "well-formed"))
            return False
        ms = eng.call("query_spec", list(today), q)
        # the property itself on the implementation: the query compiles to the structure it denotes
        bad = None
        if ms[0] == "ok":
            want = qc.model_query(ms[1])
            if r["status"] != "ok":
                bad = {"exception": r["status"], "site": r.get("site")}
            elif r["query"] != want:
                bad = {"fields[denoted,compiled]": {k: [want[k], r["query"][k]] for k in want if want[k] != r["query"][k]}}
        elif r["status"] == "ok":
            bad = {"compiled": r["query"], "denoted": ms}
        if bad:
            oc.spec_fail.append((case, bad, "the query compiles to the structure it denotes (spec_query)", None))
            return False
        mt = _norm(eng.call("query_tree", q))
        if mt != _norm(r["tree"]):
            oc.corr_mismatch.append(("tree_of_query vs the ANTLR parse tree", case, "trees differ", "equal trees"))
            return False
        oc.count("theorem_queries")
        oc.count("theorem_query_depth_%d" % min(aquery.depth(q[2]) if q[0] == "where" else 0, 3))
        if q[0] == "where" and (aquery.depth(q[2]) >= 1 or len(q[2]) >= 2):
            oc.nontriv(text)
    return True
