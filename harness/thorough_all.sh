#!/bin/bash
# every thorough check once, sequentially (each uses the 16 cores itself); evidence restored afterwards
cd "$(dirname "$0")/.."
mkdir -p build/thorough
for p in ${1:-C18 C14 C16 C15 C17 C07 C04 C12 C01 C02 C08 C03 C09 C10 C05 C11 C06 C13}; do
  cp evidence/$p.json build/thorough/$p.ev 2>/dev/null
  s=$(date +%s)
  timeout 5400 ./check $p --tier thorough > build/thorough/$p.log 2>&1
  rc=$?
  echo "$p rc=$rc $(( $(date +%s) - s ))s $(grep -c VIOLATION build/thorough/$p.log)"
  cp evidence/$p.json build/thorough/$p.thorough.json 2>/dev/null
  cp build/thorough/$p.ev evidence/$p.json 2>/dev/null
done
