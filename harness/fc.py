"""Running the real file compiler and exporting its parse tree."""
import datetime as dt
import os
import tempfile
from pathlib import Path

from harness.implrun import quiet

_names = {}


def _tok_names(parser_cls):
    import re
    if parser_cls not in _names:
        _names[parser_cls] = {v: k for k, v in vars(parser_cls).items()
                              if isinstance(v, int) and re.fullmatch(r"[A-Z][A-Z0-9_]*|T__\d+", k)}
    return _names[parser_cls]


def tree_to_sexp(t, parser_cls):
    from antlr4.tree.Tree import ErrorNodeImpl, TerminalNodeImpl
    if isinstance(t, ErrorNodeImpl):
        return ["E", t.getText()]
    if isinstance(t, TerminalNodeImpl):
        ty = t.symbol.type
        return ["T", "EOF" if ty == -1 else _tok_names(parser_cls).get(ty, str(ty)), t.getText()]
    name = parser_cls.ruleNames[t.getRuleIndex()]
    line = t.start.line if t.start is not None else 0
    kids = [tree_to_sexp(c, parser_cls) for c in (t.children or [])]
    return ["N", name, line, kids]


def note_tuple(n):
    tp = n.todo_payload
    return {
        "body": n.body, "line": n.line_no,
        "areas": list(n.areas), "contexts": list(n.contexts), "links": list(n.links), "people": list(n.people),
        "projects": list(n.projects), "props": dict(sorted((str(k), str(v)) for k, v in n.properties.items())),
        "create": n.create_date.isoformat(), "modify": n.modify_date.isoformat(),
        "todo": [tp.priority, tp.status.value] if tp else None, "zid": n.zid,
    }


def compile_text(text, today=dt.date(2024, 6, 1), want_tree=True):
    """-> dict(status, has_errors, notes, nerrors, tree)"""
    import antlr4
    from freezegun import freeze_time
    from zorg.grammar.zorg_file.ZorgFileParser import ZorgFileParser
    from zorg.service import compiler as comp_pkg
    from zorg.service.compiler import _api
    captured = {}
    orig_walk = antlr4.ParseTreeWalker.walk

    def walk(self, listener, tree):
        if "tree" not in captured:
            captured["tree"] = tree
            captured["listener"] = listener
        return orig_walk(self, listener, tree)

    d = tempfile.mkdtemp(prefix="fc_")
    res = {"status": "ok", "has_errors": None, "notes": None, "nerrors": None, "tree": None, "texts": None}
    try:
        p = Path(d, "p.zo")
        p.write_bytes(text.encode("latin-1"))
        antlr4.ParseTreeWalker.walk = walk
        try:
            with quiet(), freeze_time(dt.datetime(today.year, today.month, today.day, 12, 0, 0)):
                page = _api.walk_zorg_page(Path(d), Path("p.zo"))
            res["has_errors"] = page.has_errors
            res["notes"] = [note_tuple(n) for n in page.notes]
            res["texts"] = [n.to_string() for n in page.notes]      # the real text form of the real Note objects
        except Exception as e:  # noqa: BLE001
            res["status"] = type(e).__name__
            import traceback
            site = None
            for fr in traceback.extract_tb(e.__traceback__):
                if "/zorg/" in fr.filename and "/grammar/" not in fr.filename:
                    site = fr.name
            res["site"] = site
        finally:
            antlr4.ParseTreeWalker.walk = orig_walk
        if "tree" in captured:
            tree = captured["tree"]
            res["nerrors"] = len(captured["listener"].error_manager.errors)
            if want_tree:
                res["tree"] = tree_to_sexp(tree, ZorgFileParser)
    finally:
        import shutil
        shutil.rmtree(d, ignore_errors=True)
    return res


def model_note(m):
    """sNote sexp -> same dict as note_tuple."""
    body, line, key, areas, contexts, links, people, projects, props, create, modify, todo, zid = m
    return {
        "body": body, "line": int(line), "areas": areas, "contexts": contexts, "links": links, "people": people,
        "projects": projects, "props": dict(sorted((k, v) for k, v in props)), "create": create, "modify": modify,
        "todo": list(todo[0]) if todo else None, "zid": zid[0] if zid else None,
    }
