"""Generator of well-formed SWOG query structures with their text and the Query they denote."""
import datetime as dt
import random

from dateutil.relativedelta import relativedelta

IDS = ["foo", "bar", "home", "work", "a1", "proj_x", "Zed", "x9", "due", "k", "ab_c"]
VALUES = ["val", "42", "2024-05-01", "1200", "P3", "240101#0A", "x9", "file", "Some_Value", "007", "2031-12-31"]
KIND_CHARS = "-ox~<>"
SEL_FIELDS = {"file": "FILE", "note": "NOTE", "prop": "PROPERTY", "links": "LINKS", "@": "CONTEXT", "#": "AREA", "+": "PROJECT", "%": "PERSON"}
GROUPS = {"file": "FILE", "section": "SECTION", "type": "NOTE_TYPE", "priority": "PRIORITY", "@": "CONTEXT", "#": "AREA",
          "%": "PERSON", "+": "PROJECT"}
ORDERS = {"alpha": "ALPHA", "create": "CREATE_DATE", "modify": "MODIFY_DATE", "priority": "PRIORITY", "type": "NOTE_TYPE", "none": "NONE"}
DEFAULT_ORDER = ["NOTE_TYPE", "PRIORITY", "MODIFY_DATE", "CREATE_DATE"]


def date_spec(rng, today):
    r = rng.random()
    if r < 0.35:
        d = dt.date(rng.randint(2000, 2099), rng.randint(1, 12), rng.randint(1, 28))
        return d.strftime("%Y%m%d")[2:], d
    n = rng.choice([0, 1, 2, 7, 28, 30, 31, 45, 365, 366, 12, 13, 24, 100])
    unit = rng.choice("dmy")
    neg = rng.random() < 0.4
    s = ("-" if neg else "") + str(n) + unit
    delta = {"d": dt.timedelta(days=n), "m": relativedelta(months=n), "y": relativedelta(years=n)}[unit.lower()]
    return s, (today - delta if neg else today + delta)


def kinds_atom(rng):
    n = rng.randint(1, 4)
    chars = []
    for _ in range(n):
        c = rng.choice(KIND_CHARS)
        if chars and chars[-1] in "ox" and c in "ox":
            c = rng.choice("-~<>")
        chars.append(c)
    return "".join(chars), set(chars)


def empty_af():
    return {"kinds": set(), "areas": set(), "contexts": set(), "people": set(), "projects": set(), "creates": set(),
            "modifies": set(), "props": set(), "descs": set(), "files": set(), "links": set(), "prios": set(), "ors": []}


def gen_and(rng, today, depth):
    af = empty_af()
    words = []
    for _ in range(rng.randint(1, 4)):
        r = rng.random()
        if r < 0.14:
            t, ks = kinds_atom(rng); words.append(t); af["kinds"] |= ks
        elif r < 0.26:
            a = rng.randint(0, 9)
            if rng.random() < 0.5:
                words.append("P%d" % a); af["prios"].add("P%d" % a)
            else:
                b = rng.randint(max(a, 1), 9)
                words.append("P%d-%d" % (a, b)); af["prios"] |= {"P%d" % i for i in range(a, b + 1)}
        elif r < 0.44:
            sym, key = rng.choice([("#", "areas"), ("@", "contexts"), ("%", "people"), ("+", "projects")])
            name = rng.choice(IDS)
            neg = rng.random() < 0.3
            words.append(("!" if neg else "") + sym + name); af[key].add(("-" if neg else "") + name)
        elif r < 0.54:
            head, key = rng.choice([("^", "creates"), ("$", "modifies")])
            s1, d1 = date_spec(rng, today)
            if rng.random() < 0.5:
                s2, d2 = date_spec(rng, today)
                words.append("%s%s:%s" % (head, s1, s2)); af[key].add((d1.isoformat(), d2.isoformat()))
            else:
                words.append("%s%s" % (head, s1)); af[key].add((d1.isoformat(), None))
        elif r < 0.68:
            neg = rng.random() < 0.25
            key = rng.choice(IDS)
            if rng.random() < 0.25:
                words.append(("!" if neg else "") + key + ":*"); af["props"].add((key, "", "EXISTS", "INTEGER", neg))
            else:
                op, opn = rng.choice([("", "EQ"), ("<", "LT"), ("<=", "LE"), (">", "GT"), (">=", "GE")])
                v = rng.choice(VALUES)
                vt = "DATE" if len(v) == 10 and v[4] == "-" else ("INTEGER" if v.isdigit() else "STRING")
                words.append(("!" if neg else "") + key + ":" + op + v); af["props"].add((key, v, opn, vt, neg))
        elif r < 0.78:
            neg = rng.random() < 0.25
            cs = rng.random() < 0.25
            q = rng.choice("'\"")
            body = " ".join(rng.choice(["foo", "Bar", "a-b", "x9", "50%", "e.g.", "a_b", "#tag", "(p)", "it" + ("\"" if q == "'" else "'") + "s"])
                            for _ in range(rng.randint(1, 3)))
            words.append(("!" if neg else "") + ("c" if cs else "") + q + body + q)
            af["descs"].add((body, True if cs else None, neg))
        elif r < 0.86:
            neg = rng.random() < 0.25
            g = rng.choice(["foo", "sub/foo", "*foo", "foo*", "*_foo", "a1/b/work*", "*x9*"])
            words.append(("!" if neg else "") + "f=" + g); af["files"].add((g if g.endswith("*") else g + ".zo", neg))
        elif r < 0.92:
            neg = rng.random() < 0.25
            l = rng.choice(["foo", "sub/bar", "Zed"])
            words.append(("!" if neg else "") + "[[" + l + "]]"); af["links"].add((l, neg))
        elif depth < 3:
            t, o = gen_or(rng, today, depth + 1)
            words.append("(" + t + ")"); af["ors"].append(o)
        else:
            words.append("o"); af["kinds"].add("o")
    return " ".join(words), af


def gen_or(rng, today, depth):
    parts = [gen_and(rng, today, depth) for _ in range(rng.choice([1, 1, 2, 3]))]
    return " | ".join(p[0] for p in parts), [p[1] for p in parts]


def canon_af(af):
    return {"kinds": sorted(af["kinds"]), "areas": sorted(af["areas"]), "contexts": sorted(af["contexts"]),
            "people": sorted(af["people"]), "projects": sorted(af["projects"]),
            "creates": sorted([list(x) for x in af["creates"]], key=str), "modifies": sorted([list(x) for x in af["modifies"]], key=str),
            "props": sorted([list(x) for x in af["props"]], key=str), "descs": sorted([list(x) for x in af["descs"]], key=str),
            "files": sorted([list(x) for x in af["files"]], key=str), "links": sorted([list(x) for x in af["links"]], key=str),
            "prios": sorted(af["prios"]), "ors": [[canon_af(a) for a in o] for o in af["ors"]]}


def gen_query(rng, today):
    parts = []
    select = "NOTE"
    r = rng.random()
    has_select = r < 0.55
    if has_select:
        f = rng.choice(list(SEL_FIELDS) + ["prop:key"])
        if f == "prop:key":
            k = rng.choice(IDS); ftxt = "prop:" + k; fsel = ["PV", k]
        else:
            ftxt, fsel = f, SEL_FIELDS[f]
        if rng.random() < 0.25:
            parts.append("S count(%s)" % ftxt); select = ["AGG", "count", fsel]
        else:
            parts.append("S " + ftxt); select = fsel
    where = None
    if rng.random() < 0.9 or not has_select:
        t, o = gen_or(rng, today, 0)
        parts.append("W " + t)
        where = [canon_af(a) for a in o]
    order, group = list(DEFAULT_ORDER), []
    otxt = gtxt = None
    if rng.random() < 0.5:
        ks = [rng.choice(list(ORDERS)) for _ in range(rng.randint(1, 3))]
        otxt = "O " + " ".join(ks); order = [ORDERS[k] for k in ks]
    if rng.random() < 0.5:
        if rng.random() < 0.15:
            gtxt = "G none"
        else:
            ks = [rng.choice(list(GROUPS)) for _ in range(rng.randint(1, 4))]
            gtxt = "G " + " ".join(ks); group = [GROUPS[k] for k in ks]
    tail = [x for x in ([otxt, gtxt] if rng.random() < 0.5 else [gtxt, otxt]) if x]
    return " ".join(parts + tail), {"select": select, "where": where, "order": order, "group": group}
