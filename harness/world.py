"""Helpers shared by the index-maintenance properties (C05, C06, C11, C13)."""
import datetime as dt
import json
import os
from pathlib import Path

from harness.implrun import quiet, read_tree, write_tree
from harness import zdir as Z


def page_tuples(page, rel):
    """Every note of a domain Page with its structural position, as plain data."""
    out = []
    h1s = list(page.h1s)
    if page.h0:
        h1s = [page.h0] + h1s

    def emit(section, chain):
        for block in section.blocks:
            # the index stores no block position: a block is identified by its first note's line
            bi = min([x.line_no for x in block.notes] or [0])
            for n in block.notes:
                tp = n.todo_payload
                out.append({
                    "page": rel, "line": n.line_no, "section": list(chain), "block": bi, "zid": n.zid,
                    "kind": tp.status.value if tp else "-", "prio": tp.priority if tp else None, "body": n.body,
                    "create": n.create_date.isoformat(), "modify": n.modify_date.isoformat(),
                    "areas": sorted(n.areas), "contexts": sorted(n.contexts), "people": sorted(n.people),
                    "projects": sorted(n.projects), "links": sorted(n.links),
                    "props": dict(sorted((str(k), str(v)) for k, v in n.properties.items())),
                })
    for h1 in h1s:
        emit(h1, [h1.title])
        for h2 in h1.h2s:
            emit(h2, [h1.title, h2.title])
            for h3 in h2.h3s:
                emit(h3, [h1.title, h2.title, h3.title])
                for h4 in h3.h4s:
                    emit(h4, [h1.title, h2.title, h3.title, h4.title])
    return out


def compile_dir(d, today):
    """Recompile every *.zo of the directory with the real compiler -> list of note dicts."""
    from freezegun import freeze_time
    from zorg.service.compiler import walk_zorg_page
    out = []
    with quiet(), freeze_time(dt.datetime(today.year, today.month, today.day, 12)):
        for p in sorted(Path(d).rglob("*.zo")):
            rel = str(p.relative_to(d))
            if rel.startswith("."):
                continue
            page = walk_zorg_page(Path(d), Path(rel))
            out.extend(page_tuples(page, rel))
    return out


def dump_index(d):
    """Every indexed note through the real repository (pages rebuilt from the SQL rows)."""
    import sqlite3
    from zorg.storage.sql import SQLSession
    from zorg.storage.sql import _models as sql
    from zorg.storage.sql._page_converters import PageConverter
    from sqlmodel import select
    Z.fresh_process()
    out = []
    with quiet():
        with SQLSession(Path(d), Z.db_url(d)) as session:
            conv = PageConverter(Path(d), session._session)
            for sp in session._session.exec(select(sql.Page)).all():
                page = conv.to_entity(sp)
                out.extend(page_tuples(page, str(page.path)))
    return out


def key_notes(notes):
    return sorted(notes, key=lambda n: (n["page"], n["line"], n["zid"] or ""))


def user_files(d):
    return {k: v for k, v in read_tree(d).items() if not k.startswith(".zorg")}


def stores(d):
    z = os.path.join(d, ".zorg")
    def rd(name):
        p = os.path.join(z, name)
        return open(p).read() if os.path.exists(p) else None
    fh = rd("file_hash.json")
    ni = rd("next_ids.json")
    return {"hashes": json.loads(fh) if fh else None, "next_ids": json.loads(ni) if ni else None,
            "whitelist": rd("error_file_whitelist.txt")}


def sha(text):
    import hashlib
    return hashlib.sha256(text.encode("latin-1")).hexdigest()
