"""Writes /verif/MANIFEST.json from the table below (kept valid at all times)."""
import json, os
HERE = os.path.dirname(os.path.abspath(__file__))
VERIF = os.path.dirname(HERE)

ALL = ["C%02d" % i for i in range(1, 19)]

CLAIMS = {
    "C13": dict(
        text=("Rocq proof over the effect-ordering model (abstract world machine with the external effects of a reindex in "
              "order: per-page commits, hash map, per-page file write-back and hash refresh): `db create` converges from any "
              "state a killed run can leave; `db reindex` killed after ANY number of its per-page commits (every boundary "
              "before the hash map is written) followed by a re-run leaves index and files in agreement with every note "
              "carrying its ZID; the window after the hash-map write is REFUTED by a witness (known finding). On every run "
              "the real commands are killed (os._exit in a child process) right before EVERY external effect - exhaustive "
              "over crash points (file opens for writing, removes, renames, commits) - re-run, and judged: exit 0, every note has a "
              "ZID, index == recompiled files, no duplicate ZID, no user text lost, files and index equal to those of the "
              "uninterrupted run (ZID suffixes blanked)."),
        note=("The machine abstracts compilation, SHA-256 and SQL; SQLite durability and atomic file writes are assumed; "
              "real crash points are finer than the model's (commits inside remove_file_by_name). Known findings: the "
              "window after the hash-map write; the stamp-commit-before-write-back window; commits inside remove_file_by_name "
              "(partial removal made durable)."),
        technique="Rocq proof (crash-state invariant on an effect-ordering model) + exhaustive real kill-and-rerun at every effect boundary",
        design="§5 C13"),
    "C06": dict(
        text=("Rocq proof over an abstract world machine (per page: file content, indexed page, content whose hash is "
              "stored; ZID supply an arbitrary parameter): for EVERY history of page edits (incl. new pages), day changes, "
              "`db create` and plain `db reindex` runs, of any length, a final plain reindex leaves the index equal to what "
              "the final files compile to - by induction on the history with the invariant 'the index reflects exactly the "
              "contents whose hashes are stored'; the clauses about deleted/renamed pages and explicit-path reindexes are "
              "REFUTED by witnesses (known findings). Tied to the code by running real histories and comparing, after every "
              "index command and per page, file existence, hash state, index state (vs a fresh compilation) and ZID-less "
              "notes with the machine; at the end the index and queries are compared with a fresh `db create`."),
        note=("The machine abstracts compilation, SHA-256 (identity on contents) and SQL storage; event-handler exceptions "
              "are assumed away. Known findings: deleted/renamed pages survive; explicit-path reindex + write-back hides edits."),
        technique="Rocq proof (invariant by induction over operation histories on an abstract world machine) + step-wise observational correspondence + fresh-rebuild spec check",
        design="§5 C06"),
    "C05": dict(
        text=("Rocq proof at PAGE level (C05_zids_written_into_page, C05_rewritten_page_notes): for every abstract page and every "
              "choice of a ZID per line, _update_zo_file with _add_zid_to_line, handed the (line, ZID) pairs of the ZID-less notes "
              "the page compiles to, rewrites the page's canonical text into the canonical text of the same page with each ZID in "
              "identity position - every other line and word untouched - and the rewritten page has the same notes on the same "
              "lines, each with its old ZID or the chosen one; tied to the code by running the real `db create` on generated "
              "abstract pages whenever the theorem's decidable hypotheses hold. On abstract items of any length (C05_zid_written_into_item): writing the ZID into the canonical "
              "text of a ZID-less item yields the canonical text of the item whose identity is that ZID, and "
              "(C05_index_body_is_file_body) the body the index stores is the body of the note the rewritten line compiles to "
              "(with the page theorem of C01: the rewritten page compiles to the same notes, now with their ZIDs). Line level: "
              "for items whose words are separated by single spaces the "
              "rewritten first line is 'prefix + ZID + rest' (after kind, after kind+priority, in place of a leading long "
              "date), the body the index stores equals the rest of the rewritten line, and _update_zo_file changes only the "
              "listed first lines (length and all other lines preserved); irregular spacing and a ZID-less item that starts with a "
              "modify date are REFUTED (known findings). "
              "Allocation order uses the proved ZID model (C07). On every run: `db create` on generated directories, files "
              "and next_ids.json byte-for-byte against the model, and on the implementation alone: all notes carry ZIDs, "
              "recompiled = indexed on every field incl. section path and block, only-ZID diffs, repeated create/reindex change nothing."),
        note=("PARTIAL: agreement index/files is differential (real compiler, real repository). SQL storage is not modelled. "
              "Dates restricted to 2000-2099."),
        technique="Rocq proof (line-rewriting lemmas via split/join round trip) + byte-exact correspondence + recompile-vs-index spec check",
        design="§5 C05"),
    "C11": dict(
        text=("Rocq proof at PAGE level (C11_dates_written_into_page): for every abstract page, date and set of lines, "
              "_update_zo_file with _add_or_update_modify_date rewrites the page's canonical text into that of the same page with "
              "the date in front of the ZID of exactly the items on those lines; tied to the code by the real `db reindex` on "
              "edited abstract pages. On abstract items (C11_date_written_into_item): stamping rewrites the canonical text of an item "
              "into that of the same item with identity 'modify date + ZID' (inserted or replaced), nothing else changes. "
              "Over the model of _check_for_modified_notes / _add_or_update_modify_date: a note is stamped IFF it "
              "had that ZID in the previous index state, its body or todo state differs, and it is not dated today; a note "
              "dated today is never re-stamped (idempotence), an unchanged note never; the date is inserted or replaces a "
              "six-digit word in front of the ZID; all other lines are untouched; the heuristic about the modify-date word is "
              "REFUTED twice (known finding). On every run: multi-day edit histories through the real `db reindex`, stamp "
              "decisions against the model, file lines, index vs recompiled files, immediate re-run."),
        note=("PARTIAL: the previous index state and compilation are the implementation's; SQL storage not modelled."),
        technique="Rocq proof (stamping iff, idempotence, line lemmas, refutation) + multi-day history correspondence and spec check",
        design="§5 C11"),
    "C03": dict(
        text=("Rocq proof relating the model of the generated SQL (LIKE with/without ESCAPE, casts, NOT IN, OR/AND "
              "composition, evaluated over the raw index rows as SQLite does) to the meaning the property gives, atom by "
              "atom, for atoms free of LIKE metacharacters: quoted text is smart-case literal containment on both code "
              "paths (LIKE '%lit%' = case-insensitive containment, by induction on the pattern), f= is a *-glob, a negated "
              "comparison keeps the existence requirement (flipped operator = negation, total string order), existence "
              "filters are exact complements, ranges are inclusive; lifted to WHOLE filters of any nesting "
              "(C03_whole_filter_is_its_reading, by induction over the filter tree: AND / OR / parentheses compose exactly "
              "as written) and to the result set (C03_where_returns_exactly_the_satisfying_notes); the unclean atoms are "
              "REFUTED by witnesses (7 known findings). Tied to the code by comparing repo.get_notes_by_query with the model on indexes built by the real "
              "`db create` (read back from the raw SQLite rows) over generated filters, plus a three-valued spec check."),
        note=("SQLite/SQLAlchemy are modelled, not verified; date() on exotic values is OutOfModel (counted). The filter "
              "structure comes from the real query compiler (C04)."),
        technique="Rocq proof (LIKE/containment, glob, comparison-flip lemmas; refutation witnesses) + SQL-semantics correspondence on raw index rows + three-valued spec check",
        design="§5 C03"),
    "C04": dict(
        text=("Rocq proof, END-TO-END ON THE LISTENER: for every abstract well-formed query (any number of and-groups and "
              "alternatives, parenthesised sub-filters nested to any depth, every modelled atom form - kind sets, Pn / Pn-m, "
              "negatable tags, create / modify ranges, property filters with every operator, link and file filters -, every "
              "S / O / G clause in either order) the model of ZorgQueryCompiler run on tree_of_query yields exactly the "
              "structure spec_query reads off the query (C04_query_denotes_its_structure; induction over the nesting with a "
              "stack invariant for the groups of and-filters). Atom texts: Pn / Pn-m denote exactly the priorities n..m for "
              "all 64 spellings, relative dates Nd/Nm/Ny (and the past form) equal day / month / year arithmetic for every "
              "N < 1000 on month ends, month arithmetic is exact with end-of-month clamping, years are 12 months; the CLI "
              "normalisation adds exactly `W ` / ` G file`. On every run: abstract queries of the theorem's domain - the text "
              "is well-formed, tree_of_query == the tree the real ANTLR parser builds, spec_query == the compiled Query; plus "
              "exhaustive atom forms and random richer queries (quoted text filters) against an independent reading and the "
              "listener model on the exported tree."),
        note=("PARTIAL: the ANTLR query parser is not modelled, so 'the parser builds tree_of_query for this text' is checked "
              "differentially on every run; quoted description filters are outside the abstract syntax (differential only)."),
        technique="Rocq proof (structure theorem by induction over nesting + denotation lemmas, finite-domain date/priority lemmas) + parse-tree / compiled-structure correspondence on the theorem's domain + spec check",
        design="§5 C04"),
    "C10": dict(
        text=("Rocq proof over the line-level model of FileManager.add_note/delete_note: deletion removes exactly "
              "len(body lines) lines starting at the FIRST line containing ' ZID ' and keeps every other line in order; "
              "insertion replaces exactly one line, which is blank whenever the page ends with a newline (induction on the "
              "scan), and (C10_added_below_the_last_item_paragraph) for EVERY page the note is written directly below the last "
              "paragraph that holds an item, the blank line after it, all other lines unchanged; both deviations of the full statement (ZID mentioned earlier, no trailing newline) are REFUTED by "
              "witnesses (known findings). Tied to the code by running the real note_utils.move_note on copies of indexed "
              "directories for sampled (note, destination, marker) triples and comparing exit code and both files "
              "byte-for-byte with the model (hidden metadata, text form, add, delete), plus spec clauses on the result."),
        note=("PARTIAL: the recompilation clause (same notes, metadata kept) is checked with the real compiler, not proved. "
              "The index lookup is the real repository's."),
        technique="Rocq proof (line-level add/delete lemmas, refutation witnesses) + byte-exact correspondence + recompilation spec check",
        design="§5 C10"),
    "C09": dict(
        text=("Rocq proof over the model of _group_notes_by/_order_notes_by/_select and the keyfuncs: for ANY grouping "
              "dimensions and ordering keys every selected note occurs exactly once under the leaves (permutation), sibling "
              "group labels are strictly increasing in the (proved total) string order and every note sits under the label "
              "equal to its own key, each leaf is a sorted permutation w.r.t. the joined ORDER BY key, count(x) is the length "
              "of selecting x, tag/key/value/link selections are duplicate-free with the same values; `O none` = path then "
              "line is REFUTED (known finding). Tied to the code by comparing swog.execute byte-for-byte with the model on "
              "the notes the real WHERE stage returned, over generated indexes and queries."),
        note=("Trusted: Coq kernel; extraction; harness. The WHERE stage is C03's; note extraction from the session and "
              "strftime are harness/CPython. Known finding: ORDER BY none compares 'path::line' as text."),
        technique="Rocq proof (permutation/sortedness of grouping tree, total string order) + byte-exact correspondence",
        design="§5 C09"),
    "C01": dict(
        text=("Rocq proof, END-TO-END ON THE LISTENER: for every abstract well-formed page (sections nested H1>H2>H3>H4 and H2 "
              "before the first H1, any number of blocks and items, every kind / priority / identity form (none, ZID, modify date + "
              "ZID, long creation date, modify date alone), any number of words "
              "of every modelled form incl. look-alike identifiers, digit-only tags, dates, ZIDs) the handler-by-handler model of "
              "ZorgFileCompiler, run on tree_of_page, returns an unflagged page whose notes are exactly spec_page in document "
              "order, each with its kind, priority, ZID, dates, body, line and metadata in scope "
              "(C01_page_yields_exactly_its_notes; induction over words, items, blocks, nested sections, a refinement from the "
              "60-handler state machine to a context-passing reading, plus a proof that document order = block-key order). "
              "The theorem's hypothesis is decidable (valid_pageb, proved sound). On every run, on generated abstract pages: "
              "valid_pageb holds, tree_of_page == the tree the real ANTLR parser builds, spec_page == what the real compiler "
              "returns; plus 672 exhaustive one-item pages and random richer pages (continuation lines, bullets, quoted words, "
              "URLs, in-block comments) against a property-level oracle and the listener model on the exported tree. The older "
              "per-handler theorems hold for ANY tree."),
        note=("PARTIAL: the ANTLR parser is not modelled, so 'the parser builds tree_of_page for this text' is checked "
              "differentially on every run, not proved; word forms outside the abstract syntax (quoted words, URLs, inline "
              "properties, multi-line items) are covered by the differential part only."),
        technique="Rocq proof (refinement of the listener state machine to a page reading, by induction over the page structure) + parse-tree / compiled-notes correspondence on the theorem's domain + spec check on richer pages",
        design="§5 C01"),
    "C02": dict(
        text=("Rocq proof: the page theorem (C02_scoping_on_pages, as C01) with spec_page reading metadata by scope - a note "
              "carries the tags/links of the title line, its enclosing headers and its own; a section's title metadata reaches "
              "its own blocks and sub-sections and not the siblings after it; properties are unioned outer to inner (innermost "
              "wins); create date = own > innermost dated scope > today - for every nesting and any number of sections. Plus, for "
              "every listener state and any tree: leaving a section clears its level, entering an item clears the note level, "
              "comments record nothing, digit-only tags are dropped. On every run: the tie of the theorem (as C01, with tag names "
              "shared across scopes) and an EXHAUSTIVE enumeration of every legal section skeleton up to 5 (quick) / 7 "
              "(thorough) headers with decorations on every scope against a property-level oracle and the listener model."),
        note=("PARTIAL as C01 (parser not modelled). Known finding: an inline property as the first word of a note or bullet adds a junk key."),
        technique="Rocq proof (page theorem + scoping lemmas) + exhaustive skeleton enumeration (spec check + listener correspondence) + tie on the theorem's domain",
        design="§5 C02"),
    "C08": dict(
        text=("Rocq proof by induction over ALL trees (recovered ones included): with parser errors no note is ever indexed "
              "(never a partial page), without errors the page is never flagged; the clauses 'never raises' and 'errors => "
              "flagged' are REFUTED by witnesses on trees exported from the real parser (known findings). The whitelist "
              "decisions of `db create` / `db reindex` are modelled (Whitelist.v) and proved: a flagged page not listed BY NAME "
              "is refused (any number of pages, any order), a directory whose flagged pages are all listed is accepted and the "
              "new whitelist is exactly the flagged pages. On every run: valid, damaged and arbitrary texts through the real "
              "compiler and the listener model, plus index scenarios (damage after create, reindex twice, create, whitelist, "
              "other broken pages whose names are fragments / extensions of the whitelisted one) with every decision and the "
              "resulting whitelist file compared with the model."),
        note=("Known findings: silent drop of broken pages without a recovered note, ValueError on invalid calendar dates, "
              "IndexError in the bullet scan, handler exceptions on recovered trees. ANTLR error recovery is not modelled."),
        technique="Rocq proof (tree induction: output invariants) + refutation witnesses + fuzzed correspondence + index scenarios",
        design="§5 C08"),
    "C12": dict(
        text=("Rocq proof for every abstract item whose words contain no white space: the text zorg emits for the note the "
              "item denotes (the model of Note.to_string applied to the note spec_page assigns) IS the canonical text of the "
              "item emit_form it - same kind, identity and words, priority spelled out unless done/cancelled - "
              "(C12_emitted_text_is_an_item); emit_form it is a valid item again, so the page theorem (C01) applies to every "
              "page containing it, and it reads as the same note: kind, ZID, body, tags, links, properties, dates, and the "
              "priority unless done/cancelled (C12_emitted_item_reads_as_the_same_note). Text-form lemmas and a machine-checked "
              "refutation on exported trees (done todo with a Pn-leading body). On every run: (a) generated items compiled, "
              "rendered with the real Note.to_string, recompiled and compared; (b) pages rendered ungrouped and recompiled; (c) "
              "the real db create -> swog.execute / refresh_zoq_file pipeline on indexed directories; (d) on abstract items: "
              "tidy holds, the model's canonical text is the text compiled, and the real to_string of the really compiled note "
              "equals the model's render_item (emit_form it)."),
        note=("PARTIAL: the parser (text -> tree) is not modelled, so the recompilation step is differential; items with "
              "continuation lines / bullets are outside the abstract syntax. Known finding: prefix re-interpretation for "
              "done/cancelled todos whose body starts with Pn."),
        technique="Rocq proof (emitted text = canonical text of an abstract item; same reading; refutation witness) + compile/to_string/recompile and real query-rendering round trips + tie on the theorem's domain",
        design="§5 C12"),
    "C17": dict(
        text=("Rocq proof over the model of run_action_open/_open_link (messages are an inductive with exactly EDIT, "
              "SEARCH, PROMPT, ECHO): several targets are offered in line order by one PROMPT, a single target is opened "
              "directly, option k (and -1) opens the k-th (last) target, and a line consisting of one link-like target or "
              "one ZID offers exactly that target; (C17_targets_of_an_item_line) on an item line - kind, any identity prefix, an "
              "ordinary word, then anything - the targets are exactly the link-like words and the ZIDs after that word, in "
              "order, and on query pages every ZID is a target; without the ordinary word the clause about non-primary ZIDs "
              "is refuted by a witness (known finding). Tied to the code by running the real `zorg action open` on generated lines in .zo and .zoq "
              "pages of an indexed directory, for every option index, against the model and an independent spec scan."),
        note=("Partial: target resolution against the index is modelled from the ID/RID/ZID rows the harness wrote "
              "(SQL lookups are not modelled); subprocess targets and query-line refresh are out of model."),
        technique="Rocq proof (option/prompt laws, single-target lemmas, refutation witness) + CLI correspondence and spec scan",
        design="§5 C17"),
    "C15": dict(
        text=("Rocq proof about the text-level model of expand_saved_queries: expansion terminates on every acyclic set "
              "of saved queries (rank argument, fuel = number of queries), a successful expansion implies every referenced "
              "saved query exists (a missing one is an error, never ignored), a brace-free query is unchanged, and a saved "
              "clause with alternatives is spliced in parentheses (after the fix in /repo). The semantic clause - the "
              "referencing query selects exactly surrounding AND saved - is decided on the implementation by executing the "
              "referencing query and the explicit parenthesised conjunction on an index and comparing the note sets."),
        note=("Partial: the conjunction clause is checked by differential execution, not proved (it needs the query "
              "compiler and WHERE models of C04/C03). Known finding: '|'-free clauses are spliced without parentheses, so "
              "note-type/priority atoms pool with the surrounding group."),
        technique="Rocq proof (termination by rank, error propagation, text-level lemmas) + differential execution for the semantic clause",
        design="§5 C15"),
    "C16": dict(
        text=("Rocq proof over the model of init_from_template with regex matching and jinja2 rendering as Section "
              "variables (oracles): an existing file is left identical unless overwrite is requested, nothing is written "
              "when no pattern matches and no template is named, the FIRST matching pattern's template body is rendered "
              "with vars | groupdict (date-like captures as dates), init twice = init once, and the body builder drops the "
              "header up to the first blank line. Tied to the code by running the real function (twice, one process) on "
              "generated configurations and comparing the whole directory with the model's plan rendered by jinja2."),
        note=("Trusted: Coq kernel; extraction; harness; `re` and jinja2 are oracles evaluated by the harness with the "
              "real libraries; file system modelled as a path->contents map."),
        technique="Rocq proof (decision logic with oracles as section variables) + whole-directory correspondence",
        design="§5 C16"),
    "C14": dict(
        text=("Rocq proof: for page names without '[', ']' and '#', the two successive str.replace calls of "
              "run_file_rename equal the one-pass reading of the property on every text (each [[A]] -> [[B]], each "
              "[[A# -> [[B#, every other character copied; unbounded text, induction on length with three "
              "non-interference lemmas), and a text without '[[A' is untouched. Tied to the code by running the real "
              "`zorg file rename` on generated directories and comparing every file byte-for-byte with model and spec."),
        note=("Trusted: Coq kernel; extraction; harness. Path.rename / rglob are modelled as a map over the listing; "
              "names relative to the zettel dir. An unterminated '[[A#' is read as the start of an anchored link."),
        technique="Rocq proof (string-level refinement of two replaces to a one-pass scanner) + byte-exact correspondence",
        design="§5 C14"),
    "C07": dict(
        text=("Rocq proof over the model of _get_next_id / ZIDManager.get_next / is_zid with the excluded characters "
              "and both lexer grammars REGENERATED from /repo on every run: no ZID is returned twice in any history of "
              "allocations on any dates (restarts are the identity: the manager re-reads its file), every suffix is 2-3 "
              "characters of the 51-character alphabet without look-alikes, the successor chain has exactly 135,252 "
              "members, every allocated ZID is accepted by is_zid and by the ZID lexer rule of both grammars while no "
              "higher-priority token rule matches it. The SOURCE of _get_next_id, is_short_date_spec and is_zid is translated "
              "on every run (harness/translate_py.py, fail-closed) into a deep embedding with an interpreter (Lex/PyLite.v): "
              "C07_source_successor_is_model proves that the source, as it is now, returns the model's successor on all "
              "135,252 suffixes and raises exactly where the model does, C07_source_is_zid_accepts that it accepts every "
              "allocatable shape - a change to those functions breaks these proof obligations directly. Also tied by an "
              "exhaustive comparison of all 135,252 successor steps against the running code, random multi-date histories "
              "with restarts, both generated ANTLR lexers and recompilation."),
        note=("Trusted: Coq kernel incl. vm_compute (finite-domain lemmas over 135,252 suffixes and 36,525 dates); scraper "
              "the .g4 translator and the Python-to-PyLite translator with the PyLite interpreter (its semantics of the "
              "fragment used is itself checked by the exhaustive comparison with the running code); ANTLR's maximal-munch lexing is tested, not proved; recompilation (enterId) is tested, "
              "its proof belongs to C01. Known finding: the last suffix zzz is never handed out (135,251 allocations)."),
        technique="Rocq proof (invariant over allocation histories; finite-domain lemmas by vm_compute; model REGENERATED from source: lexer rules, constants and the Python source of the ZID helpers via a deep embedding) + exhaustive correspondence",
        design="§5 C07"),
    "C18": dict(
        text=("Rocq proof: the executable model of expand_file_group_paths is sound and complete for the big-step "
              "reading of the property (paths stay, @groups are replaced in place and in order by their recursively "
              "expanded members), satisfies the concatenation law, terminates on every acyclic map, and substitutes "
              "today - i days; the model is tied to /repo by a differential run of the real function against the "
              "extracted model on generated acyclic maps on every run."),
        note=("Trusted: Coq kernel; extraction (ExtrOcamlBasic/ExtrOcamlString); the Python harness; pathlib.Path "
              "normalisation and str.format outside the modelled replacement fields are not modelled; freezegun."),
        technique="Rocq proof (soundness+completeness vs big-step spec, induction on fuel) + extracted-model correspondence",
        design="§5 C18"),
}

NOT_YET = "not claimed yet in this round: model/proof under construction (see DESIGN.md §10 build order)"


def main():
    checks = []
    for pid in ALL:
        if pid not in CLAIMS:
            continue
        c = CLAIMS[pid]
        checks.append({
            "property_id": pid,
            "quick_cmd": "./check %s --tier quick" % pid,
            "thorough_cmd": "./check %s --tier thorough" % pid,
            "evidence_file": "/verif/evidence/%s.json" % pid,
            "replay_cmd_template": "./check %s --replay {path}" % pid,
            "engine": "coq-extracted-engine",
            "level_claimed": {"category": "proof", "text": c["text"], "design_ref": c["design"]},
            "level_note": c["note"],
            "technique": c["technique"],
        })
    man = {
        "version": 1,
        "setup_cmd": "./setup.sh",
        "hooks": {
            "guard": "ZORG_VERIF",
            "enable": "no source hooks are needed: checks import zorg from /repo/src (PYTHONPATH=/repo/src) and wrap entry points from the harness process",
            "baseline_off_cmd": "cd /repo && /venv/bin/python -m pytest -ra -q -p no:cacheprovider --timeout=900 --continue-on-collection-errors",
            "source_commits": [],
            "add_only": True,
        },
        "engines": [{
            "name": "coq-extracted-engine",
            "path": "/verif/build/engine",
            "serves_properties": sorted(CLAIMS),
            "kind_free_text": "Gallina models and specs (coq/Model, coq/Props) extracted to OCaml with ExtrOcamlBasic+ExtrOcamlString; line-oriented S-expression protocol (ocaml/driver.ml); proofs checked by coqc on every run",
        }],
        "checks": checks,
        "notes": "All checks: ./check Cxx --tier quick|thorough; seeds from VERIF_SEED; known findings in known_findings.txt.",
        "not_applicable": [{"property_id": p, "reason": NOT_YET} for p in ALL if p not in CLAIMS],
    }
    with open(os.path.join(VERIF, "MANIFEST.json"), "w") as f:
        json.dump(man, f, indent=1)


if __name__ == "__main__":
    main()
