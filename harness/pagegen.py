"""Structured generator of well-formed .zo pages together with the notes the
property statements (C01, C02) say they contain.

A page is built from an abstract description; `render` gives the text and
`expected` the list of notes (kind, priority, body, line, zid, dates, tags,
links, properties) computed from the description alone."""
import datetime as dt
import random
import re

KINDS = ["-", "o", "x", "~", "<", ">"]
DEFAULT_PRIORITY = "P3"
MAX_YEAR = 2999      # C05-style runs set this to 2099 (ZIDs only carry two year digits)

PLAIN = ["foo", "bar", "Baz_1", "a.b-c", "v1.2", "end.", "(paren)", "word,", "x1", "ok?", "snake_case", "UPPER", "a/b", "e-mail",
         "it's", "100%", "q=1", "*star*", "~tilde", "a&b", "semi;", "colon:", "dash-", "_under", "<angle>"]
LOOKALIKE = ["o", "x", "P5", "P0", "1200", "0930", "2024-01-01", "240101", "991231", "240101#0A", "690630#zz0", "-", "~", "<", ">"]
QUOTED = ["'quoted'", '"dq"', "'two words'", '"#nottag"']   # tags inside quotes are a don't-care: not generated with tags
OTHER = ["((embedded))", "https://example.com/path", "http://a1.b2", "&", "=", "*", "?", "!", ";", "|", "{x}", "`code`"]


class Meta:
    def __init__(self):
        self.tags = {"areas": [], "contexts": [], "people": [], "projects": [], "links": []}
        self.props = {}
        self.date = None

    def copy(self):
        m = Meta()
        m.tags = {k: list(v) for k, v in self.tags.items()}
        m.props = dict(self.props)
        m.date = self.date
        return m


def rand_date(rng, lo=2000, hi=2099):
    return dt.date(rng.randint(lo, hi), rng.randint(1, 12), rng.randint(1, 28))


def short(d):
    return d.strftime("%Y%m%d")[2:]


BULLET_SHARED_KEY_RATE = 0.0    # bullet properties whose key an outer scope may set too (set by C02)
SAME_DAY_MOD_RATE = 0.0     # modify date = creation date (set by C01 / C02 / C12; an index-side known finding of C11)
SHARED_NAME_RATE = 0.25
ZCH = "0123456789ABCDEFGHJKLMNPRTUVWXYZabcdefhkmnorstuvwxz"


def rand_zid(rng, d=None):
    d = d or rand_date(rng)
    n = 3 if rng.random() < 0.2 else 2
    return short(d) + "#" + "".join(rng.choice(ZCH) for _ in range(n))


def deco_words(rng, uid, meta, allow_props=True, n=None, date_values=True):
    """Decorating words (tags, links, properties) recorded into meta; returns the words."""
    ws = []
    for _ in range(n if n is not None else rng.randint(0, 3)):
        r = rng.random()
        name = "%s%d" % (rng.choice(["t", "tag_", "Z"]), uid[0])
        uid[0] += 1
        if rng.random() < SHARED_NAME_RATE:
            name = rng.choice(["sh1", "sh2", "Sh3"])     # the same name written in several scopes / on neighbouring items
        punct = rng.choice(["", "", "", ",", ".", ")", ";"])
        if r < 0.15:
            ws.append("#" + name + punct); meta.tags["areas"].append(name)
        elif r < 0.30:
            ws.append("@" + name + punct); meta.tags["contexts"].append(name)
        elif r < 0.42:
            ws.append("%" + name + punct); meta.tags["people"].append(name)
        elif r < 0.55:
            ws.append("+" + name + punct); meta.tags["projects"].append(name)
        elif r < 0.60:
            ws.append("+%d" % rng.randint(0, 9999))            # digits only: never a tag
        elif r < 0.68:
            ws.append("[[%s]]" % name); meta.tags["links"].append(name)
        elif r < 0.72:
            ws.append("[[%s#anc]]" % name); meta.tags["links"].append(name + "#anc")
        elif r < 0.76:
            ws.append("[#%s]" % name); meta.tags["links"].append("global:" + name)
        elif r < 0.80:
            ws.append("[^%s]" % name); meta.tags["links"].append("local:" + name)
        elif r < 0.83:
            ws.append("[@%s]" % name); meta.tags["links"].append("ref:" + name)
        elif r < 0.86:
            z = rand_zid(rng); ws.append("[%s]" % z); meta.tags["links"].append("zid:" + z)
        elif allow_props and r < 0.93:
            k = rng.choice(["k", "due", "key_%d" % (uid[0] % 3), "shared"])
            v = rng.choice(["v%d" % uid[0], "2024-05-01", "7", "val"] if date_values else ["v%d" % uid[0], "7", "val"])
            if k in getattr(meta, "reserved", ()):
                k = "key_%d" % (uid[0] % 3)        # the note sets this key in a bullet: which of the two wins is not the property's business
            ws.append("%s::%s" % (k, v)); meta.props[k] = v
        elif allow_props:
            k = rng.choice(["ik", "shared", "note"])
            if k in getattr(meta, "reserved", ()):
                k = "ik"
            v = ["w%d" % uid[0]] + (["more"] if rng.random() < 0.5 else [])
            ws.append("[%s:: %s]" % (k, " ".join(v))); meta.props[k] = " ".join(v)
    return ws


def body_words(rng, uid, meta):
    ws = []
    for _ in range(rng.randint(1, 6)):
        r = rng.random()
        if r < 0.40:
            ws.append(rng.choice(PLAIN))
        elif r < 0.60:
            ws.append(rng.choice(LOOKALIKE))
        elif r < 0.68:
            ws.append(rng.choice(QUOTED))
        elif r < 0.76:
            w = rng.choice(OTHER)
            ws.append(w)
            if w.startswith("http"):
                meta.tags["links"].append("x:" + w)
        else:
            ws.extend(deco_words(rng, uid, meta, n=1))
    if not ws:
        ws = ["foo"]
    return ws


def gen_item(rng, uid):
    kind = rng.choice(KINDS)
    prio = None
    if kind != "-" and rng.random() < 0.6:
        prio = "P%d" % rng.randint(0, 9)
    own = Meta()
    ident = rng.choice(["none", "none", "zid", "zid", "mod+zid", "long"])
    first = []
    zid = mod = cdate = None
    if ident == "zid":
        d = rand_date(rng); zid = rand_zid(rng, d); cdate = d; first = [zid]
    elif ident == "mod+zid":
        d = rand_date(rng); zid = rand_zid(rng, d); cdate = d
        mod = d if rng.random() < SAME_DAY_MOD_RATE else rand_date(rng); first = [short(mod), zid]
    elif ident == "long":
        cdate = rand_date(rng, 2000, MAX_YEAR); first = [cdate.strftime("%Y-%m-%d")]
    words = body_words(rng, uid, own)
    if ident == "none" and words[0] not in ("foo", "bar", "Baz_1", "x1", "UPPER", "snake_case"):
        # the first identifier of an item is its identity position: keep it an ordinary word
        words.insert(0, rng.choice(["plain", "foo", "Baz_1", "x1"]))
    if words[0].startswith("[") and "::" in words[0]:
        words.insert(0, "plain")           # an inline property as the very first word is a known finding (C02)
    cont = []
    for _ in range(rng.choice([0, 0, 0, 1, 2, 3])):
        r = rng.random()
        if r < 0.25:
            # sometimes a key that the page head or an enclosing header may set too: the note's own value wins
            k = rng.choice(["k", "shared", "note", "due"]) if rng.random() < BULLET_SHARED_KEY_RATE else "bp%d" % uid[0]
            if k in own.props and not k.startswith("bp"):
                k = "bp%d" % uid[0]                  # the note already sets it in its text
            if not hasattr(own, "reserved"):
                own.reserved = set()
            own.reserved.add(k)
            uid[0] += 1
            v = " ".join(rng.choice(PLAIN[:8]) for _ in range(rng.randint(1, 3)))
            cont = [c for c in cont if not c.startswith("  * %s:: " % k)]       # one bullet per key
            cont.append("  * %s:: %s" % (k, v)); own.props[k] = v
        elif r < 0.6:
            cont.append("  * " + " ".join([rng.choice(PLAIN)] + body_words(rng, uid, own)))
        elif r < 0.8:
            cont.append("    - " + " ".join([rng.choice(PLAIN)] + body_words(rng, uid, own)))
        else:
            cont.append("  " + " ".join([rng.choice(PLAIN)] + body_words(rng, uid, own)))
    isprop = lambda c: re.match(r"  \* \w+:: ", c) is not None
    cont = [c for c in cont if not isprop(c)] + [c for c in cont if isprop(c)]   # property bullets last
    return {"kind": kind, "prio": prio, "first": first, "words": words, "cont": cont, "own": own,
            "zid": zid, "mod": mod, "cdate": cdate}


def gen_block(rng, uid):
    items = []
    for _ in range(rng.randint(1, 3)):
        if rng.random() < 0.15:
            m = Meta()
            items.append({"comment": " ".join(["#"] + ["inblock"] + deco_words(rng, uid, m))})
        else:
            items.append(gen_item(rng, uid))
    if all("comment" in i for i in items):
        items.append(gen_item(rng, uid))
    return items


def gen_header(rng, uid, level, rich=False):
    m = Meta()
    title = ["Section", "L%d" % level] + deco_words(rng, uid, m, date_values=False, n=rng.randint(2, 4) if rich else None)
    if rng.random() < 0.4:
        m.date = rand_date(rng, 2000, MAX_YEAR)
        title.append(m.date.strftime("%Y-%m-%d"))
    return {"level": level, "title": " ".join(title), "meta": m}


RULERS = {1: "#" * 32, 2: "=" * 24, 3: "+" * 16, 4: "-" * 8}


def gen_skeleton(rng, max_sections=5):
    """Legal header-level sequence: the first header is H1 or H2, and a header may be at most one
    level deeper than the previous one (H3 only inside an H2, H4 only inside an H3)."""
    seq, prev = [], 1
    for _ in range(rng.randint(0, max_sections)):
        lvl = rng.randint(1, min(4, prev + 1))
        seq.append(lvl)
        prev = lvl
    return seq


def all_skeletons(n):
    """Every legal skeleton with exactly n headers."""
    if n == 0:
        return [[]]
    out = []
    def go(seq, prev):
        if len(seq) == n:
            out.append(list(seq)); return
        for lvl in range(1, min(4, prev + 1) + 1):
            seq.append(lvl); go(seq, lvl); seq.pop()
    go([], 1)
    return out


def gen_page(rng, skeleton=None, max_sections=5, rich=False):
    uid = [1]
    title_meta = Meta()
    head_meta = Meta()
    title = ["#", "Title"] + deco_words(rng, uid, title_meta, date_values=False)
    if rng.random() < 0.5:
        title_meta.date = rand_date(rng, 2000, MAX_YEAR)
        title.append(title_meta.date.strftime("%Y-%m-%d"))
    head_lines = [" ".join(title)]
    for _ in range(rng.randint(0, 2)):
        hl = ["#", "more"] + deco_words(rng, uid, head_meta, date_values=False)      # tags/links here never count; props do
        head_lines.append(" ".join(hl))
    skeleton = gen_skeleton(rng, max_sections) if skeleton is None else skeleton
    top_blocks = [gen_block(rng, uid) for _ in range(rng.randint(0, 2))]
    sections = []
    for lvl in skeleton:
        sections.append({"hdr": gen_header(rng, uid, lvl, rich),
                         "blocks": [gen_block(rng, uid) for _ in range(rng.randint(1, 2) if rich else rng.randint(0, 2))]})
    return {"head": head_lines, "title_meta": title_meta, "head_meta": head_meta, "top": top_blocks, "sections": sections}


def render_item(it):
    if "comment" in it:
        return [it["comment"]]
    pre = it["kind"] + (" " + it["prio"] if it["prio"] else "")
    return [pre + " " + " ".join(it["first"] + it["words"])] + it["cont"]


def render(page):
    lines = list(page["head"])
    lines.append("")
    def emit_blocks(blocks):
        for b in blocks:
            for it in b:
                lines.extend(render_item(it))
            lines.append("")
    emit_blocks(page["top"])
    for sec in page["sections"]:
        h = sec["hdr"]
        lines.append(RULERS[h["level"]] + " " + h["title"])
        if sec["blocks"]:
            lines.append("")
        emit_blocks(sec["blocks"])
    return "\n".join(lines) + "\n"


def expected(page, today):
    """Notes the property statements ascribe to the page (C01 + C02)."""
    out = []
    text_lines = render(page).split("\n")
    line_no = [len(page["head"]) + 2]

    def walk_blocks(blocks, chain):
        for b in blocks:
            for it in b:
                rl = render_item(it)
                if "comment" not in it:
                    body_first = " ".join(it["first"] + it["words"])
                    body = "\n".join([body_first] + it["cont"]).strip()
                    tags = {k: [] for k in ("areas", "contexts", "people", "projects", "links")}
                    props = {}
                    # properties: header block (title line and later header lines), then sections outermost -> innermost, then own
                    for m in [page["title_meta"], page["head_meta"]] + [h["meta"] for h in chain] + [it["own"]]:
                        props.update(m.props)
                    for m in [page["title_meta"]] + [h["meta"] for h in chain] + [it["own"]]:
                        for k in tags:
                            tags[k].extend(m.tags[k])
                    cdate = it["cdate"]
                    if cdate is None:
                        for h in reversed(chain):
                            if h["meta"].date:
                                cdate = h["meta"].date
                                break
                    if cdate is None:
                        cdate = page["title_meta"].date or today
                    out.append({
                        "kind": it["kind"],
                        "prio": (it["prio"] or DEFAULT_PRIORITY) if it["kind"] != "-" else None,
                        "body": body, "line": line_no[0], "zid": it["zid"],
                        "create": cdate.isoformat(), "modify": (it["mod"] or cdate).isoformat(),
                        "areas": sorted(set(tags["areas"])), "contexts": sorted(set(tags["contexts"])),
                        "people": sorted(set(tags["people"])), "projects": sorted(set(tags["projects"])),
                        "links": sorted(set(tags["links"])), "props": dict(sorted(props.items())),
                    })
                line_no[0] += len(rl)
            line_no[0] += 1

    walk_blocks(page["top"], [])
    chain = []
    for sec in page["sections"]:
        h = sec["hdr"]
        chain = [c for c in chain if c["level"] < h["level"]] + [h]
        line_no[0] += 1 + (1 if sec["blocks"] else 0)
        walk_blocks(sec["blocks"], chain)
    return out
