"""Helpers to run zorg entry points in-process, quietly."""
import contextlib
import io
import logging
import os
import sys


@contextlib.contextmanager
def quiet():
    out, err = io.StringIO(), io.StringIO()
    with contextlib.redirect_stdout(out), contextlib.redirect_stderr(err):
        yield out, err


def zorg_main(argv):
    """Runs the CLI in-process; returns (exit_code, stdout)."""
    from zorg.app.__main__ import main
    with quiet() as (out, err):
        try:
            rc = main(["zorg", "--log=null"] + list(argv))
        except SystemExit as e:  # argparse / clack
            rc = e.code if isinstance(e.code, int) else 1
    return rc, out.getvalue()


def read_tree(d):
    res = {}
    for root, dirs, files in os.walk(d):
        for f in files:
            p = os.path.join(root, f)
            rel = os.path.relpath(p, d)
            with open(p, "rb") as fh:
                res[rel] = fh.read().decode("latin-1")
    return res


def write_tree(d, files):
    for rel, content in files.items():
        p = os.path.join(d, rel)
        os.makedirs(os.path.dirname(p), exist_ok=True)
        with open(p, "wb") as fh:
            fh.write(content.encode("latin-1"))
