"""Pool workers for the file-compiler properties."""
import datetime as dt


def compile_job(job):
    """job = (text, (y, m, d), want_tree) -> result dict of fc.compile_text"""
    import os
    os.dup2(os.open(os.devnull, os.O_WRONLY), 2)
    from harness import fc
    text, today, want_tree = job
    return fc.compile_text(text, dt.date(*today), want_tree)
