"""Shared harness machinery: engine client, build step, evidence, decision."""
from __future__ import annotations

import contextlib
import fcntl
import hashlib
import json
import os
import random
import re
import subprocess
import sys
import time

HERE = os.path.dirname(os.path.abspath(__file__))
VERIF = os.path.dirname(HERE)
COQ = os.path.join(VERIF, "coq")
BUILD = os.path.join(VERIF, "build")
ENGINE = os.path.join(BUILD, "engine")
REPO = "/repo"
PY = "/venv/bin/python"

os.environ["PYTHONPATH"] = "/repo/src"
os.environ["PYTHONHASHSEED"] = "0"


# --------------------------------------------------------------------------
# S-expressions
# --------------------------------------------------------------------------
def _atom(s: str) -> str:
    out = ['"']
    for c in s:
        o = ord(c)
        if c == "\\":
            out.append("\\\\")
        elif c == '"':
            out.append('\\"')
        elif c == "\n":
            out.append("\\n")
        elif c == "\r":
            out.append("\\r")
        elif c == "\t":
            out.append("\\t")
        elif o < 32 or o > 126:
            if o > 255:
                raise ValueError("non-latin1 character in atom")
            out.append("\\x%02x" % o)
        else:
            out.append(c)
    out.append('"')
    return "".join(out)


def dumps(x) -> str:
    if isinstance(x, bool):
        return '"t"' if x else '"f"'
    if isinstance(x, int):
        return '"%d"' % x
    if isinstance(x, str):
        return _atom(x)
    if x is None:
        return "()"
    if isinstance(x, (list, tuple)):
        return "(" + " ".join(dumps(y) for y in x) + ")"
    raise TypeError(type(x))


def loads(s: str):
    pos = 0
    n = len(s)

    def sx():
        nonlocal pos
        while pos < n and s[pos] == " ":
            pos += 1
        if s[pos] == "(":
            pos += 1
            items = []
            while True:
                while pos < n and s[pos] == " ":
                    pos += 1
                if s[pos] == ")":
                    pos += 1
                    return items
                items.append(sx())
        if s[pos] == '"':
            pos += 1
            out = []
            while True:
                c = s[pos]
                pos += 1
                if c == '"':
                    return "".join(out)
                if c == "\\":
                    d = s[pos]
                    pos += 1
                    if d == "n":
                        out.append("\n")
                    elif d == "r":
                        out.append("\r")
                    elif d == "t":
                        out.append("\t")
                    elif d == "x":
                        out.append(chr(int(s[pos:pos + 2], 16)))
                        pos += 2
                    else:
                        out.append(d)
                else:
                    out.append(c)
        st = pos
        while pos < n and s[pos] not in " ()":
            pos += 1
        return s[st:pos]

    return sx()


class Engine:
    """Client of the extracted OCaml engine (one process)."""

    def __init__(self):
        self.p = subprocess.Popen(
            ["bash", "-c", "ulimit -s unlimited 2>/dev/null; exec " + ENGINE],
            stdin=subprocess.PIPE, stdout=subprocess.PIPE, text=True,
            encoding="latin-1", bufsize=1)
        self.calls = 0

    def call(self, *req):
        self.calls += 1
        self.p.stdin.write(dumps(list(req)) + "\n")
        self.p.stdin.flush()
        line = self.p.stdout.readline()
        if not line:
            raise RuntimeError("engine died on %r" % (req,))
        r = loads(line.rstrip("\n"))
        if isinstance(r, list) and r and r[0] == "ERR":
            raise RuntimeError("engine error %r on %r" % (r, req))
        return r

    def close(self):
        try:
            self.p.stdin.close()
            self.p.wait(timeout=5)
        except Exception:
            self.p.kill()


def res(r):
    """Decode a `res` value: ('ok', v) | ('exn', kind) | ('oom',) | ('fuel',)."""
    return tuple(r)


# --------------------------------------------------------------------------
# Build step: scrape /repo -> Gen/*.v, make the cone, re-extract if needed
# --------------------------------------------------------------------------
FORBIDDEN = re.compile(
    r"\b(Admitted|admit|give_up|Axiom|Axioms|Parameter|Parameters|Conjecture|Conjectures|"
    r"Unset\s+Guard|Unset\s+Positivity|Unset\s+Universe|bypass_check|Admit\s+Obligations|"
    r"type-in-type|impredicative-set)\b")
SECTION_ONLY = re.compile(r"\b(Variable|Variables|Hypothesis|Hypotheses|Context)\b")


def _strip_comments(src: str) -> str:
    out, depth, i = [], 0, 0
    while i < len(src):
        if src.startswith("(*", i):
            depth += 1
            i += 2
        elif src.startswith("*)", i) and depth:
            depth -= 1
            i += 2
        else:
            if not depth:
                out.append(src[i])
            i += 1
    return "".join(out)


def grep_gate() -> list[str]:
    bad = []
    for root, _, files in os.walk(COQ):
        for f in files:
            if f.endswith(".v"):
                src = _strip_comments(open(os.path.join(root, f)).read())
                # Variable/Hypothesis inside sections are fine; we forbid Hypothesis
                # outright and use Variable only inside Section blocks.
                for m in FORBIDDEN.finditer(src):
                    bad.append("%s: %s" % (os.path.join(root, f), m.group(0)))
                # Variable / Hypothesis / Context are allowed inside a Section only
                depth = 0
                for m in re.finditer(r"\b(Section|End)\s+[A-Za-z_][A-Za-z0-9_']*\s*\.|\b(Variable|Variables|Hypothesis|Hypotheses|Context)\b", src):
                    if m.group(1) == "Section":
                        depth += 1
                    elif m.group(1) == "End":
                        depth -= 1
                    elif depth <= 0:
                        bad.append("%s: %s outside a section" % (os.path.join(root, f), m.group(2)))
    return bad


@contextlib.contextmanager
def build_lock():
    os.makedirs(BUILD, exist_ok=True)
    with open(os.path.join(BUILD, ".lock"), "w") as lk:
        fcntl.flock(lk, fcntl.LOCK_EX)
        try:
            yield
        finally:
            fcntl.flock(lk, fcntl.LOCK_UN)


def run(cmd, cwd=None, timeout=3000):
    p = subprocess.run(cmd, cwd=cwd, stdout=subprocess.PIPE,
                       stderr=subprocess.STDOUT, text=True, timeout=timeout)
    return p.returncode, p.stdout


def cone_of(vfile: str) -> list[str]:
    """Transitive .v dependencies (within the project) of coq/<vfile>."""
    seen, todo = [], [vfile]
    while todo:
        f = todo.pop()
        if f in seen or not os.path.exists(os.path.join(COQ, f)):
            continue
        seen.append(f)
        src = open(os.path.join(COQ, f)).read()
        for m in re.finditer(r"From\s+Zorg\s+Require\s+(?:Import|Export)\s+(.*?)\.(?=\s|$)", _strip_comments(src), re.S):
            for mod in m.group(1).split():
                todo.append(mod.replace(".", "/") + ".v")
    return seen


def count_obligations(files: list[str]) -> tuple[int, list[str]]:
    """Number of Qed-closed statements in the given files, and their names."""
    names = []
    for f in files:
        src = _strip_comments(open(os.path.join(COQ, f)).read())
        for m in re.finditer(
                r"\b(Theorem|Lemma|Example|Corollary|Fact|Remark|Proposition)\s+([A-Za-z0-9_']+)", src):
            names.append(m.group(2))
    return len(names), names


class BuildResult:
    def __init__(self):
        self.ok = True
        self.log = ""
        self.failed_target = None
        self.assumptions: list[str] = []
        self.obligations = 0
        self.theorems: list[str] = []
        self.gate: list[str] = []


def build(prop: str) -> BuildResult:
    """Regenerate Gen/, make the cone of Props/<prop>.v and the engine."""
    br = BuildResult()
    with build_lock():
        rc, out = run([PY, os.path.join(HERE, "scrape.py")])
        if rc != 0:
            br.ok, br.log, br.failed_target = False, out, "scrape"
            return br
        br.gate = grep_gate()
        if br.gate:
            br.ok, br.log, br.failed_target = False, "\n".join(br.gate), "grep-gate"
            return br
        if not os.path.exists(os.path.join(COQ, "Makefile")):
            run(["coq_makefile", "-f", "_CoqProject", "-o", "Makefile"], cwd=COQ)
        target = "Props/%s.vo" % prop
        # dependencies first
        rc, out = run(["bash", "-c", "ulimit -s unlimited 2>/dev/null; make -j16 %s Extract/Engine.vo" % target],
                      cwd=COQ, timeout=3000)
        br.log = out
        if rc != 0:
            br.ok = False
            m = re.search(r'File "\./([^"]+)"', out)
            br.failed_target = m.group(1) if m else target
            return br
        # re-run coqc on the property file to capture Print Assumptions now
        rc, out = run(["bash", "-c", "ulimit -s unlimited 2>/dev/null; coqc -Q . Zorg Props/%s.v" % prop],
                      cwd=COQ, timeout=1200)
        if rc != 0:
            br.ok, br.log, br.failed_target = False, out, "Props/%s.v" % prop
            return br
        br.assumptions = _parse_assumptions(out)
        bad = [a for a in br.assumptions if a.startswith("Axioms:")]
        if bad:
            br.ok, br.failed_target = False, "Print Assumptions of Props/%s.v: %s" % (prop, "; ".join(bad)[:400])
            br.log = out
            return br
        # engine freshness
        evo = os.path.join(COQ, "Extract", "Engine.vo")
        if (not os.path.exists(ENGINE)
                or os.path.getmtime(ENGINE) < os.path.getmtime(evo)):
            rc, out = run(["bash", os.path.join(VERIF, "setup.sh")], timeout=3000)
            if rc != 0:
                br.ok, br.log, br.failed_target = False, out, "engine"
                return br
    files = cone_of("Props/%s.v" % prop)
    br.obligations, br.theorems = count_obligations(files)
    return br


def coqchk(prop: str, timeout=2400):
    """Independent re-check of the compiled cone of Props/<prop>.v (thorough tier).
    -> (status, summary): status in ok | axioms | failed | timeout"""
    t0 = time.time()
    try:
        rc, out = run(["bash", "-c", "ulimit -s unlimited; cd %s && coqchk -silent -o -Q . Zorg Zorg.Props.%s" % (COQ, prop)],
                      timeout=timeout)
    except Exception as e:  # noqa: BLE001
        return "timeout", "coqchk did not finish within %ds (%s)" % (timeout, type(e).__name__)
    m = re.search(r"\* Axioms:(.*?)\n\s*\n\* Constants/Inductives relying on type-in-type:(.*?)\n", out, re.S)
    summ = " ".join(out[out.find("CONTEXT SUMMARY"):].split())[:600]
    if rc != 0:
        return "failed", out[-1500:]
    if not m or m.group(1).strip() != "<none>" or m.group(2).strip() != "<none>":
        return "axioms", summ
    return "ok", summ + " (%.0fs)" % (time.time() - t0)


def _parse_assumptions(out: str) -> list[str]:
    res_, cur = [], None
    for line in out.splitlines():
        if line.startswith("Closed under the global context"):
            res_.append("closed")
        elif line.startswith("Axioms:"):
            cur = []
            res_.append(cur)
        elif cur is not None and line.strip():
            cur.append(line.strip())
    flat = []
    for r in res_:
        if r == "closed":
            flat.append("Closed under the global context")
        else:
            flat.append("Axioms: " + " ".join(r))
    return flat


# --------------------------------------------------------------------------
# Known findings
# --------------------------------------------------------------------------
def known_findings(prop: str):
    known, fixed = [], []
    p = os.path.join(VERIF, "known_findings.txt")
    if not os.path.exists(p):
        return known, fixed
    for line in open(p):
        line = line.strip()
        if not line or line.startswith("#"):
            continue
        m = re.match(r"(known|fixed):\s+property=(\S+)\s+(.*)", line)
        if not m or m.group(2) != prop:
            continue
        rest = m.group(3)
        kv = dict(re.findall(r"(\w+)=(\S+)", rest))
        entry = {"line": line, "trigger": kv.get("trigger"),
                 "witness": kv.get("witness"), "text": rest}
        (known if m.group(1) == "known" else fixed).append(entry)
    return known, fixed


def replay_by_rerun(mod, prop, path):
    """Replay of a recorded violation by re-running the (deterministic, seeded) exploration that found it: same tier,
    same seed, current tree.  -> 1 when a failure that no known finding explains (or a model/implementation
    difference) shows up again, 0 when the exploration is clean now."""
    payload = json.load(open(path))
    seed, tier = int(payload.get("seed", 0)), payload.get("tier", "quick")
    oc = Outcome(prop)
    mod.run(oc, tier, seed)
    known, _ = known_findings(prop)
    triggers = {k["trigger"] for k in known}
    bad = [f for f in oc.spec_fail if f[3] is None or f[3] not in triggers]
    print(json.dumps({"replayed": path, "tier": tier, "seed": seed, "evaluations": oc.evaluations,
                      "failures_not_explained_by_a_known_finding": len(bad),
                      "model_vs_implementation_differences": len(oc.corr_mismatch),
                      "first": (bad[0][1] if bad else (oc.corr_mismatch[0][2] if oc.corr_mismatch else None))},
                     indent=1, default=str)[:3000])
    return 1 if bad or oc.corr_mismatch else 0


# --------------------------------------------------------------------------
# Outcome of a property run
# --------------------------------------------------------------------------
class Outcome:
    def __init__(self, prop):
        self.prop = prop
        self.evaluations = 0
        self.nontrivial = set()
        self.rule = ""
        self.samples = []
        self.stats = {}
        self.corr_mismatch = []     # [(component, case, impl, model)]
        self.spec_fail = []         # [(case, impl, spec, trigger|None)]
        self.known_hit = {}         # trigger -> description of a witness that still fails
        self.exhaustive = False
        self.notes = []

    def count(self, key, n=1):
        self.stats[key] = self.stats.get(key, 0) + n

    def nontriv(self, obj):
        self.nontrivial.add(hashlib.sha1(repr(obj).encode()).hexdigest())


def write_replay(prop, payload) -> str:
    os.makedirs(os.path.join(VERIF, "replays"), exist_ok=True)
    blob = json.dumps(payload, indent=1, sort_keys=True, default=str)
    h = hashlib.sha1(blob.encode()).hexdigest()[:12]
    path = os.path.join(VERIF, "replays", "%s-%s.json" % (prop, h))
    with open(path, "w") as f:
        f.write(blob)
    return path


def write_evidence(prop, tier, seed, br: BuildResult, oc: Outcome, wall, violations, checker_cmd, assumptions_extra):
    ev = {
        "property_id": prop,
        "tier": tier,
        "seed": seed,
        "level": "proof",
        "coverage": {
            "obligations": br.obligations,
            "discharged": br.obligations if br.ok else 0,
            "checker_cmd": checker_cmd,
            "trusted_base": [
                "Coq 8.16.1 kernel (coqc), vm_compute in bounded-domain lemmas, no native_compute",
                "Print Assumptions of Props/%s.v in this run: %s" % (
                    prop, "; ".join(sorted(set(br.assumptions))) or "n/a"),
                "extraction: ExtrOcamlBasic + ExtrOcamlString only; OCaml 4.13.1; ocaml/driver.ml",
                "hand-written Gallina model tied by the correspondence run recorded below; harness/*.py",
            ] + assumptions_extra,
            "theorems": [t for t in br.theorems if t.startswith(prop)],
            "evaluations": oc.evaluations,
            "distinct_nontrivial": len(oc.nontrivial),
            "rule": oc.rule,
            "samples": oc.samples[:8],
            "exhaustive": oc.exhaustive,
            "stats": oc.stats,
            "correspondence_mismatches": len(oc.corr_mismatch),
            "spec_failures_unclassified": len([f for f in oc.spec_fail if f[3] is None]),
            "spec_failures_known": len([f for f in oc.spec_fail if f[3] is not None]),
            "known_findings_reproduced": sorted(oc.known_hit),
            "notes": oc.notes,
        },
        "assumptions": assumptions_extra,
        "wall_s": round(wall, 2),
        "violations": violations,
    }
    os.makedirs(os.path.join(VERIF, "evidence"), exist_ok=True)
    with open(os.path.join(VERIF, "evidence", "%s.json" % prop), "w") as f:
        json.dump(ev, f, indent=1, default=str)


def seed_from_env() -> int:
    try:
        return int(os.environ.get("VERIF_SEED", "20240601"))
    except ValueError:
        return 20240601


# --------------------------------------------------------------------------
# Worker pool (implementation side fans out over the cores)
# --------------------------------------------------------------------------
def pool(n=16):
    import multiprocessing as mp
    ctx = mp.get_context("fork")
    return ctx.Pool(n)
