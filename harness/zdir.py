"""Throw-away zettel directories and in-process index commands."""
import contextlib
import io
import os
import shutil
import tempfile
from pathlib import Path

from harness.implrun import quiet, write_tree


def db_url(d):
    return "sqlite:///%s/.zorg/zorg.db" % d


def fresh_process():
    """Each CLI invocation is a fresh process: drop the per-process engine cache."""
    from zorg.storage.sql import _engine
    _engine.create_cached_engine.cache_clear()


def db_create(d, update_whitelist=False):
    fresh_process()
    from zorg.domain.messages import commands
    from zorg.service import messagebus
    from zorg.storage.sql import _engine
    d = Path(d)
    with quiet():
        messagebus.handle(d, db_url(d), [commands.CreateDBCommand(d, update_error_file_whitelist=update_whitelist)],
                          should_delete_existing_db=True)


def db_reindex(d, paths=()):
    from zorg.domain.messages import commands
    from zorg.service import messagebus
    fresh_process()
    d = Path(d)
    with quiet():
        messagebus.handle(d, db_url(d), [commands.ReindexDBCommand(d, paths=[Path(p) for p in paths])])


def execute(d, q):
    from zorg.service import swog
    fresh_process()
    with quiet():
        return swog.execute(Path(d), db_url(d), q)


@contextlib.contextmanager
def tmpdir(prefix="zv_"):
    d = tempfile.mkdtemp(prefix=prefix)
    try:
        yield d
    finally:
        shutil.rmtree(d, ignore_errors=True)
