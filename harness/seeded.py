#!/venv/bin/python
"""Seeded-change bookkeeping.
  seeded.py ingest <name> <worktree> <prop> "<needs>"   verify demo/tests in the worktree, copy to seeded/<name>/
  seeded.py run <name> [tier]                           apply to /repo, run the check, revert
  seeded.py runall [tier]
"""
import json, os, shutil, subprocess, sys, time
VERIF = os.path.dirname(os.path.dirname(os.path.abspath(__file__)))
SEEDED = os.path.join(VERIF, "seeded")


def sh(cmd, cwd=None, env=None, timeout=3000):
    e = dict(os.environ)
    if env:
        e.update(env)
    p = subprocess.run(cmd, shell=True, cwd=cwd, env=e, stdout=subprocess.PIPE, stderr=subprocess.STDOUT, text=True, timeout=timeout)
    return p.returncode, p.stdout


def ingest(name, wt, prop, needs):
    env = {"PYTHONPATH": wt + "/src", "PYTHONHASHSEED": "0"}
    ran = []
    rc, out = sh("git diff -- src", cwd=wt)
    patch = out
    assert patch.strip(), "empty patch"
    rc1, out1 = sh("/venv/bin/python demo.py", cwd=wt, env=env, timeout=900)
    ran.append("with change: demo.py -> exit %d" % rc1)
    open(os.path.join(wt, ".ingest.diff"), "w").write(patch)
    rc, out = sh("git apply -R .ingest.diff", cwd=wt)
    assert rc == 0, out
    try:
        rc0, out0 = sh("/venv/bin/python demo.py", cwd=wt, env=env, timeout=900)
    finally:
        rc, out = sh("git apply .ingest.diff", cwd=wt)
        assert rc == 0, out
    ran.append("without change: demo.py -> exit %d" % rc0)
    rct, outt = sh("/venv/bin/python -m pytest -q -p no:cacheprovider --timeout=900 -x 2>&1 | tail -3", cwd=wt, env=env, timeout=1800)
    ran.append("with change: pytest -> %s" % outt.strip().splitlines()[-1] if outt.strip() else "?")
    ok = rc1 != 0 and rc0 == 0 and " passed" in outt and "failed" not in outt
    print("\n".join(ran))
    print("demo(with) tail:", out1[-400:])
    if not ok:
        print("NOT CONFIRMED")
        return 1
    d = os.path.join(SEEDED, name)
    os.makedirs(d, exist_ok=True)
    open(os.path.join(d, "patch.diff"), "w").write(patch)
    shutil.copy(os.path.join(wt, "demo.py"), os.path.join(d, "demo.py"))
    json.dump({"property": prop, "needs": needs, "ran": ran, "confirmed": True,
               "detected_by": None}, open(os.path.join(d, "meta.json"), "w"), indent=1)
    print("INGESTED", name)
    return 0


def run(name, tier="quick"):
    d = os.path.join(SEEDED, name)
    meta = json.load(open(os.path.join(d, "meta.json")))
    prop = meta["property"]
    rc, out = sh("git -C /repo status --porcelain")
    assert not out.strip(), "/repo not clean: " + out
    rc, out = sh("git -C /repo apply %s" % os.path.join(d, "patch.diff"))
    assert rc == 0, out
    ev = os.path.join(VERIF, "evidence", "%s.json" % prop)
    saved = open(ev).read() if os.path.exists(ev) else None
    try:
        t = time.time()
        rc, out = sh("./check %s --tier %s" % (prop, tier), cwd=VERIF, timeout=7200)
        dt = time.time() - t
    finally:
        sh("git -C /repo checkout -- .")
        if saved is not None:
            open(ev, "w").write(saved)
    viol = [l for l in out.splitlines() if l.startswith("VIOLATION")]
    print("%s (%s, %s): exit=%d %.0fs %s" % (name, prop, tier, rc, dt, viol[:1]))
    meta.setdefault("runs", {})[tier] = {"exit": rc, "violation_line": viol[:1], "wall_s": round(dt)}
    meta["detected_by"] = ("./check %s --tier %s" % (prop, tier)) if rc == 1 and viol else meta.get("detected_by")
    json.dump(meta, open(os.path.join(d, "meta.json"), "w"), indent=1)
    return rc


if __name__ == "__main__":
    if sys.argv[1] == "ingest":
        sys.exit(ingest(*sys.argv[2:6]))
    if sys.argv[1] == "run":
        run(*sys.argv[2:4])
    if sys.argv[1] == "runall":
        for n in sorted(os.listdir(SEEDED)):
            if os.path.exists(os.path.join(SEEDED, n, "meta.json")):
                run(n, *sys.argv[2:3])
