(* Line-oriented S-expression front end of the extracted engine.
   One request per input line, one response per output line.
   Atoms are double-quoted, with backslash escapes for backslash, quote,
   n, r, t and xHH. *)
open Engine

let explode s = List.init (String.length s) (String.get s)
let implode l = let b = Buffer.create 16 in List.iter (Buffer.add_char b) l; Buffer.contents b

exception Parse_error of string

let parse (s : string) : sexp =
  let n = String.length s in
  let pos = ref 0 in
  let rec skip () = if !pos < n && (s.[!pos] = ' ') then (incr pos; skip ()) in
  let hexv c = match c with
    | '0'..'9' -> Char.code c - 48 | 'a'..'f' -> Char.code c - 87
    | 'A'..'F' -> Char.code c - 55 | _ -> raise (Parse_error "hex") in
  let rec sx () =
    skip ();
    if !pos >= n then raise (Parse_error "eof");
    match s.[!pos] with
    | '(' -> incr pos; let items = ref [] in
        let rec loop () = skip ();
          if !pos >= n then raise (Parse_error "eof in list");
          if s.[!pos] = ')' then incr pos else (items := sx () :: !items; loop ()) in
        loop (); SL (List.rev !items)
    | '"' -> incr pos; let b = Buffer.create 16 in
        let rec loop () =
          if !pos >= n then raise (Parse_error "eof in atom");
          let c = s.[!pos] in incr pos;
          if c = '"' then () else begin
            (if c = '\\' then begin
               let d = s.[!pos] in incr pos;
               match d with
               | 'n' -> Buffer.add_char b '\n' | 'r' -> Buffer.add_char b '\r'
               | 't' -> Buffer.add_char b '\t'
               | 'x' -> let h = hexv s.[!pos] * 16 + hexv s.[!pos+1] in pos := !pos + 2;
                        Buffer.add_char b (Char.chr h)
               | d -> Buffer.add_char b d
             end else Buffer.add_char b c); loop () end in
        loop (); SA (explode (Buffer.contents b))
    | _ -> (* bare atom up to space or paren *)
        let st = !pos in
        while !pos < n && s.[!pos] <> ' ' && s.[!pos] <> '(' && s.[!pos] <> ')' do incr pos done;
        SA (explode (String.sub s st (!pos - st)))
  in sx ()

let rec print (b : Buffer.t) (x : sexp) : unit =
  match x with
  | SA a -> Buffer.add_char b '"';
      List.iter (fun c -> match c with
        | '\\' -> Buffer.add_string b "\\\\" | '"' -> Buffer.add_string b "\\\""
        | '\n' -> Buffer.add_string b "\\n" | '\r' -> Buffer.add_string b "\\r"
        | '\t' -> Buffer.add_string b "\\t"
        | c when Char.code c < 32 || Char.code c > 126 ->
            Buffer.add_string b (Printf.sprintf "\\x%02x" (Char.code c))
        | c -> Buffer.add_char b c) a;
      Buffer.add_char b '"'
  | SL l -> Buffer.add_char b '(';
      List.iteri (fun i y -> if i > 0 then Buffer.add_char b ' '; print b y) l;
      Buffer.add_char b ')'

let () =
  try while true do
    let line = input_line stdin in
    let out = Buffer.create 256 in
    (try print out (dispatch (parse line))
     with Parse_error m -> Buffer.add_string out ("(\"ERR\" \"parse: " ^ m ^ "\")")
        | Stack_overflow -> Buffer.add_string out "(\"ERR\" \"stack overflow\")");
    print_string (Buffer.contents out); print_newline ()
  done with End_of_file -> ()
