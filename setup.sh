#!/bin/bash
# Build the Coq development (full .vo), extract the engine, build the driver.
# Offline; everything from files on disk.
set -euo pipefail
ulimit -s unlimited 2>/dev/null || true
cd "$(dirname "$0")"
export PYTHONPATH=/repo/src PYTHONHASHSEED=0
mkdir -p build evidence replays coq/Gen
# 1. regenerate the tables scraped from /repo (constants, grammars)
/venv/bin/python harness/scrape.py
# 2. Coq
cd coq
coq_makefile -f _CoqProject -o Makefile > /dev/null
timeout 3000 make -j16 > ../build/coq_build.log 2>&1 || { tail -40 ../build/coq_build.log; echo "SETUP: coq build failed"; exit 1; }
cd ../build
# 3. extraction + driver
timeout 600 coqc -Q ../coq Zorg ../coq/Extract/Extract.v > extract.log 2>&1 || { cat extract.log; echo "SETUP: extraction failed"; exit 1; }
cp ../ocaml/driver.ml .
timeout 600 ocamlfind ocamlopt -O3 -w -a -package str engine.mli engine.ml driver.ml -o engine 2> ocaml.log || \
timeout 600 ocamlfind ocamlopt -w -a engine.mli engine.ml driver.ml -o engine 2> ocaml.log || { cat ocaml.log; echo "SETUP: ocaml build failed"; exit 1; }
echo "SETUP: ok"
