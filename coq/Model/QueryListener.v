(* C04: service/compiler/_query_compiler.py — ZorgQueryCompiler on ANY parse tree
   of the query grammar; shared/dates.py from_date_spec; app/config.py _process_query. *)
From Zorg Require Import Base.PyStr Base.Sexp Base.Res Base.Dates Model.Zid Model.FileListener.

(* ---- dates ---- *)
Definition is_long_date_spec (s : str) : bool :=
  match s with
  | [a; b; c; d; m1; e; f; m2; g; h] =>
      ceqb m1 (ch "-") && ceqb m2 (ch "-") && forallb is_digit [a; b; c; d; e; f; g; h]
  | _ => false
  end.
Definition is_relative_date_spec (s0 : str) : bool :=
  let s := if startswith (S "-") s0 then skipn 1 s0 else s0 in
  (1 <? length s)%nat && isdigit (firstn (length s - 1) s) &&
  mem_c (lower_c (last s (ch "0"))) (S "dmy").
Definition is_date_spec (s : str) : bool :=
  is_short_date_spec s || is_long_date_spec s || is_relative_date_spec s.

Definition from_relative (today : date) (spec0 : str) : res date :=
  let spec := lower spec0 in
  let past := startswith (S "-") spec in
  let spec := if past then skipn 1 spec else spec in
  let n := Z_of_digits (firstn (length spec - 1) spec) in
  if (100000 <? n)%Z then OutOfModel else
  let n := if past then Z.opp n else n in
  let c := last spec (ch "0") in
  let d := if ceqb c (ch "d") then add_days today n
           else if ceqb c (ch "m") then add_months today n
           else add_years today n in
  if (1 <=? yr d)%Z && (yr d <=? 9999)%Z then Ok d else Exn (S "OverflowError").

Definition from_date_spec (today : date) (s : str) : res date :=
  if is_short_date_spec s then from_short s
  else if is_long_date_spec s then from_long s
  else if is_relative_date_spec s then from_relative today s
  else Exn (S "RuntimeError").

(* ---- the Query value ---- *)
Inductive pop := PExists | PEq | PLt | PLe | PGt | PGe.
Inductive vtype := VDateT | VIntT | VStrT.
Record prop_filter := mkPF { pf_key : str; pf_value : str; pf_op : pop; pf_vt : vtype; pf_neg : bool }.
Record desc_filter := mkDF { df_value : str; df_case : option bool; df_neg : bool }.

Inductive and_filter :=
  AF (kinds : list str) (areas contexts people projects : list str)
     (creates modifies : list (date * option date))
     (props : list prop_filter) (descs : list desc_filter)
     (files links : list (str * bool)) (prios : list str) (ors : list (list and_filter)).

Definition add_or (f : and_filter) (o : list and_filter) : and_filter :=
  match f with AF k a c pe pj cr mo pr de fi li ps ors => AF k a c pe pj cr mo pr de fi li ps (ors ++ [o]) end.

Inductive sel := QNote | QFile | QArea | QContext | QPerson | QProject | QProp | QLinks | QPropValues (k : str).
Inductive select := QSel (s : sel) | QAgg (f : str) (s : sel).
Record query := mkQ { q_select : select; q_where : option (list and_filter); q_order : list str; q_group : list str }.

Definition default_order : list str := [S "NOTE_TYPE"; S "PRIORITY"; S "MODIFY_DATE"; S "CREATE_DATE"].
Definition init_query : query := mkQ (QSel QNote) None default_order [].

(* ---- helpers over trees ---- *)
Definition has_tok (n : string) (kids : list tree) : bool :=
  match child_tok n kids with Some _ => true | None => false end.
Definition has_rule (n : string) (kids : list tree) : bool :=
  match child_rule n kids with Some _ => true | None => false end.
Definition rules_named (n : string) (kids : list tree) : list tree := filter (is_rule n) kids.

Definition select_from_field (f : tree) : res sel :=
  let k := kids_of f in
  if has_tok "HASH" k then Ok QArea else if has_tok "AT_SIGN" k then Ok QContext
  else if has_tok "PERCENT" k then Ok QPerson else if has_tok "PLUS" k then Ok QProject
  else if has_rule "file" k then Ok QFile else if has_rule "note" k then Ok QNote
  else if has_rule "prop" k then Ok QProp
  else match child_rule "prop_values" k with
       | Some pv => match split1 (S ":") (text_of pv) with
                    | [_; v] => Ok (QPropValues v)
                    | _ => Idx
                    end
       | None => if has_rule "links" k then Ok QLinks else Exn (S "RuntimeError")
       end.

Definition enter_select (kids : list tree) : res select :=
  match child_rule "select_body" kids with
  | None => Attr
  | Some sb =>
      match child_rule "select_field" (kids_of sb) with
      | Some f => rmap QSel (select_from_field f)
      | None =>
          match child_rule "select_agg" (kids_of sb) with
          | None => Attr
          | Some ag =>
              match child_rule "func_name" (kids_of ag), child_rule "select_field" (kids_of ag) with
              | Some fn, Some f => s <- select_from_field f ;; Ok (QAgg (text_of fn) s)
              | _, _ => Attr
              end
          end
      end
  end.

Definition note_type_of_char (c : tree) : res str :=
  let k := kids_of c in
  if has_tok "DASH" k then Ok (S "-") else if has_tok "LOWER_O" k then Ok (S "o")
  else if has_tok "LOWER_X" k then Ok (S "x") else if has_tok "TILDE" k then Ok (S "~")
  else if has_tok "LANGLE" k then Ok (S "<") else if has_tok "RANGLE" k then Ok (S ">")
  else Exn (S "RuntimeError").

(* int(s) for s consisting of digits (else ValueError) *)
Definition py_int (s : str) : res Z := if isdigit s then Ok (Z_of_digits s) else Val.

Fixpoint zrange_str (lo : Z) (n : nat) : list str :=
  match n with O => [] | Datatypes.S k => (S "P" ++ str_of_Z lo) :: zrange_str (lo + 1)%Z k end.
Definition priorities_of (txt : str) : res (list str) :=
  match split_on (ch "-") txt with
  | [] => Idx
  | p0 :: rest =>
      a <- py_int (last_n 1 p0) ;;
      b <- match rest with
           | [] => Ok (a + 1)%Z
           | e :: _ => x <- py_int e ;; Ok (x + 1)%Z
           end ;;
      Ok (zrange_str a (Z.to_nat (b - a)))
  end.

Definition date_range (today : date) (head_tok : string) (kids : list tree) : res (date * option date) :=
  match child_tok head_tok kids with
  | None => Attr
  | Some h =>
      s <- from_date_spec today (skipn 1 (text_of h)) ;;
      match child_tok "DATE_RANGE_TAIL" kids with
      | None => Ok (s, None)
      | Some t => e <- from_date_spec today (skipn 1 (text_of t)) ;; Ok (s, Some e)
      end
  end.

Definition split_op_value (ov : str) : res (pop * str) :=
  match ov with
  | [] => Idx
  | c :: r =>
      if ceqb c (ch "<") then
        match r with [] => Idx | d :: r' => if ceqb d (ch "=") then Ok (PLe, r') else Ok (PLt, r) end
      else if ceqb c (ch ">") then
        match r with [] => Idx | d :: r' => if ceqb d (ch "=") then Ok (PGe, r') else Ok (PGt, r) end
      else if ceqb c (ch "*") && (length ov =? 1)%nat then Ok (PExists, [])
      else Ok (PEq, ov)
  end.
Definition value_type (v : str) : vtype :=
  if is_date_spec v then VDateT else if forallb is_digit v then VIntT else VStrT.

Definition prop_filter_of (txt : str) : res prop_filter :=
  match split1 (S ":") txt with           (* split(":", maxsplit=1), after the fix in /repo *)
  | [key0; ov] =>
      match key0 with
      | [] => Idx
      | c :: r =>
          let neg := ceqb c (ch "!") in
          let key := if neg then r else key0 in
          x <- split_op_value ov ;;
          Ok (mkPF key (snd x) (fst x) (value_type (snd x)) neg)
      end
  | _ => Val
  end.

Definition desc_filter_of (txt : str) : res desc_filter :=
  match txt with
  | [] => Idx
  | c :: r =>
      let neg := ceqb c (ch "!") in
      let t1 := if neg then r else txt in
      match t1 with
      | [] => Idx
      | c1 :: r1 =>
          let cs := ceqb c1 (ch "c") in
          let t2 := if cs then r1 else t1 in
          Ok (mkDF (firstn (length t2 - 2) (skipn 1 t2)) (if cs then Some true else None) neg)
      end
  end.

Definition tag_of (kids : list tree) : res (nat * str) :=      (* 0 area, 1 context, 2 person, 3 project *)
  let minus := if has_rule "not_op" kids then S "-" else [] in
  match child_rule "area" kids, child_rule "context" kids, child_rule "person" kids, child_rule "project" kids with
  | Some t, _, _, _ => Ok (0, minus ++ skipn 1 (text_of t))
  | None, Some t, _, _ => Ok (1, minus ++ skipn 1 (text_of t))
  | None, None, Some t, _ => Ok (2, minus ++ skipn 1 (text_of t))
  | None, None, None, Some t => Ok (3, minus ++ skipn 1 (text_of t))
  | None, None, None, None => Exn (S "RuntimeError")
  end.

Section QListen.
  Variable today : date.

  Definition empty_af : and_filter := AF [] [] [] [] [] [] [] [] [] [] [] [] [].

  Definition add_atom (f : and_filter) (atom : tree) : res and_filter :=
    let k := kids_of atom in
    match f with AF ki ar cx pe pj cr mo pr de fi li ps ors =>
    match child_rule "note_type" k with
    | Some nt =>
        ks <- seq_res (map note_type_of_char (rules_named "note_type_char" (kids_of nt))) ;;
        Ok (AF (ki ++ ks) ar cx pe pj cr mo pr de fi li ps ors)
    | None =>
    match child_rule "priority_range" k with
    | Some p => x <- priorities_of (text_of p) ;; Ok (AF ki ar cx pe pj cr mo pr de fi li (ps ++ x) ors)
    | None =>
    match child_rule "create_range" k with
    | Some c => r <- date_range today "CREATE_RANGE_HEAD" (kids_of c) ;; Ok (AF ki ar cx pe pj (cr ++ [r]) mo pr de fi li ps ors)
    | None =>
    match child_rule "modify_range" k with
    | Some c => r <- date_range today "MODIFY_RANGE_HEAD" (kids_of c) ;; Ok (AF ki ar cx pe pj cr (mo ++ [r]) pr de fi li ps ors)
    | None =>
    match child_rule "tag" k with
    | Some t =>
        x <- tag_of (kids_of t) ;;
        match fst x with
        | 0 => Ok (AF ki (ar ++ [snd x]) cx pe pj cr mo pr de fi li ps ors)
        | 1 => Ok (AF ki ar (cx ++ [snd x]) pe pj cr mo pr de fi li ps ors)
        | 2 => Ok (AF ki ar cx (pe ++ [snd x]) pj cr mo pr de fi li ps ors)
        | _ => Ok (AF ki ar cx pe (pj ++ [snd x]) cr mo pr de fi li ps ors)
        end
    | None =>
    match child_rule "prop_filter" k with
    | Some p => x <- prop_filter_of (text_of p) ;; Ok (AF ki ar cx pe pj cr mo (pr ++ [x]) de fi li ps ors)
    | None =>
    match child_rule "desc_filter" k with
    | Some p => x <- desc_filter_of (text_of p) ;; Ok (AF ki ar cx pe pj cr mo pr (de ++ [x]) fi li ps ors)
    | None =>
    match child_rule "file_filter" k with
    | Some p =>
        let t := text_of p in
        let neg := startswith (S "!") t in
        let g := if neg then skipn 3 t else skipn 2 t in
        let g := if endswith (S "*") g then g else g ++ S ".zo" in
        Ok (AF ki ar cx pe pj cr mo pr de (fi ++ [(g, neg)]) li ps ors)
    | None =>
    match child_rule "link_filter" k with
    | Some p =>
        let t := text_of p in
        let neg := startswith (S "!") t in
        let l := if neg then firstn (length t - 5) (skipn 3 t) else firstn (length t - 4) (skipn 2 t) in
        Ok (AF ki ar cx pe pj cr mo pr de fi (li ++ [(l, neg)]) ps ors)
    | None => Ok f
    end end end end end end end end end end.

  (* the listener state: the Query under construction and the stack of and-filter groups *)
  Record qstate := mkQS { qs_q : query; qs_groups : list (list and_filter) }.

  Fixpoint fold_atoms (f : and_filter) (atoms : list tree) : res and_filter :=
    match atoms with [] => Ok f | a :: r => f' <- add_atom f a ;; fold_atoms f' r end.

  Definition push_last {A} (x : A) (l : list (list A)) : res (list (list A)) :=
    match rev l with
    | [] => Idx
    | g :: r => Ok (rev ((g ++ [x]) :: r))
    end.

  Definition keyword_of (tbl : list (string * string)) (toks : list (string * string)) (atom : tree) : option str :=
    let k := kids_of atom in
    match List.find (fun p => has_tok (fst p) k) toks with
    | Some p => Some (S (snd p))
    | None => match List.find (fun p => has_rule (fst p) k) tbl with
              | Some p => Some (S (snd p))
              | None => None
              end
    end.

  Open Scope string_scope.
  Definition group_atom (atom : tree) : res (option str) :=
    match keyword_of [("file", "FILE"); ("type", "NOTE_TYPE"); ("priority", "PRIORITY"); ("section", "SECTION")]
                     [("AT_SIGN", "CONTEXT"); ("HASH", "AREA"); ("PERCENT", "PERSON"); ("PLUS", "PROJECT")] atom with
    | Some s => Ok (Some s)
    | None => if eqb_str (text_of atom) (S "none") then Ok None else Asrt
    end.
  Definition order_atom (atom : tree) : res str :=
    match keyword_of [("alpha", "ALPHA"); ("create", "CREATE_DATE"); ("modify", "MODIFY_DATE"); ("priority", "PRIORITY");
                      ("type", "NOTE_TYPE"); ("none", "NONE")] [] atom with
    | Some s => Ok s
    | None => Exn (S "RuntimeError")
    end.

  Close Scope string_scope.

  Definition set_q (st : qstate) (q : query) : qstate := mkQS q (qs_groups st).

  Definition qenter (r : str) (kids : list tree) (st : qstate) : res qstate :=
    let q := qs_q st in
    if rn r "select" then s <- enter_select kids ;; Ok (set_q st (mkQ s (q_where q) (q_order q) (q_group q)))
    else if rn r "and_filter" then
      f <- fold_atoms empty_af (rules_named "where_atom" kids) ;;
      g <- push_last f (qs_groups st) ;; Ok (mkQS q g)
    else if rn r "group_by_body" then
      xs <- seq_res (map group_atom (rules_named "group_by_atom" kids)) ;;
      Ok (set_q st (mkQ (q_select q) (q_where q) (q_order q)
                        (flat_map (fun o => match o with Some s => [s] | None => [] end) xs)))
    else if rn r "order_by_body" then
      xs <- seq_res (map order_atom (rules_named "order_by_atom" kids)) ;;
      Ok (set_q st (mkQ (q_select q) (q_where q) xs (q_group q)))
    else if rn r "subfilter" then Ok (mkQS q (qs_groups st ++ [[]]))
    else if rn r "where" then Ok (mkQS q (qs_groups st ++ [[]]))
    else Ok st.

  Definition qexit (r : str) (kids : list tree) (st : qstate) : res qstate :=
    let q := qs_q st in
    if rn r "subfilter" then
      match rev (qs_groups st) with
      | [] => Idx
      | afs :: rest =>
          match rest with
          | [] => Idx
          | parent :: rest' =>
              match rev parent with
              | [] => Idx
              | lastf :: pr => Ok (mkQS q (rev (rev (add_or lastf afs :: pr) :: rest')))
              end
          end
      end
    else if rn r "where" then
      match rev (qs_groups st) with
      | [] => Idx
      | g :: _ => Ok (set_q st (mkQ (q_select q) (Some g) (q_order q) (q_group q)))
      end
    else Ok st.

  Fixpoint qwalk (t : tree) (st : qstate) : res qstate :=
    match t with
    | Node r _ kids =>
        st1 <- qenter r kids st ;;
        st2 <- (fix go (ks : list tree) (s : qstate) : res qstate :=
                  match ks with [] => Ok s | k :: ks' => s' <- qwalk k s ;; go ks' s' end) kids st1 ;;
        qexit r kids st2
    | _ => Ok st
    end.

  Definition qlisten (t : tree) : res query := st <- qwalk t (mkQS init_query []) ;; Ok (qs_q st).
End QListen.

(* app/config.py _process_query *)
Definition process_query (q0 : str) : str :=
  let q1 := if startswith (S "S ") q0 || startswith (S "W ") q0 then q0 else S "W " ++ q0 in
  let q2 := if negb (startswith (S "S ") q1) && negb (contains (S " G ") q1) then q1 ++ S " G file" else q1 in
  if startswith (S "S ") q2 && negb (startswith (S "S note") q2) && negb (contains (S " O ") q2)
  then q2 ++ S " O alpha" else q2.

(* ---- wire ---- *)
Definition sPop (p : pop) : sexp :=
  sA match p with PExists => "EXISTS" | PEq => "EQ" | PLt => "LT" | PLe => "LE" | PGt => "GT" | PGe => "GE" end.
Definition sVt (v : vtype) : sexp := sA match v with VDateT => "DATE" | VIntT => "INTEGER" | VStrT => "STRING" end.
Definition sDateOpt (d : option date) : sexp := sOpt (fun x => sStr (fmt_long x)) d.
Fixpoint sAF_fuel (fuel : nat) (f : and_filter) : sexp :=
  match fuel with
  | O => L []
  | Datatypes.S n =>
      match f with AF ki ar cx pe pj cr mo pr de fi li ps ors =>
        L [sList sStr ki; sList sStr ar; sList sStr cx; sList sStr pe; sList sStr pj;
           sList (fun r => L [sStr (fmt_long (fst r)); sDateOpt (snd r)]) cr;
           sList (fun r => L [sStr (fmt_long (fst r)); sDateOpt (snd r)]) mo;
           sList (fun p => L [sStr (pf_key p); sStr (pf_value p); sPop (pf_op p); sVt (pf_vt p); sB (pf_neg p)]) pr;
           sList (fun d => L [sStr (df_value d); sOpt sB (df_case d); sB (df_neg d)]) de;
           sList (fun x => L [sStr (fst x); sB (snd x)]) fi; sList (fun x => L [sStr (fst x); sB (snd x)]) li;
           sList sStr ps; sList (fun o => sList (sAF_fuel n) o) ors]
      end
  end.
Definition sSel (s : sel) : sexp :=
  match s with
  | QNote => sA "NOTE" | QFile => sA "FILE" | QArea => sA "AREA" | QContext => sA "CONTEXT" | QPerson => sA "PERSON"
  | QProject => sA "PROJECT" | QProp => sA "PROPERTY" | QLinks => sA "LINKS" | QPropValues k => L [sA "PV"; sStr k]
  end.
Definition sQuery (q : query) : sexp :=
  L [match q_select q with QSel s => sSel s | QAgg f s => L [sA "AGG"; sStr f; sSel s] end;
     sOpt (sList (sAF_fuel 40)) (q_where q); sList sStr (q_order q); sList sStr (q_group q)].

Definition cmd_qlisten (args : list sexp) : sexp :=
  match args with
  | [today; t] => sRes sQuery (qlisten (dDate3 today) (dTree t))
  | _ => err "qlisten: arity"
  end.
Definition cmd_process_query (args : list sexp) : sexp :=
  match args with [q] => sStr (process_query (dStr q)) | _ => err "process_query: arity" end.
