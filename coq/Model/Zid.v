(* C07: storage/sql/_zid_manager.py (_get_next_id, ZIDManager.get_next) and
   shared/dates.py:is_zid *)
From Zorg Require Import Base.PyStr Base.Sexp Base.Res Base.Dates Gen.Params.

Definition is_unsup (c : ascii) : bool := mem_c c unsupported_zid_chars.

(* `while next_ch in _UNSUPPORTED_ZID_CHARS: next_ch = chr(ord(next_ch)+1)` *)
Fixpoint skip_unsup (fuel : nat) (n : nat) : nat :=
  match fuel with
  | O => n
  | Datatypes.S f => if is_unsup (ascii_of_nat n) then skip_unsup f (Datatypes.S n) else n
  end.

(* None = carry into the next position *)
Definition next_char (c : ascii) : option ascii :=
  if ceqb c (ch "9") then Some (ch "A")
  else if ceqb c (ch "Z") then Some (ch "a")
  else if ceqb c (ch "z") then None
  else Some (ascii_of_nat (skip_unsup 64 (Datatypes.S (code c)))).

(* on the reversed id: last_id[:idx] + next_ch, padded with '0' *)
Fixpoint incr_rev (r : str) : option str :=
  match r with
  | [] => None
  | c :: r' =>
      match next_char c with
      | Some c' => Some (c' :: r')
      | None => option_map (cons (ch "0")) (incr_rev r')
      end
  end.

(* _get_next_id *)
Definition next_id (s : str) : res str :=
  match incr_rev (rev s) with
  | Some r => Ok (rev r)
  | None => if (length s =? 2)%nat then Ok (S "000") else Exn (S "RuntimeError")
  end.

(* the JSON file next_ids.json *)
Definition store := list (str * str).

Fixpoint lookup_s (k : str) (m : store) : option str :=
  match m with
  | [] => None
  | (k', v) :: m' => if eqb_str k k' then Some v else lookup_s k m'
  end.
(* dict assignment keeps the position of an existing key *)
Fixpoint update_s (k v : str) (m : store) : store :=
  match m with
  | [] => [(k, v)]
  | (k', v') :: m' => if eqb_str k k' then (k, v) :: m' else (k', v') :: update_s k v m'
  end.

Definition cur (st : store) (key : str) : str :=
  match lookup_s key st with Some v => v | None => S "00" end.

Definition zid := (str * str)%type.            (* date part, suffix *)
Definition render_zid (z : zid) : str := fst z ++ S "#" ++ snd z.

(* ZIDManager.get_next with the date already turned into its YYMMDD key.
   The manager re-reads the file on every call, so a restart is the identity
   on this state. *)
Definition get_next (st : store) (key : str) : res (zid * store) :=
  let id := cur st key in
  n <- next_id id ;; Ok ((key, id), update_s key n st).

Definition date_key (d : date) : str := fmt_short d.

(* a history of allocations (restarts are no-ops); failed ones leave the store *)
Fixpoint run (st : store) (keys : list str) : list zid :=
  match keys with
  | [] => []
  | k :: ks =>
      match get_next st k with
      | Ok (z, st') => z :: run st' ks
      | _ => run st ks
      end
  end.

(* dates.is_short_date_spec / is_zid *)
Definition is_short_date_spec (s : str) : bool := (length s =? 6)%nat && forallb is_digit s.
Definition is_zid (z : str) : bool :=
  ((length z =? 9)%nat || (length z =? 10)%nat) &&
  is_short_date_spec (firstn 6 z) &&
  match nth_error z 6 with Some c => ceqb c (ch "#") | None => false end.

(* the alphabet is the orbit of next_char from '0' *)
Fixpoint orbit (fuel : nat) (c : ascii) : list ascii :=
  match fuel with
  | O => []
  | Datatypes.S f => c :: match next_char c with Some c' => orbit f c' | None => [] end
  end.
Definition chars : list ascii := orbit 128 (ch "0").

Fixpoint index_of (c : ascii) (l : list ascii) : Z :=
  match l with
  | [] => 0%Z
  | x :: l' => if ceqb c x then 0%Z else (1 + index_of c l')%Z
  end.
Definition idx (c : ascii) : Z := index_of c chars.
Definition nchars : Z := Z.of_nat (length chars).

Definition in_chars (c : ascii) : bool := mem_c c chars.
Definition valid_suffix (s : str) : bool :=
  match s with
  | [a; b] => in_chars a && in_chars b
  | [a; b; c] => in_chars a && in_chars b && in_chars c
  | _ => false
  end.

(* position in the successor chain that starts at "00" *)
Definition rank (s : str) : Z :=
  match s with
  | [a; b] => (idx a * nchars + idx b)%Z
  | [a; b; c] => (nchars * nchars + (idx a * nchars + idx b) * nchars + idx c)%Z
  | _ => (-1)%Z
  end.

Definition all_suffixes : list str :=
  flat_map (fun a => map (fun b => [a; b]) chars) chars ++
  flat_map (fun a => flat_map (fun b => map (fun c => [a; b; c]) chars) chars) chars.

(* wire format *)
Definition dStore (x : sexp) : store := dList (fun e => (dStr (nthS 0 e), dStr (nthS 1 e))) x.
Definition sStore (st : store) : sexp := sList (fun kv => L [sStr (fst kv); sStr (snd kv)]) st.

Definition cmd_next_id (args : list sexp) : sexp :=
  match args with
  | [s] => sRes sStr (next_id (dStr s))
  | _ => err "next_id: arity"
  end.
Definition cmd_next_ids (args : list sexp) : sexp :=
  match args with
  | [l] => sList (fun s => sRes sStr (next_id s)) (dList dStr l)
  | _ => err "next_ids: arity"
  end.
(* (zid_hist store (key ...)) -> list of results + final store *)
Fixpoint hist (st : store) (keys : list str) : list sexp * store :=
  match keys with
  | [] => ([], st)
  | k :: ks =>
      match get_next st k with
      | Ok (z, st') => let (r, stf) := hist st' ks in (sStr (render_zid z) :: r, stf)
      | _ => let (r, stf) := hist st ks in (sA "EXN" :: r, stf)
      end
  end.
Definition cmd_zid_hist (args : list sexp) : sexp :=
  match args with
  | [st; keys] => let (r, stf) := hist (dStore st) (dList dStr keys) in L [L r; sStore stf]
  | _ => err "zid_hist: arity"
  end.
Definition cmd_is_zid (args : list sexp) : sexp :=
  match args with [s] => sB (is_zid (dStr s)) | _ => err "is_zid: arity" end.
Definition cmd_zid_chars (args : list sexp) : sexp := sStr chars.
