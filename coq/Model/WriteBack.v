(* C05 / C11: service/handlers.py (_pop_line_before_zid, _add_zid_to_line,
   _add_or_update_modify_date, _update_zo_file, _check_for_modified_notes) and
   storage/sql/_repo.py (_add_zids). *)
From Zorg Require Import Base.PyStr Base.Sexp Base.Res Base.Dates Model.Zid Model.FileListener Model.QueryListener Model.Where.

Definition nlc10 : ascii := ascii_of_nat 10.

(* _pop_line_before_zid on the list produced by line.split(" "): -> (prefix text, remaining words) *)
Fixpoint count_empty (ws : list str) : nat * list str :=
  match ws with
  | [] :: r => let (n, r') := count_empty r in (Datatypes.S n, r')
  | _ => (0, ws)
  end.
Definition is_prio_word (w : str) : bool :=
  match w with [p; d] => ceqb p (ch "P") && is_digit d | _ => false end.
Definition pop_before_zid (ws : list str) : res (str * list str) :=
  let (n, r) := count_empty ws in
  match r with
  | [] => Exn (S "IndexError")                     (* words[0] on an empty list *)
  | sym :: r1 =>
      match r1 with
      | [] => Exn (S "IndexError")
      | w :: r2 =>
          if is_prio_word w then Ok (repeat (ch " ") n ++ sym ++ S " " ++ w ++ S " ", r2)
          else Ok (repeat (ch " ") n ++ sym ++ S " ", r1)
      end
  end.

(* the long-date test of _add_zid_to_line: 10 characters, digits everywhere but at index 4 and 7 *)
Definition datelike10 (w : str) : bool :=
  match w with
  | [a; b; c; d; _; e; f; _; g; h] => forallb is_digit [a; b; c; d; e; f; g; h]
  | _ => false
  end.

Definition add_zid_to_line (zid line : str) : res str :=
  x <- pop_before_zid (split_on (ch " ") line) ;;
  let (pre, ws) := x in
  match ws with
  | [] => Exn (S "IndexError")
  | w :: r => let ws' := if datelike10 w then r else ws in
              Ok (pre ++ zid ++ S " " ++ join (S " ") ws')
  end.

Definition add_or_update_modify_date (d line : str) : res str :=
  x <- pop_before_zid (split_on (ch " ") line) ;;
  let (pre, ws) := x in
  let ws' := match ws with
             | w :: r => if (length w =? 6)%nat && forallb is_digit w then r else ws
             | [] => ws
             end in
  Ok (pre ++ d ++ S " " ++ join (S " ") ws').

(* _update_zo_file: rewrite the first line of each listed note; (line_no, number of body lines, thing) *)
Fixpoint set_nth {A} (n : nat) (x : A) (l : list A) : list A :=
  match l, n with
  | [], _ => []
  | _ :: r, O => x :: r
  | y :: r, Datatypes.S k => y :: set_nth k x r
  end.
Fixpoint update_lines (f : str -> str -> res str) (notes : list (nat * str)) (ls : list str) : res (list str) :=
  match notes with
  | [] => Ok ls
  | (line_no, thing) :: r =>
      match nth_error ls (line_no - 1) with
      | None => Exn (S "IndexError")
      | Some l => l' <- f thing l ;; update_lines f r (set_nth (line_no - 1) l' ls)
      end
  end.
Definition update_zo_file (f : str -> str -> res str) (notes : list (nat * str)) (text : str) : res str :=
  ls <- update_lines f notes (split_on nlc10 text) ;; Ok (join [nlc10] ls).

(* _add_zids: the in-memory body of a note that gets a ZID *)
Definition patch_body (zid body : str) : str :=
  let b := lstrip body in
  match split_on (ch " ") b with
  | w :: r => if is_long_date_spec w then zid ++ S " " ++ join (S " ") r else zid ++ S " " ++ b
  | [] => zid ++ S " " ++ b
  end.

(* _check_for_modified_notes *)
Record mnote := mkM { m_zid : option str; m_body : str; m_todo : option (str * str); m_modify : date; m_create : date }.

Definition todo_eqb (a b : option (str * str)) : bool :=
  match a, b with
  | None, None => true
  | Some (p, s), Some (q, t) => eqb_str p q && eqb_str s t
  | _, _ => false
  end.
Fixpoint find_zid (z : str) (l : list mnote) : option mnote :=
  (* dict built from old notes: a later note with the same ZID wins *)
  match l with
  | [] => None
  | o :: r => match find_zid z r with
              | Some x => Some x
              | None => match m_zid o with Some z' => if eqb_str z z' then Some o else None | None => None end
              end
  end.
Definition changed (n o : mnote) : bool := negb (eqb_str (m_body n) (m_body o) && todo_eqb (m_todo n) (m_todo o)).

(* Some new_body  when the note must be stamped *)
Definition stamp (today : date) (old : list mnote) (n : mnote) : option str :=
  match m_zid n with
  | None => None
  | Some z =>
      match find_zid z old with
      | None => None
      | Some o =>
          if negb (date_eqb (m_modify n) today) && changed n o then
            let b := lstrip (m_body n) in
            let old_body := if date_eqb (m_modify o) (m_create n) then b
                            else join (S " ") (skipn 1 (split_on (ch " ") b)) in
            Some (fmt_short today ++ S " " ++ old_body)
          else None
      end
  end.

(* wire *)
Definition cmd_add_zid_to_line (args : list sexp) : sexp :=
  match args with [z; l] => sRes sStr (add_zid_to_line (dStr z) (dStr l)) | _ => err "add_zid_to_line: arity" end.
Definition cmd_add_mdate (args : list sexp) : sexp :=
  match args with [d; l] => sRes sStr (add_or_update_modify_date (dStr d) (dStr l)) | _ => err "add_mdate: arity" end.
Definition cmd_patch_body (args : list sexp) : sexp :=
  match args with [z; b] => sStr (patch_body (dStr z) (dStr b)) | _ => err "patch_body: arity" end.
Definition cmd_update_zo (args : list sexp) : sexp :=
  match args with
  | [mode; notes; text] =>
      let f := if eqb_str (dStr mode) (S "zid") then add_zid_to_line else add_or_update_modify_date in
      sRes sStr (update_zo_file f (dList (fun e => (dNat (nthS 0 e), dStr (nthS 1 e))) notes) (dStr text))
  | _ => err "update_zo: arity"
  end.
Definition dM (x : sexp) : mnote :=
  mkM (dOpt dStr (nthS 0 x)) (dStr (nthS 1 x)) (dOpt (fun e => (dStr (nthS 0 e), dStr (nthS 1 e))) (nthS 2 x))
      (dDateISO (nthS 3 x)) (dDateISO (nthS 4 x)).
Definition cmd_stamp (args : list sexp) : sexp :=
  match args with
  | [today; old; n] => sOpt sStr (stamp (dDate3 today) (dList dM old) (dM n))
  | _ => err "stamp: arity"
  end.
