(* C15: service/swog/_saved_queries.py — expand_saved_queries *)
From Zorg Require Import Base.PyStr Base.Sexp Base.Res.

Definition lbrace := ch "{".
Definition rbrace := ch "}".
Definition nlc : ascii := ascii_of_nat 10.

(* from just after a '{': the text up to the first '}' with no newline before it *)
Fixpoint upto_rbrace (s : str) (cur : str) : option (str * str) :=
  match s with
  | [] => None
  | c :: s' => if ceqb c rbrace then Some (rev cur, s')
               else if ceqb c nlc then None
               else upto_rbrace s' (c :: cur)
  end.

(* re.findall(r"\{(.*?)\}", s), in order of occurrence *)
Fixpoint names_fuel (fuel : nat) (s : str) : list str :=
  match fuel with
  | O => []
  | Datatypes.S f =>
      match s with
      | [] => []
      | c :: s' =>
          if ceqb c lbrace then
            match upto_rbrace s' [] with
            | Some (n, rest) => n :: names_fuel f rest
            | None => names_fuel f s'
            end
          else names_fuel f s'
      end
  end.
Definition names_in (s : str) : list str := uniq (names_fuel (length s) s).

(* first line of the .zoq file, without its 2-character prefix; the words between W and O/G *)
Definition first_line (t : str) : str := match split_on nlc t with l :: _ => l | [] => [] end.
Fixpoint where_words_go (ws : list str) (inw : bool) : list str :=
  match ws with
  | [] => []
  | w :: r =>
      if eqb_str w (S "W") then where_words_go r true
      else if eqb_str w (S "O") then where_words_go r false
      else if eqb_str w (S "G") then where_words_go r false
      else if inw then w :: where_words_go r inw else where_words_go r inw
  end.
Definition where_words (file_text : str) : list str :=
  where_words_go (split_on (ch " ") (skipn 2 (first_line file_text))) false.

Definition saved := list (str * str).       (* query name -> text of zoq/<name>.zoq *)
Fixpoint sv_lookup (k : str) (m : saved) : option str :=
  match m with
  | [] => None
  | (k', v) :: r => if eqb_str k k' then Some v else sv_lookup k r
  end.

Definition ref_of (n : str) : str := [lbrace] ++ n ++ [rbrace].
Definition has_brace (s : str) : bool := mem_c lbrace s || mem_c rbrace s.

(* substitute, in turn, every referenced name; a spliced text that itself
   contains braces would make the result depend on Python's set order *)
Fixpoint subst_all (subs : list (str * str)) (text : str) : res str :=
  match subs with
  | [] => Ok text
  | (n, w) :: r => if has_brace w then OutOfModel else subst_all r (replace (ref_of n) w text)
  end.

Fixpoint where_of (fuel : nat) (sv : saved) (name : str) : res str :=
  match fuel with
  | O => OutOfFuel
  | Datatypes.S f =>
      match sv_lookup name sv with
      | None => Exn (S "missing")
      | Some text =>
          let ws := where_words text in
          let w0 := join (S " ") ws in
          subs <- seq_res (map (fun n => rmap (fun w => (n, w)) (where_of f sv n)) (names_in w0)) ;;
          w <- subst_all subs w0 ;;
          Ok (if mem_str (S "|") ws then S "(" ++ w ++ S ")" else w)
      end
  end.

(* expand_saved_queries: None is modelled as Exn "missing" *)
Definition expand (fuel : nat) (sv : saved) (q : str) : res str :=
  subs <- seq_res (map (fun n => rmap (fun w => (n, w)) (where_of fuel sv n)) (names_in q)) ;;
  subst_all subs q.

Definition dSaved (x : sexp) : saved := dList (fun e => (dStr (nthS 0 e), dStr (nthS 1 e))) x.
Definition cmd_expand_saved (args : list sexp) : sexp :=
  match args with
  | [fuel; sv; q] => sRes sStr (expand (dNat fuel) (dSaved sv) (dStr q))
  | _ => err "expand_saved: arity"
  end.
Definition cmd_names_in (args : list sexp) : sexp :=
  match args with [q] => sList sStr (names_in (dStr q)) | _ => err "names_in: arity" end.
