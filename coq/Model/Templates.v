(* C16: service/templates.py init_from_template / _build_template_in_dir and
   shared/common.py process_var_map.  Regex matching and jinja2 rendering are
   oracles (Section variables); the model decides the control logic, the
   variable map and the template body. *)
From Zorg Require Import Base.PyStr Base.Sexp Base.Res Base.Dates.

Definition fsmap := list (str * str).        (* relative path -> contents *)
Fixpoint fs_lookup (p : str) (fs : fsmap) : option str :=
  match fs with
  | [] => None
  | (k, v) :: r => if eqb_str p k then Some v else fs_lookup p r
  end.
Fixpoint fs_write (p c : str) (fs : fsmap) : fsmap :=
  match fs with
  | [] => [(p, c)]
  | (k, v) :: r => if eqb_str p k then (p, c) :: r else (k, v) :: fs_write p c r
  end.
Definition fs_exists (p : str) (fs : fsmap) : bool :=
  match fs_lookup p fs with Some _ => true | None => false end.

(* prepend_zdir's extension rule, on zdir-relative names *)
Definition norm_path (p : str) : str := if mem_c (ch ".") p then p else p ++ S ".zo".

(* ---- process_var_map ---- *)
Inductive var := VStr (s : str) | VDate (d : date).

(* re.match("^[0-9]{4}[01][0-9][0-3][0-9]$", v): `$` also matches before a final newline *)
Definition date_like8 (v : str) : bool :=
  match v with
  | [a; b; c; d; m1; m2; d1; d2] =>
      is_digit a && is_digit b && is_digit c && is_digit d &&
      (ceqb m1 (ch "0") || ceqb m1 (ch "1")) && is_digit m2 &&
      (between 48 51 d1) && is_digit d2
  | _ => false
  end.
Definition nl : ascii := ascii_of_nat 10.
Definition process_var (v : str) : res var :=
  if date_like8 v then
    match parse_ymd8 v with Some d => Ok (VDate d) | None => Exn (S "ValueError") end
  else if (length v =? 9)%nat && date_like8 (firstn 8 v) && eqb_str (skipn 8 v) [nl] then
    Exn (S "ValueError")   (* strptime: unconverted data remains *)
  else Ok (VStr v).

Definition varmap := list (str * str).
Fixpoint vm_set (k v : str) (m : varmap) : varmap :=
  match m with
  | [] => [(k, v)]
  | (k', v') :: r => if eqb_str k k' then (k, v) :: r else (k', v') :: vm_set k v r
  end.
(* var_map |= groupdict *)
Definition vm_union (m g : varmap) : varmap := fold_left (fun acc kv => vm_set (fst kv) (snd kv) acc) g m.

Fixpoint process_vars (m : varmap) : res (list (str * var)) :=
  match m with
  | [] => Ok []
  | (k, v) :: r => x <- process_var v ;; xs <- process_vars r ;; Ok ((k, x) :: xs)
  end.

(* ---- _build_template_in_dir: the body handed to jinja2 ---- *)
(* `for line in file`: lines keep their newline *)
Fixpoint lines_keepends_go (s : str) (cur : str) : list str :=
  match s with
  | [] => match cur with [] => [] | _ => [rev cur] end
  | c :: s' => if ceqb c nl then rev (c :: cur) :: lines_keepends_go s' []
               else lines_keepends_go s' (c :: cur)
  end.
Definition lines_keepends (s : str) : list str := lines_keepends_go s [].

Definition is_blank (l : str) : bool := match strip l with [] => true | _ => false end.
Definition fix_line (l : str) : str :=
  if startswith (S "## ") l || eqb_str (strip l) (S "##") then skipn 1 l else l.

Fixpoint body_lines (ls : list str) (found : bool) : list str :=
  match ls with
  | [] => []
  | l :: r =>
      if found then fix_line l :: body_lines r true
      else if is_blank l then body_lines r true
      else body_lines r false
  end.
Definition build_body (tmpl_text : str) : str := concat (body_lines (lines_keepends tmpl_text) false).

(* ---- init_from_template ---- *)
Section Init.
  (* oracle: pattern.match(path) -> groupdict, None when it does not match *)
  Variable pmatch : str -> str -> option varmap.
  (* oracle: jinja2 rendering of a template body with the processed variables *)
  Variable render : str -> list (str * var) -> res str.

  Fixpoint first_match (pats : list (str * str)) (path : str) : option (str * varmap) :=
    match pats with
    | [] => None
    | (pat, tmpl) :: r =>
        match pmatch pat path with
        | Some g => Some (tmpl, g)
        | None => first_match r path
        end
    end.

  Inductive plan :=
  | NoWrite
  | Write (path tmpl body : str) (vars : list (str * var)).

  Definition plan_of (fs : fsmap) (pats : list (str * str)) (path0 : str)
             (template : option str) (vars : varmap) (overwrite : bool) : res plan :=
    let path := norm_path path0 in
    if fs_exists path fs && negb overwrite then Ok NoWrite else
    let chosen :=
      match first_match pats path with
      | Some (t, g) => Some (t, vm_union vars g)
      | None => match template with Some t => Some (t, vars) | None => None end
      end in
    match chosen with
    | None => Ok NoWrite
    | Some (t, vm) =>
        match fs_lookup (norm_path t) fs with
        | None => Exn (S "FileNotFoundError")
        | Some text =>
            pv <- process_vars vm ;;
            Ok (Write path (norm_path t) (build_body text) pv)
        end
    end.

  Definition init (fs : fsmap) (pats : list (str * str)) (path0 : str)
             (template : option str) (vars : varmap) (overwrite : bool) : res fsmap :=
    p <- plan_of fs pats path0 template vars overwrite ;;
    match p with
    | NoWrite => Ok fs
    | Write path _ body pv => c <- render body pv ;; Ok (fs_write path c fs)
    end.
End Init.

(* wire format: the harness evaluates the regex oracle on the (single) target
   path and passes one entry per pattern *)
Definition dVarmap (x : sexp) : varmap := dList (fun e => (dStr (nthS 0 e), dStr (nthS 1 e))) x.
Definition sVar (v : var) : sexp :=
  match v with
  | VStr s => L [sA "s"; sStr s]
  | VDate d => L [sA "d"; sZ (yr d); sZ (mo d); sZ (dy d)]
  end.
Fixpoint lookup_tab (pat : str) (tab : list (str * option varmap)) : option varmap :=
  match tab with
  | [] => None
  | (k, v) :: r => if eqb_str pat k then v else lookup_tab pat r
  end.
Definition sPlan (p : plan) : sexp :=
  match p with
  | NoWrite => L [sA "nowrite"]
  | Write path tmpl body vars =>
      L [sA "write"; sStr path; sStr tmpl; sStr body; sList (fun kv => L [sStr (fst kv); sVar (snd kv)]) vars]
  end.
(* (tmpl_plan fs ((pat tmpl (groups)|()) ...) path (template)|() vars overwrite) *)
Definition cmd_tmpl_plan (args : list sexp) : sexp :=
  match args with
  | [fs; pats; path; template; vars; ow] =>
      let tab := dList (fun e => (dStr (nthS 0 e), dOpt dVarmap (nthS 2 e))) pats in
      let plist := dList (fun e => (dStr (nthS 0 e), dStr (nthS 1 e))) pats in
      sRes sPlan (plan_of (fun pat _ => lookup_tab pat tab)
                          (dList (fun e => (dStr (nthS 0 e), dStr (nthS 1 e))) fs)
                          plist (dStr path) (dOpt dStr template) (dVarmap vars) (dBool ow))
  | _ => err "tmpl_plan: arity"
  end.
Definition cmd_build_body (args : list sexp) : sexp :=
  match args with [t] => sStr (build_body (dStr t)) | _ => err "build_body: arity" end.
