(* Abstract well-formed queries, the parse tree the ANTLR parser builds for their text (tree_of_query; compared
   with the real parser on every run, implicit-literal token types normalised to LIT) and the structure they
   denote (spec_query). *)
From Zorg Require Import Base.PyStr Base.Sexp Base.Res Base.Dates Model.Zid Model.FileListener Model.QueryListener
  Model.PageSyntax.

Inductive kch := KDash | KO | KX | KTilde | KLt | KGt.
Definition kch_tok (k : kch) : tree :=
  match k with KDash => tks "DASH" "-" | KO => tks "LOWER_O" "o" | KX => tks "LOWER_X" "x" | KTilde => tks "TILDE" "~"
          | KLt => tks "LANGLE" "<" | KGt => tks "RANGLE" ">" end.
Definition kch_str (k : kch) : str :=
  match k with KDash => S "-" | KO => S "o" | KX => S "x" | KTilde => S "~" | KLt => S "<" | KGt => S ">" end.

Inductive qatom :=
| AKinds (ks : list kch)
| APrio (p : str) (hi : option str)
| ATag (neg : bool) (k : tagk) (s : str)
| ACreate (head : str) (tail : option str)
| AModify (head : str) (tail : option str)
| AProp (neg : bool) (key : str) (op : option str) (value : option str)
| ALink (neg : bool) (dirs : list str) (name : str)
| AFile (neg : bool) (dirs : list str) (name : str) (star : bool)
| ASub (o : list (list qatom)).
Definition aand := list qatom.
Definition aor := list aand.

Definition lit (s : str) : tree := Tok (S "LIT") s.
Definition lits (s : string) : tree := Tok (S "LIT") (S s).
Definition sp : tree := tks "SPACE" " ".
Definition qid (s : str) : tree := nd "id" 1 [tk "ID" s].
Definition not_op (neg : bool) : list tree := if neg then [nd "not_op" 1 [lits "!"]] else [].
Definition path_toks (dirs : list str) : list tree := flat_map (fun d => [qid d; tks "FSLASH" "/"]) dirs.
Definition op_tok (op : str) : tree :=
  if eqb_str op (S "<") then tks "LANGLE" "<" else if eqb_str op (S ">") then tks "RANGLE" ">" else lit op.
Definition opt_tok (ty : string) (o : option str) : list tree := match o with Some t => [tk ty t] | None => [] end.

(* separated lists *)
Fixpoint sep_by (sep : list tree) (l : list tree) : list tree :=
  match l with
  | [] => []
  | [x] => [x]
  | x :: r => x :: sep ++ sep_by sep r
  end.

Fixpoint tree_of_atom (a : qatom) : tree :=
  nd "where_atom" 1
     [match a with
      | AKinds ks => nd "note_type" 1 (map (fun k => nd "note_type_char" 1 [kch_tok k]) ks)
      | APrio p hi => nd "priority_range" 1
                         (tk "PRIORITY" p :: match hi with Some h => [tks "DASH" "-"; lit h] | None => [] end)
      | ATag neg k s => nd "tag" 1 (not_op neg ++ [nd (tag_rule k) 1 [tag_tok k; qid s]])
      | ACreate h t => nd "create_range" 1 (tk "CREATE_RANGE_HEAD" h :: opt_tok "DATE_RANGE_TAIL" t)
      | AModify h t => nd "modify_range" 1 (tk "MODIFY_RANGE_HEAD" h :: opt_tok "DATE_RANGE_TAIL" t)
      | AProp neg key op v =>
          nd "prop_filter" 1 (not_op neg ++ [qid key; tks "COLON" ":"] ++
                              match op with Some o => [nd "prop_op" 1 [op_tok o]] | None => [] end ++
                              [match v with Some x => qid x | None => tks "STAR" "*" end])
      | ALink neg dirs name => nd "link_filter" 1 (not_op neg ++ [lits "[["] ++ path_toks dirs ++ [qid name; lits "]]"])
      | AFile neg dirs name star =>
          nd "file_filter" 1 (not_op neg ++ [lits "f="] ++ path_toks dirs ++ [qid name] ++
                              if star then [tks "STAR" "*"] else [])
      | ASub o =>
          nd "subfilter" 1
             [tks "LPAREN" "(";
              nd "or_filter" 1
                 (sep_by [sp; lits "|"; sp]
                    ((fix ands (o : list (list qatom)) : list tree :=
                        match o with
                        | [] => []
                        | a :: r => nd "and_filter" 1 (sep_by [sp] ((fix atoms (l : list qatom) : list tree :=
                                                                       match l with [] => [] | x :: r' => tree_of_atom x :: atoms r' end) a))
                                    :: ands r
                        end) o));
              tks "RPAREN" ")"]
      end].
Definition tree_of_and (a : aand) : tree := nd "and_filter" 1 (sep_by [sp] (map tree_of_atom a)).
Definition tree_of_or (o : aor) : tree := nd "or_filter" 1 (sep_by [sp; lits "|"; sp] (map tree_of_and o)).

(* S / O / G clauses *)
Inductive afield := FFile | FNote | FProp | FPropValues (k : str) | FLinks | FTag (k : tagk).
Inductive aselect := ASel (f : afield) | ACount (f : afield).
Inductive okey := OAlpha | OCreate | OModify | OPriority | OType | ONone.
Inductive gkey := GFile | GSection | GType | GPriority | GNone | GTag (k : tagk).
Inductive aog := OGNone | OGO (os : list okey) | OGG (gs : list gkey) | OGOG (os : list okey) (gs : list gkey)
               | OGGO (gs : list gkey) (os : list okey).
Inductive aquery := QWhere (s : option aselect) (w : aor) (og : aog) | QSelect (s : aselect) (og : aog).

Definition kw (r w : string) : tree := nd r 1 [lits w].
Definition tree_of_field (f : afield) : tree :=
  nd "select_field" 1
     [match f with
      | FFile => kw "file" "file" | FNote => kw "note" "note" | FProp => kw "prop" "prop" | FLinks => kw "links" "links"
      | FPropValues k => nd "prop_values" 1 [kw "prop" "prop"; tks "COLON" ":"; qid k]
      | FTag k => tag_tok k
      end].
Definition tree_of_select (s : aselect) : tree :=
  nd "select" 1
     [lits "S"; sp;
      nd "select_body" 1
         [match s with
          | ASel f => tree_of_field f
          | ACount f => nd "select_agg" 1 [kw "func_name" "count"; tks "LPAREN" "("; tree_of_field f; tks "RPAREN" ")"]
          end]].
Definition tree_of_okey (k : okey) : tree :=
  nd "order_by_atom" 1
     [match k with OAlpha => kw "alpha" "alpha" | OCreate => kw "create" "create" | OModify => kw "modify" "modify"
              | OPriority => kw "priority" "priority" | OType => kw "type" "type" | ONone => kw "none" "none" end].
Definition tree_of_gkey (k : gkey) : tree :=
  nd "group_by_atom" 1
     [match k with GFile => kw "file" "file" | GSection => kw "section" "section" | GType => kw "type" "type"
              | GPriority => kw "priority" "priority" | GNone => kw "none" "none" | GTag t => tag_tok t end].
Definition tree_of_order (os : list okey) : tree :=
  nd "order_by" 1 [lits "O"; sp; nd "order_by_body" 1 (sep_by [sp] (map tree_of_okey os))].
Definition tree_of_group (gs : list gkey) : tree :=
  nd "group_by" 1 [lits "G"; sp; nd "group_by_body" 1 (sep_by [sp] (map tree_of_gkey gs))].
Definition tree_of_og (og : aog) : tree :=
  nd "order_and_group" 1
     match og with
     | OGNone => []
     | OGO os => [sp; tree_of_order os]
     | OGG gs => [sp; tree_of_group gs]
     | OGOG os gs => [sp; tree_of_order os; sp; tree_of_group gs]
     | OGGO gs os => [sp; tree_of_group gs; sp; tree_of_order os]
     end.
Definition tree_of_where (w : aor) : tree := nd "where" 1 [lits "W"; sp; nd "where_body" 1 [tree_of_or w]].
Definition tree_of_query (q : aquery) : tree :=
  nd "prog" 1
     [nd "query" 1
         [match q with
          | QWhere s w og =>
              nd "where_query" 1 (match s with Some x => [tree_of_select x; sp] | None => [] end ++
                                  [tree_of_where w; tree_of_og og])
          | QSelect s og => nd "select_query" 1 [tree_of_select s; tree_of_og og]
          end]].

(* ---- the structure a query denotes ---- *)
Definition atom_text (a : qatom) : str := text_of (tree_of_atom a).

Definition af_kinds (f : and_filter) (x : list str) : and_filter :=
  match f with AF ki ar cx pe pj cr mo pr de fi li ps ors => AF (ki ++ x) ar cx pe pj cr mo pr de fi li ps ors end.
Definition af_prios (f : and_filter) (x : list str) : and_filter :=
  match f with AF ki ar cx pe pj cr mo pr de fi li ps ors => AF ki ar cx pe pj cr mo pr de fi li (ps ++ x) ors end.
Definition af_tag (f : and_filter) (k : tagk) (x : str) : and_filter :=
  match f with AF ki ar cx pe pj cr mo pr de fi li ps ors =>
    match k with
    | KArea => AF ki (ar ++ [x]) cx pe pj cr mo pr de fi li ps ors
    | KContext => AF ki ar (cx ++ [x]) pe pj cr mo pr de fi li ps ors
    | KPerson => AF ki ar cx (pe ++ [x]) pj cr mo pr de fi li ps ors
    | KProject => AF ki ar cx pe (pj ++ [x]) cr mo pr de fi li ps ors
    end
  end.
Definition af_create (f : and_filter) (x : date * option date) : and_filter :=
  match f with AF ki ar cx pe pj cr mo pr de fi li ps ors => AF ki ar cx pe pj (cr ++ [x]) mo pr de fi li ps ors end.
Definition af_modify (f : and_filter) (x : date * option date) : and_filter :=
  match f with AF ki ar cx pe pj cr mo pr de fi li ps ors => AF ki ar cx pe pj cr (mo ++ [x]) pr de fi li ps ors end.
Definition af_prop (f : and_filter) (x : prop_filter) : and_filter :=
  match f with AF ki ar cx pe pj cr mo pr de fi li ps ors => AF ki ar cx pe pj cr mo (pr ++ [x]) de fi li ps ors end.
Definition af_file (f : and_filter) (x : str * bool) : and_filter :=
  match f with AF ki ar cx pe pj cr mo pr de fi li ps ors => AF ki ar cx pe pj cr mo pr de (fi ++ [x]) li ps ors end.
Definition af_link (f : and_filter) (x : str * bool) : and_filter :=
  match f with AF ki ar cx pe pj cr mo pr de fi li ps ors => AF ki ar cx pe pj cr mo pr de fi (li ++ [x]) ps ors end.

Definition range_of (today : date) (h : str) (t : option str) : res (date * option date) :=
  s <- from_date_spec today (skipn 1 h) ;;
  match t with
  | None => Ok (s, None)
  | Some x => e <- from_date_spec today (skipn 1 x) ;; Ok (s, Some e)
  end.
Definition inner_text (a : qatom) : str :=       (* the text of the atom (its single child) *)
  atom_text a.

(* what one atom adds to its and-group (sub-filters are attached separately) *)
Definition spec_atom (today : date) (f : and_filter) (a : qatom) : res and_filter :=
  match a with
  | AKinds ks => Ok (af_kinds f (map kch_str ks))
  | APrio p hi => x <- priorities_of (atom_text a) ;; Ok (af_prios f x)
  | ATag neg k s => Ok (af_tag f k ((if neg then S "-" else []) ++ s))
  | ACreate h t => r <- range_of today h t ;; Ok (af_create f r)
  | AModify h t => r <- range_of today h t ;; Ok (af_modify f r)
  | AProp _ _ _ _ => x <- prop_filter_of (atom_text a) ;; Ok (af_prop f x)
  | ALink neg _ _ =>
      let t := atom_text a in
      Ok (af_link f (if neg then firstn (length t - 5) (skipn 3 t) else firstn (length t - 4) (skipn 2 t), neg))
  | AFile neg _ _ _ =>
      let t := atom_text a in
      let g := if neg then skipn 3 t else skipn 2 t in
      Ok (af_file f (if endswith (S "*") g then g else g ++ S ".zo", neg))
  | ASub _ => Ok f
  end.

Fixpoint res_fold {A B} (g : A -> B -> res A) (a : A) (l : list B) : res A :=
  match l with [] => Ok a | x :: r => a' <- g a x ;; res_fold g a' r end.

(* and-group: the atoms in order; then every parenthesised sub-filter becomes one `ors` entry, in order *)
Fixpoint spec_and_fuel (fuel : nat) (today : date) (a : aand) : res and_filter :=
  match fuel with
  | O => OutOfFuel
  | Datatypes.S n =>
      f <- res_fold (spec_atom today) empty_af a ;;
      res_fold (fun f x => match x with
                           | ASub o => afs <- seq_res (map (spec_and_fuel n today) o) ;; Ok (add_or f afs)
                           | _ => Ok f
                           end) f a
  end.
Definition spec_or_fuel (fuel : nat) (today : date) (o : aor) : res (list and_filter) :=
  seq_res (map (spec_and_fuel fuel today) o).

Definition sel_of (f : afield) : sel :=
  match f with
  | FFile => QFile | FNote => QNote | FProp => QProp | FPropValues k => QPropValues k | FLinks => QLinks
  | FTag KArea => QArea | FTag KContext => QContext | FTag KPerson => QPerson | FTag KProject => QProject
  end.
Definition select_of (s : aselect) : select :=
  match s with ASel f => QSel (sel_of f) | ACount f => QAgg (S "count") (sel_of f) end.
Definition okey_str (k : okey) : str :=
  match k with OAlpha => S "ALPHA" | OCreate => S "CREATE_DATE" | OModify => S "MODIFY_DATE" | OPriority => S "PRIORITY"
          | OType => S "NOTE_TYPE" | ONone => S "NONE" end.
Definition gkey_str (k : gkey) : list str :=
  match k with
  | GFile => [S "FILE"] | GSection => [S "SECTION"] | GType => [S "NOTE_TYPE"] | GPriority => [S "PRIORITY"] | GNone => []
  | GTag KArea => [S "AREA"] | GTag KContext => [S "CONTEXT"] | GTag KPerson => [S "PERSON"] | GTag KProject => [S "PROJECT"]
  end.
Definition og_order (og : aog) : option (list okey) :=
  match og with OGO os | OGOG os _ | OGGO _ os => Some os | _ => None end.
Definition og_group (og : aog) : option (list gkey) :=
  match og with OGG gs | OGOG _ gs | OGGO gs _ => Some gs | _ => None end.

(* defaults: S note; the four default ORDER BY keys; no grouping; no WHERE *)
Definition spec_query_fuel (fuel : nat) (today : date) (q : aquery) : res query :=
  let mk (s : option aselect) (w : option (list and_filter)) (og : aog) :=
    mkQ (match s with Some x => select_of x | None => QSel QNote end) w
        (match og_order og with Some os => map okey_str os | None => default_order end)
        (match og_group og with Some gs => flat_map gkey_str gs | None => [] end) in
  match q with
  | QWhere s w og => afs <- spec_or_fuel fuel today w ;; Ok (mk s (Some afs) og)
  | QSelect s og => Ok (mk (Some s) None og)
  end.

(* nesting depth, so that fuel never runs out *)
Fixpoint atom_depth (a : qatom) : nat :=
  match a with
  | ASub o => Datatypes.S ((fix ands (o : list (list qatom)) : nat :=
                              match o with
                              | [] => 0
                              | a :: r => Nat.max ((fix atoms (l : list qatom) : nat :=
                                                      match l with [] => 0 | x :: r' => Nat.max (atom_depth x) (atoms r') end) a)
                                                  (ands r)
                              end) o)
  | _ => 0
  end.
Definition and_depth (a : aand) : nat := fold_right (fun x n => Nat.max (atom_depth x) n) 0 a.
Definition or_depth (o : aor) : nat := fold_right (fun a n => Nat.max (and_depth a) n) 0 o.
Definition spec_query (today : date) (q : aquery) : res query :=
  spec_query_fuel (Datatypes.S (match q with QWhere _ w _ => or_depth w | QSelect _ _ => 0 end)) today q.

(* ---- wire ---- *)
Definition dKch (x : sexp) : kch :=
  let s := dStr x in
  if eqb_str s (S "-") then KDash else if eqb_str s (S "o") then KO else if eqb_str s (S "x") then KX
  else if eqb_str s (S "~") then KTilde else if eqb_str s (S "<") then KLt else KGt.
Fixpoint dAtom_fuel (fuel : nat) (x : sexp) : qatom :=
  match fuel with
  | O => AKinds []
  | Datatypes.S n =>
      let k := dStr (nthS 0 x) in
      if eqb_str k (S "kinds") then AKinds (dList dKch (nthS 1 x))
      else if eqb_str k (S "prio") then APrio (dStr (nthS 1 x)) (dOpt dStr (nthS 2 x))
      else if eqb_str k (S "tag") then ATag (dBool (nthS 1 x)) (dTagk (nthS 2 x)) (dStr (nthS 3 x))
      else if eqb_str k (S "create") then ACreate (dStr (nthS 1 x)) (dOpt dStr (nthS 2 x))
      else if eqb_str k (S "modify") then AModify (dStr (nthS 1 x)) (dOpt dStr (nthS 2 x))
      else if eqb_str k (S "prop") then AProp (dBool (nthS 1 x)) (dStr (nthS 2 x)) (dOpt dStr (nthS 3 x)) (dOpt dStr (nthS 4 x))
      else if eqb_str k (S "link") then ALink (dBool (nthS 1 x)) (dList dStr (nthS 2 x)) (dStr (nthS 3 x))
      else if eqb_str k (S "file") then AFile (dBool (nthS 1 x)) (dList dStr (nthS 2 x)) (dStr (nthS 3 x)) (dBool (nthS 4 x))
      else ASub (match nthS 1 x with
                 | SL ands => map (fun a => match a with SL atoms => map (dAtom_fuel n) atoms | _ => [] end) ands
                 | _ => []
                 end)
  end.
Definition dOr (x : sexp) : aor :=
  match x with SL ands => map (fun a => match a with SL atoms => map (dAtom_fuel 16) atoms | _ => [] end) ands | _ => [] end.
Definition dField (x : sexp) : afield :=
  let k := dStr (nthS 0 x) in
  if eqb_str k (S "file") then FFile else if eqb_str k (S "note") then FNote else if eqb_str k (S "prop") then FProp
  else if eqb_str k (S "links") then FLinks else if eqb_str k (S "pv") then FPropValues (dStr (nthS 1 x))
  else FTag (dTagk (nthS 1 x)).
Definition dSelect (x : sexp) : aselect :=
  if eqb_str (dStr (nthS 0 x)) (S "count") then ACount (dField (nthS 1 x)) else ASel (dField (nthS 1 x)).
Definition dOkey (x : sexp) : okey :=
  let s := dStr x in
  if eqb_str s (S "alpha") then OAlpha else if eqb_str s (S "create") then OCreate else if eqb_str s (S "modify") then OModify
  else if eqb_str s (S "priority") then OPriority else if eqb_str s (S "type") then OType else ONone.
Definition dGkey (x : sexp) : gkey :=
  let s := dStr x in
  if eqb_str s (S "file") then GFile else if eqb_str s (S "section") then GSection else if eqb_str s (S "type") then GType
  else if eqb_str s (S "priority") then GPriority else if eqb_str s (S "none") then GNone else GTag (dTagk x).
Definition dOg (x : sexp) : aog :=
  let k := dStr (nthS 0 x) in
  if eqb_str k (S "o") then OGO (dList dOkey (nthS 1 x))
  else if eqb_str k (S "g") then OGG (dList dGkey (nthS 1 x))
  else if eqb_str k (S "og") then OGOG (dList dOkey (nthS 1 x)) (dList dGkey (nthS 2 x))
  else if eqb_str k (S "go") then OGGO (dList dGkey (nthS 1 x)) (dList dOkey (nthS 2 x))
  else OGNone.
Definition dQuery (x : sexp) : aquery :=
  if eqb_str (dStr (nthS 0 x)) (S "where")
  then QWhere (dOpt dSelect (nthS 1 x)) (dOr (nthS 2 x)) (dOg (nthS 3 x))
  else QSelect (dSelect (nthS 1 x)) (dOg (nthS 2 x)).

Definition cmd_query_tree (args : list sexp) : sexp :=
  match args with [q] => sTree (tree_of_query (dQuery q)) | _ => err "query_tree: arity" end.
Definition cmd_query_spec (args : list sexp) : sexp :=
  match args with
  | [today; q] => sRes sQuery (spec_query (dDate3 today) (dQuery q))
  | _ => err "query_spec: arity"
  end.
