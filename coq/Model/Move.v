(* C10: storage/file/_manager.py (add_note, delete_note) and
   service/note_utils.py (_to_done_note, _add_hidden_metadata, _note_body_has_tag) *)
From Zorg Require Import Base.PyStr Base.Sexp Base.Res Model.NoteText.

Definition nlc : ascii := ascii_of_nat 10.
Definition is_blank_line (l : str) : bool := match strip l with [] => true | _ => false end.
Definition starts_item (l : str) : bool :=
  existsb (fun p => startswith p l) [S "- "; S "o "; S "~ "; S "x "; S "< "; S "> "].

(* FileManager.add_note: the insertion index *)
Fixpoint ins_go (ls : list str) (i : nat) (in_note : bool) (start : nat) : nat :=
  match ls with
  | [] => start
  | l :: r =>
      let in1 := in_note || starts_item l in
      if in1 && is_blank_line l then ins_go r (Datatypes.S i) false i
      else ins_go r (Datatypes.S i) in1 start
  end.
Definition ins_index (ls : list str) : nat := ins_go ls 0 false (length ls - 1).

(* zlines[:start] + note.to_string().split("\n") + zlines[start+1:] *)
Definition add_lines (note_text : str) (ls : list str) : list str :=
  let s := ins_index ls in firstn s ls ++ split_on nlc note_text ++ skipn (Datatypes.S s) ls.
Definition add_note (note_text page_text : str) : str :=
  join [nlc] (add_lines note_text (split_on nlc page_text)).

(* FileManager.delete_note *)
Fixpoint find_line (pat : str) (ls : list str) (i : nat) : option nat :=
  match ls with
  | [] => None
  | l :: r => if contains pat l then Some i else find_line pat r (Datatypes.S i)
  end.
Definition del_lines (zid body : str) (ls : list str) : option (list str) :=
  match find_line (S " " ++ zid ++ S " ") ls 0 with
  | None => None
  | Some s => Some (firstn s ls ++ skipn (s + length (split_on nlc body)) ls)
  end.
Definition delete_note (zid body page_text : str) : option str :=
  option_map (join [nlc]) (del_lines zid body (split_on nlc page_text)).

(* _note_body_has_tag *)
Definition body_has_tag (body tag : str) : bool :=
  existsb (fun w => eqb_str tag (lstrip_chars (S "(") (rstrip_chars (S "),.?!;:") w))) (split_ws body).

(* _get_hidden_metadata_mutates + _add_hidden_metadata *)
Definition hidden_tags (body : str) (sym : string) (l : list str) : list str :=
  map (fun t => S sym ++ t) (filter (fun t => negb (body_has_tag body (S sym ++ t))) (sort_str l)).
Definition hidden_words (body : str) (projects areas contexts people : list str) (props : list (str * str)) : list str :=
  hidden_tags body "+" projects ++ hidden_tags body "#" areas ++ hidden_tags body "@" contexts ++ hidden_tags body "%" people ++
  map (fun kv => fst kv ++ S "::" ++ snd kv)
      (filter (fun kv => negb (contains (fst kv ++ S "::") body))
              (isort (fun a b => str_leb (fst a) (fst b)) props)).
Definition add_hidden (zid body : str) (projects areas contexts people : list str) (props : list (str * str)) : str :=
  match hidden_words body projects areas contexts people props with
  | [] => body
  | ws => replace zid (zid ++ concat (map (fun w => S " " ++ w) ws)) body
  end.

(* the text written to the destination *)
Definition moved_text (zid body : str) (todo : option (str * str)) (marker : option str)
           (projects areas contexts people : list str) (props : list (str * str)) : str :=
  let todo' := match marker with Some m => Some (S "P2", m) | None => todo end in
  to_string todo' (add_hidden zid body projects areas contexts people props).

(* (move zid body todo marker projects areas contexts people props src dst) -> (src' dst') *)
Definition cmd_move (args : list sexp) : sexp :=
  match args with
  | [zid; body; todo; marker; pj; ar; cx; pe; props; src; dst] =>
      let text := moved_text (dStr zid) (dStr body) (dOpt (fun e => (dStr (nthS 0 e), dStr (nthS 1 e))) todo)
                             (dOpt dStr marker) (dList dStr pj) (dList dStr ar) (dList dStr cx) (dList dStr pe)
                             (dList (fun e => (dStr (nthS 0 e), dStr (nthS 1 e))) props) in
      let dst' := add_note text (dStr dst) in
      (* source and destination may be the same page: delete works on the updated text *)
      L [sStr text; sStr dst'; sOpt sStr (delete_note (dStr zid) (dStr body) (dStr src))]
  | _ => err "move: arity"
  end.
