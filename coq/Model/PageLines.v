(* The canonical TEXT of an abstract page (what harness/apage.py renders and zorg's write-back rewrites), line by
   line, and the page obtained by rewriting items line-wise (ZIDs / modify dates written into identity position). *)
From Zorg Require Import Base.PyStr Base.Sexp Base.Res Base.Dates Gen.Params Model.Zid Model.FileListener Model.PageSyntax
  Model.NoteText Model.PageText Model.WriteBack.

(* a line of the page: either fixed text (title, rulers with header words, blank lines) or an item *)
Inductive row := RText (s : str) | RItem (it : item).
Definition row_text (r : row) : str := match r with RText s => s | RItem it => render_item it end.

Definition ruler_text (lvl : nat) : str :=
  match lvl with
  | 0 => S "################################"
  | 1 => S "========================"
  | 2 => S "++++++++++++++++"
  | _ => S "--------"
  end.

Definition elem_row (e : belem) : row :=
  match e with BItem it => RItem it | BComment ws => RText (S "#" ++ words_text ws) end.
Definition block_rows (b : block) : list row := map elem_row b ++ [RText []].
Fixpoint blocks_rows (bs : list block) : list row :=
  match bs with [] => [] | b :: r => block_rows b ++ blocks_rows r end.
Fixpoint sec_rows (lvl : nat) (s : gsec) : list row :=
  match s with
  | GSec title bs subs =>
      [RText (ruler_text lvl ++ words_text title); RText []] ++ blocks_rows bs ++
      (fix go (ss : list gsec) : list row :=
         match ss with [] => [] | s' :: r => sec_rows (Datatypes.S lvl) s' ++ go r end) subs
  end.
Fixpoint secs_rows (lvl : nat) (ss : list gsec) : list row :=
  match ss with [] => [] | s' :: r => sec_rows lvl s' ++ secs_rows lvl r end.
Definition page_rows (pg : apage) : list row :=
  [RText (S "#" ++ words_text (pg_title pg)); RText []] ++ blocks_rows (pg_blocks pg) ++
  secs_rows 1 (pg_h2s pg) ++ secs_rows 0 (pg_h1s pg).

(* the file: every line ends with a newline *)
Definition lines_text (ls : list str) : str := join [nlc10] (ls ++ [[]]).
Definition page_text (pg : apage) : str := lines_text (map row_text (page_rows pg)).

(* ---- rewriting items line-wise: h line item = the item that line holds afterwards ---- *)
Definition lmap_elem (h : nat -> item -> item) (l : nat) (e : belem) : belem :=
  match e with BItem it => BItem (h l it) | BComment ws => BComment ws end.
Fixpoint lmap_items (h : nat -> item -> item) (l : nat) (its : list belem) : list belem :=
  match its with [] => [] | e :: r => lmap_elem h l e :: lmap_items h (Datatypes.S l) r end.
Fixpoint lmap_blocks (h : nat -> item -> item) (l : nat) (bs : list block) : list block :=
  match bs with [] => [] | b :: r => lmap_items h l b :: lmap_blocks h (l + Datatypes.S (length b)) r end.
Fixpoint lmap_sec (h : nat -> item -> item) (l : nat) (s : gsec) : gsec :=
  match s with
  | GSec title bs subs =>
      GSec title (lmap_blocks h (l + 2) bs)
           ((fix go (ss : list gsec) (l' : nat) : list gsec :=
               match ss with [] => [] | s' :: r => lmap_sec h l' s' :: go r (l' + sec_lines s') end)
              subs (l + 2 + blocks_lines bs))
  end.
Fixpoint lmap_secs (h : nat -> item -> item) (l : nat) (ss : list gsec) : list gsec :=
  match ss with [] => [] | s' :: r => lmap_sec h l s' :: lmap_secs h (l + sec_lines s') r end.
Definition lmap_page (h : nat -> item -> item) (pg : apage) : apage :=
  let l1 := 3 + blocks_lines (pg_blocks pg) in
  mkPg (pg_title pg) (lmap_blocks h 3 (pg_blocks pg)) (lmap_secs h l1 (pg_h2s pg))
       (lmap_secs h (l1 + secs_lines (pg_h2s pg)) (pg_h1s pg)).

(* the same on rows *)
Fixpoint lmap_rows (h : nat -> item -> item) (l : nat) (rs : list row) : list row :=
  match rs with
  | [] => []
  | RText s :: r => RText s :: lmap_rows h (Datatypes.S l) r
  | RItem it :: r => RItem (h l it) :: lmap_rows h (Datatypes.S l) r
  end.

(* the items of a page with their line numbers *)
Fixpoint row_items (l : nat) (rs : list row) : list (nat * item) :=
  match rs with
  | [] => []
  | RText _ :: r => row_items (Datatypes.S l) r
  | RItem it :: r => (l, it) :: row_items (Datatypes.S l) r
  end.

(* what a write-back is asked to do: pick line item = Some thing -> write thing into that line *)
Definition targets_of (pick : nat -> item -> option str) (lits : list (nat * item)) : list (nat * str) :=
  flat_map (fun li => match pick (fst li) (snd li) with Some x => [(fst li, x)] | None => [] end) lits.
Definition apply_pick (pick : nat -> item -> option str) (g : str -> item -> item) (l : nat) (it : item) : item :=
  match pick l it with Some x => g x it | None => it end.

(* ---- ZIDs: every item without one gets the ZID chosen for its line ---- *)
Definition needs_zid (it : item) : bool := match i_ident it with IPlain _ | ILong _ | IMod _ => true | _ => false end.
Definition with_zid (z : str) (it : item) : item :=
  mkItem (i_kind it) (i_prio it) (IZid z)
         (match i_ident it with IPlain s | IMod s => WId s :: i_words it | _ => i_words it end).
Definition pick_zid (zf : nat -> str) (l : nat) (it : item) : option str :=
  if needs_zid it then Some (zf l) else None.

(* ---- modify dates: the items on the chosen lines get the date ---- *)
Definition with_mdate (d : str) (it : item) : item :=
  mkItem (i_kind it) (i_prio it)
         (match i_ident it with IZid z | IModZid _ z => IModZid d z | x => x end) (i_words it).
Definition has_zid (it : item) : bool := match i_ident it with IZid _ | IModZid _ _ => true | _ => false end.
Definition pick_mdate (d : str) (chosen : nat -> bool) (l : nat) (it : item) : option str :=
  if chosen l && has_zid it then Some d else None.

(* ---- decidable side conditions of the page-level write-back theorems (Proofs/PageWriteBack.v proves them sound);
   the harness evaluates them on every generated page ---- *)
Definition prio_words (it : item) : list str := match i_prio it with Some p => [p] | None => [] end.
Definition line_words (it : item) : list str :=
  kind_text (i_kind it) :: prio_words it ++ map word_text (item_words it).
Definition no_sp (w : str) : bool := forallb (fun c => negb (ceqb c (ch " "))) w.
Definition lacks (c : ascii) (w : str) : bool := forallb (fun x => negb (ceqb x c)) w.
Definition six_dig (w : str) : bool := (length w =? 6)%nat && forallb is_digit w.
Definition zidless_okb (it : item) : bool :=
  match i_ident it with
  | IPlain s | IMod s => negb (is_prio_word s) && negb (datelike10 s)
  | ILong d => negb (is_prio_word d) && datelike10 d && match i_words it with [] => false | _ => true end
  | _ => false
  end.
Definition prio_okb (it : item) : bool := match i_prio it with Some p => is_prio_word p | None => true end.
Definition stampableb (it : item) : bool :=
  match i_ident it with
  | IZid z => negb (is_prio_word z) && negb (six_dig z)
  | IModZid m z => negb (is_prio_word m) && six_dig m
  | _ => false
  end.
Definition no_nl_pageb (pg : apage) : bool := forallb (lacks nlc10) (map row_text (page_rows pg)).
Definition zid_readyb (zf : nat -> str) (pg : apage) : bool :=
  forallb (fun li => if needs_zid (snd li)
                     then zidless_okb (snd li) && prio_okb (snd li) && forallb no_sp (zf (fst li) :: line_words (snd li))
                     else true) (row_items 1 (page_rows pg)).
Definition mdate_readyb (d : str) (chosen : nat -> bool) (pg : apage) : bool :=
  forallb (fun li => if chosen (fst li) && has_zid (snd li)
                     then stampableb (snd li) && prio_okb (snd li) && forallb no_sp (d :: line_words (snd li))
                     else true) (row_items 1 (page_rows pg)).

(* ---- wire ---- *)
Definition zf_of (tbl : list (nat * str)) (l : nat) : str :=
  match List.find (fun p => Nat.eqb (fst p) l) tbl with Some p => snd p | None => [] end.
Definition dTbl (x : sexp) : list (nat * str) := dList (fun e => (dNat (nthS 0 e), dStr (nthS 1 e))) x.
(* (page_text page) *)
Definition cmd_page_text (args : list sexp) : sexp :=
  match args with [p] => sStr (page_text (dPage p)) | _ => err "page_text: arity" end.
(* (page_zid_text ((line zid) ...) page) -> the text of the page with those ZIDs written in;
   (page_zid_targets ...) -> the (line zid) pairs the write-back is asked for *)
Definition cmd_page_zid_text (args : list sexp) : sexp :=
  match args with
  | [tbl; p] => sStr (page_text (lmap_page (apply_pick (pick_zid (zf_of (dTbl tbl))) with_zid) (dPage p)))
  | _ => err "page_zid_text: arity"
  end.
Definition cmd_page_zid_lines (args : list sexp) : sexp :=
  match args with
  | [p] => sList sN (map fst (filter (fun li => needs_zid (snd li)) (row_items 1 (page_rows (dPage p)))))
  | _ => err "page_zid_lines: arity"
  end.
(* (page_mdate_text date (line ...) page) *)
Definition cmd_page_mdate_text (args : list sexp) : sexp :=
  match args with
  | [d; ls; p] =>
      let chosen := dList dNat ls in
      sStr (page_text (lmap_page (apply_pick (pick_mdate (dStr d) (fun l => existsb (Nat.eqb l) chosen)) with_mdate) (dPage p)))
  | _ => err "page_mdate_text: arity"
  end.
(* (page_zid_ready ((line zid) ...) page), (page_mdate_ready date (line ...) page): the hypotheses of the theorems *)
Definition cmd_page_zid_ready (args : list sexp) : sexp :=
  match args with
  | [tbl; p] => sB (zid_readyb (zf_of (dTbl tbl)) (dPage p) && no_nl_pageb (dPage p))
  | _ => err "page_zid_ready: arity"
  end.
Definition cmd_page_mdate_ready (args : list sexp) : sexp :=
  match args with
  | [d; ls; p] =>
      let chosen := dList dNat ls in
      sB (mdate_readyb (dStr d) (fun l => existsb (Nat.eqb l) chosen) (dPage p) && no_nl_pageb (dPage p))
  | _ => err "page_mdate_ready: arity"
  end.
