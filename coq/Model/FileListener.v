(* service/compiler/_file_compiler.py — ZorgFileCompiler, transcribed handler
   by handler, running on ANY parse tree (recovered ones included). *)
From Zorg Require Import Base.PyStr Base.Sexp Base.Res Base.Dates Gen.Params Model.Zid.
From RecordUpdate Require Import RecordUpdate.

Inductive tree :=
| Node (rule : str) (line : nat) (kids : list tree)   (* line = ctx.start.line *)
| Tok (ttype : str) (text : str)
| ErrTok (text : str).

(* ctx.getText() *)
Fixpoint text_of (t : tree) : str :=
  match t with
  | Node _ _ kids => (fix go (ks : list tree) : str :=
                        match ks with [] => [] | k :: r => text_of k ++ go r end) kids
  | Tok _ s => s
  | ErrTok s => s
  end.

Definition kids_of (t : tree) : list tree := match t with Node _ _ k => k | _ => [] end.
Definition is_rule (name : string) (t : tree) : bool :=
  match t with Node r _ _ => eqb_str r (S name) | _ => false end.
Definition is_tok (name : string) (t : tree) : bool :=
  match t with Tok ty _ => eqb_str ty (S name) | _ => false end.
(* ctx.rule_name() / ctx.TOKEN(): first matching child *)
Definition child_rule (name : string) (kids : list tree) : option tree := List.find (is_rule name) kids.
Definition child_tok (name : string) (kids : list tree) : option tree := List.find (is_tok name) kids.

Definition Attr {A} : res A := Exn (S "AttributeError").
Definition Idx {A} : res A := Exn (S "IndexError").
Definition Val {A} : res A := Exn (S "ValueError").
Definition Asrt {A} : res A := Exn (S "AssertionError").

(* ctx.children[1].getText(): children is None when there are none *)
Definition child1_text (kids : list tree) : res str :=
  match kids with
  | [] => Exn (S "TypeError")
  | [_] => Idx
  | _ :: k :: _ => Ok (text_of k)
  end.

(* ---- compiled notes ---- *)
Record note := mkNote {
  n_body : str; n_line : nat; n_key : list nat;
  n_areas : list str; n_contexts : list str; n_links : list str; n_people : list str; n_projects : list str;
  n_props : list (str * str);
  n_create : date; n_modify : date;
  n_todo : option (str * str);          (* priority, status character *)
  n_zid : option str
}.

Definition scope := nat.    (* 0 file, 1..4 h1..h4, 5 note *)

Record state := mkState {
  s_zid : option str;
  s_ids : nat;
  s_block : option (list nat);
  s_h : list (option (list nat));        (* current h1..h4 (section paths) *)
  s_first_comment : bool;
  s_in_hdr : list bool;                  (* in_h1_header .. in_h4_header *)
  s_in_head : bool;
  s_in_note : bool;
  s_in_quoted : bool;
  s_tags : list (list (str * str));      (* per scope: (tag name, value) in order of insertion *)
  s_props : list (list (str * str));     (* per scope: dict *)
  s_dates : list (option date);          (* per scope *)
  s_modify : option date;
  s_prio : str;
  s_status : str;
  s_counts : list (list nat * nat);      (* children created under a section path *)
  s_h0 : bool;
  s_sections : list (list nat * str)     (* section path -> title, in creation order *)
}.
#[export] Instance eta_state : Settable _ :=
  settable! mkState <s_zid; s_ids; s_block; s_h; s_first_comment; s_in_hdr; s_in_head; s_in_note; s_in_quoted;
                     s_tags; s_props; s_dates; s_modify; s_prio; s_status; s_counts; s_h0; s_sections>.

Definition init_state : state :=
  {| s_zid := None; s_ids := 0; s_block := None; s_h := [None; None; None; None];
     s_first_comment := true; s_in_hdr := [false; false; false; false]; s_in_head := false;
     s_in_note := false; s_in_quoted := false;
     s_tags := repeat [] 6; s_props := repeat [] 6; s_dates := repeat None 6; s_modify := None;
     s_prio := default_priority; s_status := S "o";
     s_counts := []; s_h0 := false; s_sections := [] |}.

Fixpoint upd {A} (n : nat) (f : A -> A) (l : list A) : list A :=
  match l, n with
  | [], _ => []
  | x :: r, O => f x :: r
  | x :: r, Datatypes.S k => x :: upd k f r
  end.
Definition getn {A} (n : nat) (l : list A) (d : A) : A := nth n l d.

Fixpoint path_eqb (a b : list nat) : bool :=
  match a, b with
  | [], [] => true
  | x :: a', y :: b' => (x =? y)%nat && path_eqb a' b'
  | _, _ => false
  end.
Fixpoint count_of (p : list nat) (m : list (list nat * nat)) : nat :=
  match m with [] => 0 | (k, v) :: r => if path_eqb p k then v else count_of p r end.
Fixpoint count_set (p : list nat) (v : nat) (m : list (list nat * nat)) : list (list nat * nat) :=
  match m with
  | [] => [(p, v)]
  | (k, v') :: r => if path_eqb p k then (k, v) :: r else (k, v') :: count_set p v r
  end.

(* dict assignment *)
Fixpoint dict_set (k v : str) (m : list (str * str)) : list (str * str) :=
  match m with
  | [] => [(k, v)]
  | (k', v') :: r => if eqb_str k k' then (k, v) :: r else (k', v') :: dict_set k v r
  end.
(* a | b *)
Definition dict_union (a b : list (str * str)) : list (str * str) :=
  fold_left (fun acc kv => dict_set (fst kv) (snd kv) acc) b a.

(* strptime("20" + short, "%Y%m%d") *)
Definition from_short (s : str) : res date :=
  match parse_ymd8 (S "20" ++ s) with Some d => Ok d | None => Val end.
Definition from_long (s : str) : res date :=
  match parse_long s with Some d => Ok d | None => Val end.

(* which scope a tag / property lands in *)
Definition tag_scope (st : state) : option scope :=
  if s_first_comment st then Some 0
  else if getn 0 (s_in_hdr st) false then Some 1
  else if getn 1 (s_in_hdr st) false then Some 2
  else if getn 2 (s_in_hdr st) false then Some 3
  else if getn 3 (s_in_hdr st) false then Some 4
  else if s_in_note st then Some 5 else None.
Definition prop_scope (st : state) : option scope :=
  if s_in_head st then Some 0
  else if getn 0 (s_in_hdr st) false then Some 1
  else if getn 1 (s_in_hdr st) false then Some 2
  else if getn 2 (s_in_hdr st) false then Some 3
  else if getn 3 (s_in_hdr st) false then Some 4
  else if s_in_note st then Some 5 else None.

Definition add_tag (name : string) (v : str) (st : state) : state :=
  if forallb is_digit v then st           (* all(ch.isdigit() ...): true for the empty string too *)
  else match tag_scope st with
       | Some sc => st <| s_tags := upd sc (fun l => l ++ [(S name, v)]) (s_tags st) |>
       | None => st
       end.
Definition add_prop (k v : str) (st : state) : state :=
  if s_in_quoted st then st
  else match prop_scope st with
       | Some sc => st <| s_props := upd sc (dict_set k v) (s_props st) |>
       | None => st
       end.

Definition current_tags (name : string) (st : state) : list str :=
  sorted_set (map snd (filter (fun nv => eqb_str (fst nv) (S name)) (concat (s_tags st)))).
Definition current_props (st : state) : list (str * str) :=
  fold_left dict_union (s_props st) [].
Definition create_date (today : date) (st : state) : date :=
  match getn 5 (s_dates st) None with Some d => d | None =>
  match getn 4 (s_dates st) None with Some d => d | None =>
  match getn 3 (s_dates st) None with Some d => d | None =>
  match getn 2 (s_dates st) None with Some d => d | None =>
  match getn 1 (s_dates st) None with Some d => d | None =>
  match getn 0 (s_dates st) None with Some d => d | None => today end end end end end end.

Definition reset_note (st : state) : state :=
  st <| s_zid := None |> <| s_ids := 0 |>
     <| s_tags := upd 5 (fun _ => []) (s_tags st) |>
     <| s_props := upd 5 (fun _ => []) (s_props st) |>
     <| s_dates := upd 5 (fun _ => None) (s_dates st) |>
     <| s_modify := None |>.

(* new child section / block under [parent]: own blocks are [parent ++ [0; b]], sub-sections [parent ++ [1+j]] *)
Definition new_block (parent : list nat) (st : state) : list nat * state :=
  let key := parent ++ [0] in
  let b := count_of key (s_counts st) in
  (key ++ [b], st <| s_counts := count_set key (Datatypes.S b) (s_counts st) |>).
Definition new_section (parent : list nat) (title : str) (st : state) : list nat * state :=
  let j := count_of parent (s_counts st) in
  let p := parent ++ [Datatypes.S j] in
  (p, st <| s_counts := count_set parent (Datatypes.S j) (s_counts st) |>
         <| s_sections := s_sections st ++ [(p, title)] |>).
Definition ensure_h0 (st : state) : state :=
  if s_h0 st then st else st <| s_h0 := true |> <| s_sections := s_sections st ++ [([0], [])] |>.

(* any(P(x) for x in xs) with P possibly raising: lazily, in order *)
Fixpoint any_res {A} (p : A -> res bool) (l : list A) : res bool :=
  match l with
  | [] => Ok false
  | x :: r => b <- p x ;; if b then Ok true else any_res p r
  end.

Definition l1p := S "  * ".
Definition l2p := S "    - ".
Definition l3p := S "      + ".
Definition nlc : ascii := ascii_of_nat 10.

(* "::" in b.split()[0] *)
Definition first_word_has_cc (b : str) : res bool :=
  match split_ws b with [] => Idx | w :: _ => Ok (contains (S "::") w) end.
Definition bullets_have_cc (prefix : str) (bullets : list str) : res bool :=
  any_res (fun bullet => any_res first_word_has_cc (skipn 1 (split_str prefix bullet))) bullets.

Definition take_lines_until (stops : list str) (b : str) : str :=
  join [nlc] (takewhile (fun l => negb (existsb (fun p => startswith p l) stops)) (split_on nlc b)).

Definition scan_bullets (body : str) : res (list str) :=
  let b0 := if contains (S ":: ") body || contains (S "::" ++ [nlc]) body then split_str l1p body else [] in
  c2 <- bullets_have_cc l2p b0 ;;
  let b1 := if c2 then map (take_lines_until [l1p]) (split_str l2p body) else b0 in
  c3 <- bullets_have_cc l3p b1 ;;
  Ok (if c3 then map (take_lines_until [l1p; l2p]) (split_str l3p body) else b1).

Fixpoint bullet_props (bullets : list str) (st : state) : res state :=
  match bullets with
  | [] => Ok st
  | bl :: r =>
      let ws := split_ws bl in
      match ws with
      | [] => Idx
      | w0 :: _ =>
          let ws1 := if is_short_date_spec w0 then skipn 1 ws else ws in
          match ws1 with
          | [] => Idx
          | w1 :: _ =>
              let ws2 := if is_zid w1 then skipn 1 ws1 else ws1 in
              match ws2 with
              | [] => Idx
              | fw :: rest =>
                  let st' := if endswith (S "::") fw
                             then add_prop (firstn (length fw - 2) fw) (join (S " ") rest) st
                             else st in
                  bullet_props r st'
              end
          end
      end
  end.

Definition rn (r : str) (n : string) : bool := eqb_str r (S n).

Inductive rkind :=
| RArea | RContext | RPerson | RProject | RLink | RGlobal | RRef | RZidLink | RLocal | RUrl
| RBaseNote | RTodo | RBaseTodo | RBlock | RDate | RHead | RId | RInline | RItem | RPriority | RQuoted
| RSimple | RTodoPrefix | RComment | RHeader (lvl : nat) | RSection (lvl : nat) | ROther.

Definition classify (r : str) : rkind :=
  if rn r "area" then RArea else if rn r "context" then RContext else if rn r "person" then RPerson
  else if rn r "project" then RProject else if rn r "link" then RLink else if rn r "global_link" then RGlobal
  else if rn r "ref_link" then RRef else if rn r "zid_link" then RZidLink else if rn r "local_link" then RLocal
  else if rn r "url" then RUrl else if rn r "base_note" then RBaseNote else if rn r "todo" then RTodo
  else if rn r "base_todo" then RBaseTodo else if rn r "block" then RBlock else if rn r "date" then RDate
  else if rn r "head" then RHead else if rn r "id" then RId else if rn r "inline_prop" then RInline
  else if rn r "item" then RItem else if rn r "priority" then RPriority else if rn r "quoted_word" then RQuoted
  else if rn r "simple_prop" then RSimple else if rn r "todo_prefix" then RTodoPrefix
  else if rn r "comment" then RComment
  else if rn r "h1_header" then RHeader 0 else if rn r "h2_header" then RHeader 1
  else if rn r "h3_header" then RHeader 2 else if rn r "h4_header" then RHeader 3
  else if rn r "h1_section" then RSection 0 else if rn r "h2_section" then RSection 1
  else if rn r "h3_section" then RSection 2 else if rn r "h4_section" then RSection 3
  else ROther.
Definition tag1 (kids : list tree) (st : state) (name pre : string) : res state :=
  t <- child1_text kids ;; Ok (add_tag name (S pre ++ t) st).

Section Listen.
  Variable today : date.
  Variable errors : bool.          (* error_manager.errors is non-empty *)

  (* -> new state, the note added to the current block (if any), "page.has_errors = True" *)
  Definition add_note (note_body : option tree) (todo : option (str * str)) (st : state)
    : res (state * option note * bool) :=
    match note_body with
    | None => Ok (st, None, false)
    | Some nb =>
        let body := strip (text_of nb) in
        match body with
        | [] => Ok (st, None, false)
        | _ =>
            if errors then Ok (st, None, true) else
            bl <- scan_bullets body ;;
            st1 <- bullet_props bl st ;;
            match s_block st1 with
            | None => Asrt
            | Some key =>
                let cd := create_date today st1 in
                let n := {| n_body := body;
                            n_line := match nb with Node _ l _ => l | _ => 0 end;
                            n_key := key;
                            n_areas := current_tags "areas" st1; n_contexts := current_tags "contexts" st1;
                            n_links := current_tags "links" st1; n_people := current_tags "people" st1;
                            n_projects := current_tags "projects" st1;
                            n_props := current_props st1;
                            n_create := cd;
                            n_modify := match s_modify st1 with Some d => d | None => cd end;
                            n_todo := todo; n_zid := s_zid st1 |} in
                Ok (st1, Some n, false)
            end
        end
    end.

  Definition enter_header (lvl : nat) (kids : list tree) (st : state) : res state :=
    let st := st <| s_in_hdr := upd lvl (fun _ => true) (s_in_hdr st) |> in
    match child_rule "space_atoms" kids with
    | None => Attr
    | Some sa =>
        let title := strip (text_of sa) in
        match lvl with
        | 0 => let (p, st') := new_section [] title st in
               Ok (st' <| s_h := upd 0 (fun _ => Some p) (s_h st') |>)
        | 1 => let st0 := match getn 0 (s_h st) None with None => ensure_h0 st | Some _ => st end in
               let parent := match getn 0 (s_h st) None with None => [0] | Some p => p end in
               let (p, st') := new_section parent title st0 in
               Ok (st' <| s_h := upd 1 (fun _ => Some p) (s_h st') |>)
        | _ => match getn (lvl - 1) (s_h st) None with
               | None => Asrt
               | Some parent =>
                   let (p, st') := new_section parent title st in
                   Ok (st' <| s_h := upd lvl (fun _ => Some p) (s_h st') |>)
               end
        end
    end.
  (* NB: H1 sections are numbered from 1 under the root []; h0 is the path [0]. *)

  Definition block_parent (st : state) : list nat :=
    match getn 3 (s_h st) None with Some p => p | None =>
    match getn 2 (s_h st) None with Some p => p | None =>
    match getn 1 (s_h st) None with Some p => p | None =>
    match getn 0 (s_h st) None with Some p => p | None => [0] end end end end.
  Definition no_section_open (st : state) : bool :=
    match getn 3 (s_h st) None, getn 2 (s_h st) None, getn 1 (s_h st) None, getn 0 (s_h st) None with
    | None, None, None, None => true
    | _, _, _, _ => false
    end.
  Definition set_date (sc : nat) (txt : str) (st : state) : res state :=
    d <- from_long txt ;; Ok (st <| s_dates := upd sc (fun _ => Some d) (s_dates st) |>).
  Definition is_none {A} (o : option A) : bool := match o with None => true | Some _ => false end.

  Definition enter_date (kids : list tree) (st : state) : res state :=
    match child_tok "DATE" kids with
    | None => Attr
    | Some tk =>
        let txt := text_of tk in
        if s_in_note st && (s_ids st =? 1)%nat && is_none (getn 5 (s_dates st) None) then set_date 5 txt st
        else if getn 3 (s_in_hdr st) false then set_date 4 txt st
        else if getn 2 (s_in_hdr st) false then set_date 3 txt st
        else if getn 1 (s_in_hdr st) false then set_date 2 txt st
        else if getn 0 (s_in_hdr st) false then set_date 1 txt st
        else if s_first_comment st then set_date 0 txt st
        else Ok st
    end.

  Definition enter_id (txt : str) (st : state) : res state :=
    if s_in_note st then
      let n := Datatypes.S (s_ids st) in
      let st := st <| s_ids := n |> in
      if (n =? 1)%nat && is_short_date_spec txt then
        d <- from_short txt ;; Ok (st <| s_modify := Some d |>)
      else if ((n =? 1)%nat || ((n =? 2)%nat && negb (is_none (s_modify st)))) && is_zid txt then
        d <- from_short (match split_on (ch "#") txt with p :: _ => p | [] => [] end) ;;
        Ok (st <| s_zid := Some txt |> <| s_dates := upd 5 (fun _ => Some d) (s_dates st) |>)
      else Ok st
    else Ok st.

  Definition enter_inline (txt : str) (st : state) : res state :=
    match split_on (ch " ") txt with
    | [w] =>
        match split_str (S "::") (firstn (length w - 2) (skipn 1 w)) with
        | [k; v] => Ok (add_prop k v st)
        | _ => Val
        end
    | w :: rest =>
        let k := firstn (length w - 3) (skipn 1 w) in
        let v := join (S " ") rest in
        Ok (add_prop k (firstn (length v - 1) v) st)
    | [] => Ok st
    end.

  Definition enter (r : str) (line : nat) (kids : list tree) (st : state) : res state :=
    let txt := text_of (Node r line kids) in
    match classify r with
    | RArea => tag1 kids st "areas" ""
    | RContext => tag1 kids st "contexts" ""
    | RPerson => tag1 kids st "people" ""
    | RProject => tag1 kids st "projects" ""
    | RLink => tag1 kids st "links" ""
    | RGlobal => tag1 kids st "links" "global:"
    | RRef => tag1 kids st "links" "ref:"
    | RZidLink => tag1 kids st "links" "zid:"
    | RLocal => t <- child1_text kids ;;
                Ok (if eqb_str t (S "X") then st else add_tag "links" (S "local:" ++ t) st)
    | RUrl => Ok (add_tag "links" (S "x:" ++ txt) st)
    | RBaseNote => Ok (st <| s_in_note := true |>)
    | RTodo => Ok (st <| s_in_note := true |>)
    | RBlock =>
        let st0 := if no_section_open st then ensure_h0 st else st in
        let (key, st') := new_block (block_parent st) st0 in
        Ok (st' <| s_block := Some key |>)
    | RDate => enter_date kids st
    | RHead => Ok (st <| s_in_head := true |>)
    | RId => enter_id txt st
    | RInline => enter_inline txt st
    | RItem => Ok (reset_note st)
    | RPriority => Ok (st <| s_prio := upper txt |>)
    | RQuoted => Ok (st <| s_in_quoted := true |>)
    | RSimple =>
        match child_rule "id" kids, child_rule "simple_prop_value" kids with
        | Some k, Some v => Ok (add_prop (text_of k) (text_of v) st)
        | _, _ => Attr
        end
    | RTodoPrefix =>
        if s_in_note st then
          match txt with
          | [] => Idx
          | c :: _ => if mem_c c (S "ox~<>") then Ok (st <| s_status := [c] |>) else Asrt
          end
        else Ok st
    | RHeader lvl => enter_header lvl kids st
    | RBaseTodo | RComment | RSection _ | ROther => Ok st
    end.

  Definition exit_ (r : str) (line : nat) (kids : list tree) (st : state) : res (state * option note * bool) :=
    match classify r with
    | RBaseTodo =>
        x <- add_note (child_rule "note_body" kids) (Some (s_prio st, s_status st)) st ;;
        let '(st1, n, f) := x in
        Ok (st1 <| s_in_note := false |> <| s_prio := default_priority |> <| s_status := S "o" |>, n, f)
    | RBaseNote =>
        x <- add_note (child_rule "note_body" kids) None st ;;
        let '(st1, n, f) := x in
        Ok (st1 <| s_in_note := false |>, n, f)
    | RHead => Ok (st <| s_in_head := false |>, None, false)
    | RComment => Ok (st <| s_first_comment := false |>, None, false)
    | RQuoted => Ok (st <| s_in_quoted := false |>, None, false)
    | RHeader lvl => Ok (st <| s_in_hdr := upd lvl (fun _ => false) (s_in_hdr st) |>, None, false)
    | RSection lvl =>
        Ok (st <| s_h := upd lvl (fun _ => None) (s_h st) |>
               <| s_tags := upd (Datatypes.S lvl) (fun _ => []) (s_tags st) |>
               <| s_dates := upd (Datatypes.S lvl) (fun _ => None) (s_dates st) |>
               <| s_props := upd (Datatypes.S lvl) (fun _ => []) (s_props st) |>, None, false)
    | _ => Ok (st, None, false)
    end.

  (* accumulator: notes in reverse creation order, page.has_errors *)
  Definition acc := (list note * bool)%type.
  Definition push (a : acc) (n : option note) (f : bool) : acc :=
    (match n with Some x => x :: fst a | None => fst a end, snd a || f).

  Fixpoint walk (t : tree) (st : state) (a : acc) : res (state * acc) :=
    match t with
    | Node r line kids =>
        st1 <- enter r line kids st ;;
        x <- (fix go (ks : list tree) (s : state) (a : acc) : res (state * acc) :=
                match ks with
                | [] => Ok (s, a)
                | k :: ks' => y <- walk k s a ;; go ks' (fst y) (snd y)
                end) kids st1 a ;;
        z <- exit_ r line kids (fst x) ;;
        let '(st3, n, f) := z in
        Ok (st3, push (snd x) n f)
    | _ => Ok (st, a)
    end.
End Listen.

(* Page.notes: flatten_h1_notes order = lexicographic order of the block keys, stable *)
Fixpoint key_leb (a b : list nat) : bool :=
  match a, b with
  | [], _ => true
  | _ :: _, [] => false
  | x :: a', y :: b' => if (x <? y)%nat then true else if (y <? x)%nat then false else key_leb a' b'
  end.

Record page := mkPage { p_has_errors : bool; p_notes : list note; p_sections : list (list nat * str) }.

Definition listen (today : date) (errors : bool) (t : tree) : res page :=
  x <- walk today errors t init_state ([], false) ;;
  Ok {| p_has_errors := snd (snd x);
        p_notes := isort (fun a b => key_leb (n_key a) (n_key b)) (rev (fst (snd x)));
        p_sections := s_sections (fst x) |}.

(* ---- wire format ---- *)
Fixpoint dTree_fuel (fuel : nat) (x : sexp) : tree :=
  match fuel with
  | O => ErrTok []
  | Datatypes.S f =>
      match x with
      | SL [SA k; a; b; SL kids] =>
          if eqb_str k (S "N") then Node (dStr a) (dNat b) (map (dTree_fuel f) kids) else ErrTok []
      | SL [SA k; a; b] => if eqb_str k (S "T") then Tok (dStr a) (dStr b) else ErrTok []
      | SL [SA k; a] => if eqb_str k (S "E") then ErrTok (dStr a) else ErrTok []
      | _ => ErrTok []
      end
  end.
Definition dTree (x : sexp) : tree := dTree_fuel 64 x.

Definition sNote (n : note) : sexp :=
  L [sStr (n_body n); sN (n_line n); sList sN (n_key n);
     sList sStr (n_areas n); sList sStr (n_contexts n); sList sStr (n_links n); sList sStr (n_people n);
     sList sStr (n_projects n);
     sList (fun kv => L [sStr (fst kv); sStr (snd kv)]) (n_props n);
     sStr (fmt_long (n_create n)); sStr (fmt_long (n_modify n));
     sOpt (fun ps => L [sStr (fst ps); sStr (snd ps)]) (n_todo n);
     sOpt sStr (n_zid n)].
Definition sPage (p : page) : sexp :=
  L [sB (p_has_errors p); sList sNote (p_notes p);
     sList (fun ps => L [sList sN (fst ps); sStr (snd ps)]) (p_sections p)].

Definition dDate3 (x : sexp) : date := mkDate (dZ (nthS 0 x)) (dZ (nthS 1 x)) (dZ (nthS 2 x)).
(* (listen (y m d) errors tree) *)
Definition cmd_listen (args : list sexp) : sexp :=
  match args with
  | [today; errs; t] => sRes sPage (listen (dDate3 today) (dBool errs) (dTree t))
  | _ => err "listen: arity"
  end.
