(* C06 / C13: the bookkeeping of `db create` / `db reindex` (service/handlers.py,
   messagebus.py) over an abstract world: per page the file content, the
   indexed page, and the content whose hash is stored.  Page texts are
   abstracted to (version of the non-note text, notes = (ZID?, body revision,
   modify day)); compilation, hashing (identity on contents) and SQL storage are
   abstracted away; the ZID supply is a parameter. *)
From Coq Require Import List Arith Bool Lia.
Import ListNotations.

Definition path := nat.
Record anote := mkA { a_zid : option nat; a_rev : nat; a_mday : nat }.
Definition content := (nat * list anote)%type.
Definition inote := (nat * nat * nat)%type.            (* zid, revision, modify day *)
Definition ipage := (nat * list inote)%type.

Record world := mkW {
  universe : list path;                 (* every path that ever exists (finite) *)
  files : path -> option content;
  db : path -> option ipage;
  hashes : path -> option content;      (* the content whose SHA is in file_hash.json *)
  today : nat;
  epoch : nat                           (* number of index commands run so far: feeds the ZID supply *)
}.

Definition opt_eqb {A} (eqb : A -> A -> bool) (a b : option A) : bool :=
  match a, b with Some x, Some y => eqb x y | None, None => true | _, _ => false end.
Definition anote_eqb (a b : anote) : bool :=
  opt_eqb Nat.eqb (a_zid a) (a_zid b) && (a_rev a =? a_rev b) && (a_mday a =? a_mday b).
Fixpoint list_eqb {A} (eqb : A -> A -> bool) (l1 l2 : list A) : bool :=
  match l1, l2 with
  | [], [] => true
  | x :: r, y :: s => eqb x y && list_eqb eqb r s
  | _, _ => false
  end.
Definition content_eqb (a b : content) : bool := (fst a =? fst b) && list_eqb anote_eqb (snd a) (snd b).

Definition all_zids (c : content) : bool :=
  forallb (fun n => match a_zid n with Some _ => true | None => false end) (snd c).
(* what a fresh compilation of a fully ZID-ed page yields *)
Definition index_of (c : content) : ipage :=
  (fst c, map (fun n => (match a_zid n with Some z => z | None => 0 end, a_rev n, a_mday n)) (snd c)).

Section Machine.
  Variable alloc : path -> nat -> nat -> nat.          (* page, position, epoch -> a fresh ZID *)

  Definition old_rev (old : option ipage) (z : nat) : option nat :=
    match old with
    | None => None
    | Some ip => match find (fun x => fst (fst x) =? z) (rev (snd ip)) with   (* later note with the same ZID wins *)
                 | Some x => Some (snd (fst x))
                 | None => None
                 end
    end.

  (* one note of a changed page: -> (note as written back, written back?) *)
  Definition index_note (p : path) (old : option ipage) (tod ep : nat) (i : nat) (n : anote) : anote * bool :=
    match a_zid n with
    | None => (mkA (Some (alloc p i ep)) (a_rev n) tod, true)     (* the ZID carries the day of indexing *)
    | Some z =>
        match old_rev old z with
        | Some r => if negb (r =? a_rev n) && negb (a_mday n =? tod)
                    then (mkA (Some z) (a_rev n) tod, true) else (n, false)
        | None => (n, false)
        end
    end.

  Fixpoint index_notes (p : path) (old : option ipage) (tod ep : nat) (i : nat) (ns : list anote) : list (anote * bool) :=
    match ns with
    | [] => []
    | n :: r => index_note p old tod ep i n :: index_notes p old tod ep (S i) r
    end.

  (* remove_file_by_name + walk + _check_for_modified_notes + add_file for one page:
     -> (file content after the write-back, write-back needed?) ; the indexed page is index_of of it *)
  Definition index_page (p : path) (old : option ipage) (tod ep : nat) (c : content) : content * bool :=
    let r := index_notes p old tod ep 0 (snd c) in
    ((fst c, map fst r), existsb snd r).

  Definition is_target (targets : option (list path)) (p : path) : bool :=
    match targets with None => true | Some l => existsb (Nat.eqb p) l end.

  Definition changed (w : world) (p : path) : option content :=
    match files w p with
    | None => None
    | Some c => if opt_eqb content_eqb (hashes w p) (Some c) then None else Some c
    end.

  (* what reindex does to page p, if it processes it *)
  Definition processed (targets : option (list path)) (w : world) (p : path) : option (content * bool) :=
    if is_target targets p then
      match changed w p with
      | Some c => Some (index_page p (db w p) (today w) (epoch w) c)
      | None => None
      end
    else None.

  Definition any_wb (targets : option (list path)) (w : world) : bool :=
    existsb (fun p => match processed targets w p with Some (_, b) => b | None => false end) (universe w).

  (* `db reindex [paths]` followed by its write-back events *)
  Definition reindex (targets : option (list path)) (w : world) : world :=
    let wb := any_wb targets w in
    let files' := fun p => match processed targets w p with Some (c', _) => Some c' | None => files w p end in
    {| universe := universe w;
       files := files';
       db := fun p => match processed targets w p with Some (c', _) => Some (index_of c') | None => db w p end;
       hashes := fun p => if wb then files' p                              (* refreshed from disk, every file *)
                          else if is_target targets p then files w p         (* the map computed at the start... *)
                          else None;                                         (* ...replaces the whole file *)
       today := today w; epoch := S (epoch w) |}.

  (* `db create`: the index is rebuilt from scratch *)
  Definition create (w : world) : world :=
    let files' := fun p => match files w p with
                           | Some c => Some (fst (index_page p None (today w) (epoch w) c))
                           | None => None
                           end in
    {| universe := universe w; files := files';
       db := fun p => match files' p with Some c' => Some (index_of c') | None => None end;
       hashes := files'; today := today w; epoch := S (epoch w) |}.

  Inductive op :=
  | Edit (p : path) (c : content)       (* any edit of a page's text (also adding a page) *)
  | Delete (p : path)
  | Rename (p q : path)
  | NextDay
  | Reindex (targets : option (list path))
  | Create.

  Definition add_path (p : path) (u : list path) : list path := if existsb (Nat.eqb p) u then u else p :: u.
  Definition upd {A} (f : path -> option A) (p : path) (v : option A) : path -> option A :=
    fun q => if q =? p then v else f q.

  Definition step (w : world) (o : op) : world :=
    match o with
    | Edit p c => mkW (add_path p (universe w)) (upd (files w) p (Some c)) (db w) (hashes w) (today w) (epoch w)
    | Delete p => mkW (universe w) (upd (files w) p None) (db w) (hashes w) (today w) (epoch w)
    | Rename p q => mkW (add_path q (universe w)) (upd (upd (files w) q (files w p)) p None) (db w) (hashes w) (today w) (epoch w)
    | NextDay => mkW (universe w) (files w) (db w) (hashes w) (S (today w)) (epoch w)
    | Reindex t => reindex t w
    | Create => create w
    end.
  Definition run (w : world) (ops : list op) : world := fold_left step ops w.

  (* the index answers as a fresh index of the current files would *)
  Definition in_sync (w : world) : Prop :=
    forall p, match files w p with
              | Some c => all_zids c = true /\ db w p = Some (index_of c)
              | None => db w p = None
              end.

  (* ---- crash points of one reindex: the external effects, in order ----
     per processed page one DB commit; then the hash map (computed at the
     start); then per written-back page: the file, then the hash map from disk *)
  Inductive effect :=
  | CommitPage (p : path) (ip : ipage)
  | WriteHashesStart (targets : option (list path))
  | WriteFile (p : path) (c : content)
  | WriteHashesDisk.

  Definition processed_list (targets : option (list path)) (w : world) : list (path * content * bool) :=
    flat_map (fun p => match processed targets w p with Some (c', b) => [(p, c', b)] | None => [] end) (universe w).
  Definition commits (targets : option (list path)) (w : world) : list (path * ipage) :=
    map (fun x : path * content * bool => match x with (p, c', _) => (p, index_of c') end) (processed_list targets w).
  Definition effects_of_reindex (targets : option (list path)) (w : world) : list effect :=
    map (fun x => CommitPage (fst x) (snd x)) (commits targets w) ++
    [WriteHashesStart targets] ++
    flat_map (fun x : path * content * bool => match x with (p, c', b) => if b then [WriteFile p c'; WriteHashesDisk] else [] end)
             (processed_list targets w).

  Definition apply_effect (w0 w : world) (e : effect) : world :=
    match e with
    | CommitPage p ip => mkW (universe w) (files w) (upd (db w) p (Some ip)) (hashes w) (today w) (epoch w)
    | WriteHashesStart t =>
        mkW (universe w) (files w) (db w) (fun p => if is_target t p then files w0 p else None) (today w) (epoch w)
    | WriteFile p c => mkW (universe w) (upd (files w) p (Some c)) (db w) (hashes w) (today w) (epoch w)
    | WriteHashesDisk => mkW (universe w) (files w) (db w) (files w) (today w) (epoch w)
    end.
  (* the command killed after its first k effects; the next command is a new epoch *)
  Definition crash_reindex (targets : option (list path)) (k : nat) (w : world) : world :=
    let w' := fold_left (apply_effect w) (firstn k (effects_of_reindex targets w)) w in
    mkW (universe w') (files w') (db w') (hashes w') (today w') (S (epoch w')).
End Machine.

Definition fmap {A} (l : list (path * A)) : path -> option A :=
  fun p => match find (fun x => fst x =? p) l with Some x => Some (snd x) | None => None end.
Definition w_init (l : list (path * content)) : world :=
  mkW (map fst l) (fmap l) (fun _ => None) (fun _ => None) 0 0.

(* A kill INSIDE remove_file_by_name: the real removal commits after every property link and every tag of its own
   that it deletes, so the first k notes of the indexed page can be durably gone while the page row and the later
   notes are still there and nothing of the new state has been committed. *)
Definition partial_removal (p : path) (k : nat) (w : world) : world :=
  mkW (universe w) (files w)
      (upd (db w) p (match db w p with Some ip => Some (fst ip, skipn k (snd ip)) | None => None end))
      (hashes w) (today w) (S (epoch w)).
