(* C14: app/runners/_run_file.py run_file_rename — the textual retargeting of links. *)
From Zorg Require Import Base.PyStr Base.Sexp Base.Res.

Definition pat_plain (a : str) : str := S "[[" ++ a ++ S "]]".   (* after the fix: whole link *)
Definition pat_anchor (a : str) : str := S "[[" ++ a ++ S "#".

(* new_zcontents.replace("[[A]]","[[B]]").replace("[[A#","[[B#")  (dict order) *)
Definition rename_text (a b text : str) : str :=
  replace (pat_anchor a) (pat_anchor b) (replace (pat_plain a) (pat_plain b) text).

(* simplify_fname on a name relative to the zettel dir: drop a trailing ".zo" *)
Definition link_name (n : str) : str :=
  if endswith (S ".zo") n then firstn (length n - 3) n else n.
(* cfg.src_name if "." in it else src_name + ".zo" *)
Definition file_name (n : str) : str :=
  if mem_c (ch ".") n then n else n ++ S ".zo".

Definition is_zfile (p : str) : bool :=
  endswith (S ".zo") p || endswith (S ".zot") p || endswith (S ".zoq") p.

Definition dirmap := list (str * str).       (* relative path -> contents *)

Definition rename_dir (src dst : str) (d : dirmap) : dirmap :=
  let a := link_name src in let b := link_name dst in
  map (fun pc =>
         let p := if eqb_str (fst pc) (file_name src) then file_name dst else fst pc in
         (p, if is_zfile p then rename_text a b (snd pc) else snd pc)) d.

(* ---- Spec: one left-to-right pass over the text; a link to A is the text
   "[[A]]", an anchored link starts with "[[A#"; everything else is copied ---- *)
Fixpoint spec_fuel (fuel : nat) (a b s : str) : str :=
  match fuel with
  | O => s
  | Datatypes.S f =>
      match s with
      | [] => []
      | c :: s' =>
          if startswith (pat_plain a) s then pat_plain b ++ spec_fuel f a b (skipn (length (pat_plain a)) s)
          else if startswith (pat_anchor a) s then pat_anchor b ++ spec_fuel f a b (skipn (length (pat_anchor a)) s)
          else c :: spec_fuel f a b s'
      end
  end.
Definition spec_rename (a b s : str) : str := spec_fuel (length s) a b s.

Definition name_ok (n : str) : bool :=
  forallb (fun c => negb (ceqb c (ch "[")) && negb (ceqb c (ch "]")) && negb (ceqb c (ch "#"))) n.

Definition cmd_rename_text (args : list sexp) : sexp :=
  match args with
  | [a; b; t] => L [sStr (rename_text (dStr a) (dStr b) (dStr t)); sStr (spec_rename (dStr a) (dStr b) (dStr t));
                    sB (name_ok (dStr a) && name_ok (dStr b))]
  | _ => err "rename_text: arity"
  end.
Definition dDir (x : sexp) : dirmap := dList (fun e => (dStr (nthS 0 e), dStr (nthS 1 e))) x.
Definition sDir (d : dirmap) : sexp := sList (fun pc => L [sStr (fst pc); sStr (snd pc)]) d.
Definition cmd_rename_dir (args : list sexp) : sexp :=
  match args with
  | [src; dst; d] => sDir (rename_dir (dStr src) (dStr dst) (dDir d))
  | _ => err "rename_dir: arity"
  end.
