(* C18: service/file_groups.py — expand_file_group_paths / _paths_from_file_group *)
From Zorg Require Import Base.PyStr Base.Sexp Base.Res Base.Dates.

Definition gmap := list (str * list str).

Fixpoint lookup {V} (k : str) (m : list (str * V)) : option V :=
  match m with
  | [] => None
  | (k', v) :: m' => if eqb_str k k' then Some v else lookup k m'
  end.

(* ---- str.format(days=days, yyyymmdd=yyyymmdd) on the field forms the
   documentation uses; any other replacement field is OutOfModel ---- *)

Definition day_index (c : ascii) : option Z :=
  if is_digit c && (code c <=? 54)%nat then Some (Z.of_nat (digit_val c)) else None.

Definition field_value (today : date) (f : str) : res str :=
  (* yyyymmdd[i] *)
  if startswith (S "yyyymmdd[") f then
    match skipn 9 f with
    | [c; r] => if ceqb r (ch "]") then
                  match day_index c with
                  | Some i => Ok (fmt_ymd (add_days today (- i)))
                  | None => if is_digit c then Exn (S "IndexError") else OutOfModel
                  end
                else OutOfModel
    | _ => OutOfModel
    end
  else if startswith (S "days[") f then
    match skipn 5 f with
    | c :: r :: rest =>
        if ceqb r (ch "]") then
          match day_index c with
          | Some i =>
              let d := add_days today (- i) in
              if eqb_str rest (S ".year") then Ok (str_of_Z (yr d))
              else if eqb_str rest (S ".month") then Ok (str_of_Z (mo d))
              else if eqb_str rest (S ".day") then Ok (str_of_Z (dy d))
              else OutOfModel
          | None => if is_digit c then Exn (S "IndexError") else OutOfModel
          end
        else OutOfModel
    | _ => OutOfModel
    end
  else OutOfModel.

(* scan: text up to '{', then the field up to '}' *)
Fixpoint format_go (today : date) (s : str) (infield : bool) (cur : str) : res str :=
  match s with
  | [] => if infield then Exn (S "ValueError") else Ok (rev cur)
  | c :: s' =>
      if infield then
        if ceqb c (ch "}") then
          v <- field_value today (rev cur) ;;
          r <- format_go today s' false [] ;;
          Ok (v ++ r)
        else if ceqb c (ch "{") then OutOfModel
        else format_go today s' true (c :: cur)
      else
        if ceqb c (ch "{") then
          r <- format_go today s' true [] ;;
          Ok (rev cur ++ r)
        else if ceqb c (ch "}") then OutOfModel   (* "}}" escapes / lone "}" : not modelled *)
        else format_go today s' false (c :: cur)
  end.
Definition format_member (today : date) (s : str) : res str := format_go today s false [].

Definition is_group (p : str) : bool := startswith (S "@") p.

Section Expand.
  Variable today : date.
  Variable m : gmap.

  (* one argument ([member] = false) or one member of a group ([member] = true) *)
  Fixpoint exp1 (fuel : nat) (member : bool) (p : str) : res (list str) :=
    if is_group p then
      match fuel with
      | O => OutOfFuel
      | Datatypes.S f =>
          match lookup (skipn 1 p) m with
          | None => Exn (S "KeyError")
          | Some g => concat_res (map (exp1 f true) g)
          end
      end
    else if member then rmap (fun x => [x]) (format_member today p)
    else Ok [p].

  Definition expand (fuel : nat) (paths : list str) : res (list str) :=
    concat_res (map (exp1 fuel false) paths).
End Expand.

(* ---- Spec: the property sentence as a big-step relation, no fuel ---- *)
Section Spec.
  Variable today : date.
  Variable m : gmap.

  Inductive Exp1 : bool -> str -> list str -> Prop :=
  | E_arg p : is_group p = false -> Exp1 false p [p]
  | E_member p q : is_group p = false -> format_member today p = Ok q -> Exp1 true p [q]
  | E_group b p ms outs :
      is_group p = true -> lookup (skipn 1 p) m = Some ms ->
      ExpL true ms outs -> Exp1 b p outs
  with ExpL : bool -> list str -> list str -> Prop :=
  | EL_nil b : ExpL b [] []
  | EL_cons b p ps o os : Exp1 b p o -> ExpL b ps os -> ExpL b (p :: ps) (o ++ os).
End Spec.

(* wire format *)
Definition dGmap (x : sexp) : gmap :=
  dList (fun e => (dStr (nthS 0 e), dList dStr (nthS 1 e))) x.
Definition dDate (x : sexp) : date :=
  mkDate (dZ (nthS 0 x)) (dZ (nthS 1 x)) (dZ (nthS 2 x)).
Definition sDate (d : date) : sexp := L [sZ (yr d); sZ (mo d); sZ (dy d)].

(* (expand fuel (y m d) gmap paths) *)
Definition cmd_expand (args : list sexp) : sexp :=
  match args with
  | [fuel; today; m; paths] =>
      sRes (sList sStr) (expand (dDate today) (dGmap m) (dNat fuel) (dList dStr paths))
  | _ => err "expand: arity"
  end.
