(* C12: domain/models/_page.py Note.to_string *)
From Zorg Require Import Base.PyStr Base.Sexp Base.Res.

(* todo = None for a plain note, Some (priority, status character) for a todo *)
Definition kind_char (todo : option (str * str)) : str :=
  match todo with None => S "-" | Some (_, st) => st end.
Definition is_done (st : str) : bool := eqb_str st (S "x") || eqb_str st (S "~").
Definition prio_part (todo : option (str * str)) : str :=
  match todo with
  | Some (p, st) => if is_done st then [] else S " " ++ p
  | None => []
  end.
Definition to_string (todo : option (str * str)) (body : str) : str :=
  kind_char todo ++ prio_part todo ++ S " " ++ strip body ++ [ascii_of_nat 10].

Definition cmd_to_string (args : list sexp) : sexp :=
  match args with
  | [todo; body] => sStr (to_string (dOpt (fun e => (dStr (nthS 0 e), dStr (nthS 1 e))) todo) (dStr body))
  | _ => err "to_string: arity"
  end.
