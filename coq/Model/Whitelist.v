(* C08: the error-file whitelist decisions of create_database / reindex_database (service/handlers.py).
   pages = (path relative to the notes directory, Page.has_errors) in processing order. *)
From Zorg Require Import Base.PyStr Base.Sexp Base.Res.

Definition nl10 : ascii := ascii_of_nat 10.
Definition wl_lines (text : str) : list str := split_on nl10 text.          (* read_text().split("\n") *)
Definition wl_text (l : list str) : str := join [nl10] (sort_str l).         (* "\n".join(sorted(error_files)) *)

(* create_database: -> the new whitelist, or RuntimeError("Previously valid Zorg file now has errors!") *)
Fixpoint create_go (update : bool) (old : list str) (pages : list (str * bool)) (acc : list str) : res (list str) :=
  match pages with
  | [] => Ok acc
  | (p, e) :: r =>
      if e && (mem_str p old || update) then create_go update old r (acc ++ [p])
      else if e then Exn (S "RuntimeError")
      else create_go update old r acc
  end.
Definition create_wl (update : bool) (old_text : str) (pages : list (str * bool)) : res str :=
  l <- create_go update (wl_lines old_text) pages [] ;; Ok (wl_text l).

(* reindex_database over the changed pages: list.remove drops the first occurrence *)
Fixpoint remove1 (x : str) (l : list str) : list str :=
  match l with [] => [] | y :: r => if eqb_str x y then r else y :: remove1 x r end.
Fixpoint reindex_go (ef : list str) (pages : list (str * bool)) : res (list str) :=
  match pages with
  | [] => Ok ef
  | (p, e) :: r =>
      if negb e && mem_str p ef then reindex_go (remove1 p ef) r
      else if e && negb (mem_str p ef) then Exn (S "RuntimeError")
      else reindex_go ef r
  end.
Definition reindex_wl (old_text : str) (pages : list (str * bool)) : res str :=
  l <- reindex_go (wl_lines old_text) pages ;; Ok (wl_text l).

Definition dPages (x : sexp) : list (str * bool) := dList (fun e => (dStr (nthS 0 e), dBool (nthS 1 e))) x.
Definition cmd_create_wl (args : list sexp) : sexp :=
  match args with
  | [u; old; pages] => sRes sStr (create_wl (dBool u) (dStr old) (dPages pages))
  | _ => err "create_wl: arity"
  end.
Definition cmd_reindex_wl (args : list sexp) : sexp :=
  match args with
  | [old; pages] => sRes sStr (reindex_wl (dStr old) (dPages pages))
  | _ => err "reindex_wl: arity"
  end.
