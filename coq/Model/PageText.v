(* The canonical text of abstract items (what harness/apage.py renders and the parser is fed), and the text zorg
   emits for the note an item denotes (Note.to_string, coq/Model/NoteText.v). *)
From Zorg Require Import Base.PyStr Base.Sexp Base.Res Base.Dates Gen.Params Model.Zid Model.FileListener Model.PageSyntax
  Model.NoteText.

Definition kind_text (k : option tkind) : str := match k with None => S "-" | Some k => [PageSyntax.kind_char k] end.
Definition render_item (it : item) : str :=
  kind_text (i_kind it) ++ match i_prio it with Some p => S " " ++ p | None => [] end ++ words_text (item_words it).

Definition done_kind (k : tkind) : bool := match k with TDone | TCancelled => true | _ => false end.
(* the item the emitted text denotes: the priority is spelled out for todos that are not done / cancelled and
   dropped for those that are; kind, identity and words are unchanged *)
Definition emit_form (it : item) : item :=
  mkItem (i_kind it)
         (match i_kind it with
          | Some k => if done_kind k then None
                      else Some (match i_prio it with Some p => upper p | None => default_priority end)
          | None => None
          end)
         (i_ident it) (i_words it).

(* words contain no white space: stripping the body removes exactly the separator in front of the first word *)
Definition tidy (it : item) : Prop :=
  exists c r, words_text (item_words it) = ch " " :: c :: r /\ strip (words_text (item_words it)) = c :: r.

Definition tidyb (it : item) : bool :=
  match words_text (item_words it) with
  | sp0 :: c :: r => ceqb sp0 (ch " ") && eqb_str (strip (words_text (item_words it))) (c :: r)
  | _ => false
  end.

Definition cmd_item_tidy (args : list sexp) : sexp :=
  match args with [x] => sB (tidyb (dItem x)) | _ => err "item_tidy: arity" end.
Definition cmd_item_text (args : list sexp) : sexp :=
  match args with [x] => sStr (render_item (dItem x)) | _ => err "item_text: arity" end.
Definition cmd_item_emit (args : list sexp) : sexp :=
  match args with [x] => sStr (render_item (emit_form (dItem x))) | _ => err "item_emit: arity" end.
