(* Wire format for running the abstract world machine from the harness. *)
From Zorg Require Import Base.PyStr Base.Sexp Base.Res Model.World.

Definition alloc_wire (p i e : nat) : nat := (e * 40 + p) * 40 + i + 900.

Definition dAnote (x : sexp) : anote := mkA (dOpt dNat (nthS 0 x)) (dNat (nthS 1 x)) (dNat (nthS 2 x)).
Definition dContent (x : sexp) : content := (dNat (nthS 0 x), dList dAnote (nthS 1 x)).
Definition dTargets (x : sexp) : option (list path) := dOpt (dList dNat) x.

(* positional user edits: the harness applies the same edit to the real text *)
Inductive wop :=
| WOp (o : op)
| WCrash (t : option (list path)) (k : nat)
| WEditNote (p i : nat)            (* change the body of the i-th note *)
| WAddNote (p : nat)               (* append a note without ZID *)
| WDelNote (p i : nat)
| WHeader (p : nat)                (* edit the page's non-note text *)
| WNewPage (p k : nat).            (* a new page with k notes without ZID *)

Definition dOp (x : sexp) : wop :=
  let tag := dStr (nthS 0 x) in
  if eqb_str tag (S "delete") then WOp (Delete (dNat (nthS 1 x)))
  else if eqb_str tag (S "rename") then WOp (Rename (dNat (nthS 1 x)) (dNat (nthS 2 x)))
  else if eqb_str tag (S "nextday") then WOp NextDay
  else if eqb_str tag (S "reindex") then WOp (Reindex (dTargets (nthS 1 x)))
  else if eqb_str tag (S "crash") then WCrash (dTargets (nthS 1 x)) (dNat (nthS 2 x))
  else if eqb_str tag (S "editnote") then WEditNote (dNat (nthS 1 x)) (dNat (nthS 2 x))
  else if eqb_str tag (S "addnote") then WAddNote (dNat (nthS 1 x))
  else if eqb_str tag (S "delnote") then WDelNote (dNat (nthS 1 x)) (dNat (nthS 2 x))
  else if eqb_str tag (S "header") then WHeader (dNat (nthS 1 x))
  else if eqb_str tag (S "newpage") then WNewPage (dNat (nthS 1 x)) (dNat (nthS 2 x))
  else WOp Create.

Fixpoint map_nth {A} (f : A -> A) (i : nat) (l : list A) : list A :=
  match l, i with
  | [], _ => []
  | x :: r, O => f x :: r
  | x :: r, Datatypes.S k => x :: map_nth f k r
  end.
Fixpoint del_nth {A} (i : nat) (l : list A) : list A :=
  match l, i with
  | [], _ => []
  | _ :: r, O => r
  | x :: r, Datatypes.S k => x :: del_nth k r
  end.

Definition edit_with (w : world) (p : nat) (f : content -> content) : world :=
  match files w p with
  | Some c => step alloc_wire w (Edit p (f c))
  | None => w
  end.

Definition wstep (w : world) (o : wop) : world :=
  match o with
  | WOp o => step alloc_wire w o
  | WCrash t k => crash_reindex alloc_wire t k w
  | WEditNote p i => edit_with w p (fun c => (fst c, map_nth (fun n => mkA (a_zid n) (Datatypes.S (a_rev n)) (a_mday n)) i (snd c)))
  | WAddNote p => edit_with w p (fun c => (fst c, snd c ++ [mkA None 1 (today w)]))
  | WDelNote p i => edit_with w p (fun c => (fst c, del_nth i (snd c)))
  | WHeader p => edit_with w p (fun c => (Datatypes.S (fst c), snd c))
  | WNewPage p k => step alloc_wire w (Edit p (0, repeat (mkA None 1 (today w)) k))
  end.

(* per page: exists?, hash {none, cur, stale}, db {none, sync, stale}, number of notes without ZID *)
Definition observe (w : world) : sexp :=
  sList (fun p =>
    let f := files w p in
    let h := match hashes w p, f with
             | None, _ => sA "none"
             | Some c, Some c' => if content_eqb c c' then sA "cur" else sA "stale"
             | Some _, None => sA "stale"
             end in
    let d := match db w p, f with
             | None, _ => sA "none"
             | Some ip, Some c =>
                 if all_zids c && list_eqb (fun a b => (fst (fst a) =? fst (fst b)) && (snd (fst a) =? snd (fst b)) && (snd a =? snd b))
                                           (snd ip) (snd (index_of c)) && (fst ip =? fst c)
                 then sA "sync" else sA "stale"
             | Some _, None => sA "stale"
             end in
    let nz := match f with Some c => length (filter (fun n => match a_zid n with None => true | _ => false end) (snd c)) | None => 0 end in
    L [sN p; sB (match f with Some _ => true | None => false end); h; d; sN nz;
       sN (length (effects_of_reindex alloc_wire None w))])
    (universe w).

Fixpoint wrun (w : world) (ops : list wop) : list sexp :=
  match ops with
  | [] => []
  | o :: r => let w' := wstep w o in observe w' :: wrun w' r
  end.

(* (world_run ((path content) ...) (op ...)) -> observations after every op *)
Definition cmd_world_run (args : list sexp) : sexp :=
  match args with
  | [fs; ops] =>
      let l := dList (fun e => (dNat (nthS 0 e), dContent (nthS 1 e))) fs in
      L (wrun (w_init l) (dList dOp ops))
  | _ => err "world_run: arity"
  end.
