(* C03: storage/sql/_query_converter.py (to_sql_select / _AndFilterToSqlWhere) evaluated
   over the raw index rows the way SQLite 3.40 evaluates the generated SQL, and
   storage/sql/_repo.py get_notes_by_query. *)
From Zorg Require Import Base.PyStr Base.Sexp Base.Res Base.Dates Model.Zid Model.FileListener Model.QueryListener.

Record inote := mkI {
  i_id : nat; i_zid : str; i_page : str; i_body : str;
  i_create : date; i_modify : date;
  i_prio : option str; i_status : option str;          (* status character; None for a plain note *)
  i_areas : list str; i_contexts : list str; i_people : list str; i_projects : list str;
  i_links : list str; i_props : list (str * str)
}.
Definition index := list inote.

(* ---- SQLite LIKE: ASCII case-insensitive, % and _, optional ESCAPE character ---- *)
Definition ci_eq (a b : ascii) : bool := ceqb (lower_c a) (lower_c b).
Fixpoint suffixes (s : str) : list str := s :: match s with [] => [] | _ :: r => suffixes r end.

Fixpoint like (esc : option ascii) (p s : str) : bool :=
  match p with
  | [] => match s with [] => true | _ => false end
  | c :: p' =>
      if match esc with Some e => ceqb c e | None => false end then
        match p' with
        | [] => false                          (* dangling escape: an error in SQLite; never generated *)
        | lit :: p'' => match s with x :: s' => ci_eq lit x && like esc p'' s' | [] => false end
        end
      else if ceqb c (ch "%") then existsb (like esc p') (suffixes s)
      else if ceqb c (ch "_") then match s with _ :: s' => like esc p' s' | [] => false end
      else match s with x :: s' => ci_eq c x && like esc p' s' | [] => false end
  end.

(* ---- casts ---- *)
(* CAST(text AS INTEGER): optional blanks, optional sign, leading digits, else 0 *)
Definition cast_int (v : str) : Z :=
  let v := lstrip v in
  match v with
  | c :: r => if ceqb c (ch "-") then Z.opp (Z_of_digits (takewhile is_digit r))
              else if ceqb c (ch "+") then Z_of_digits (takewhile is_digit r)
              else Z_of_digits (takewhile is_digit v)
  | [] => 0%Z
  end.

(* date(text) for the shapes that occur as property values; None = NULL *)
Definition sqlite_date (v : str) : res (option str) :=
  if is_long_date_spec v then
    let m := Z_of_digits (firstn 2 (skipn 5 v)) in let d := Z_of_digits (skipn 8 v) in
    if ((1 <=? m) && (m <=? 12) && (1 <=? d) && (d <=? 31))%Z then
      (* 2024-02-30 style overflow is renormalised by SQLite: keep to real calendar days *)
      if (d <=? dim (Z_of_digits (firstn 4 v)) m)%Z then Ok (Some v) else OutOfModel
    else Ok None
  else if existsb is_digit v || eqb_str (lower v) (S "now") then OutOfModel     (* julian day numbers, times, 'now' *)
  else Ok None.

Definition cmp_str (op : pop) (a b : str) : bool :=
  match op with
  | PEq => eqb_str a b | PLt => str_ltb a b | PLe => str_leb a b | PGt => str_ltb b a | PGe => str_leb b a
  | PExists => true
  end.
Definition cmp_Z (op : pop) (a b : Z) : bool :=
  match op with
  | PEq => (a =? b)%Z | PLt => (a <? b)%Z | PLe => (a <=? b)%Z | PGt => (b <? a)%Z | PGe => (b <=? a)%Z
  | PExists => true
  end.
(* comp_op_map: a negated comparison is the flipped operator *)
Definition flip_op (op : pop) : pop :=
  match op with PEq => PEq | PLt => PGe | PGt => PLe | PLe => PGt | PGe => PLt | PExists => PExists end.
Definition cmp_flipped_str (op : pop) (neg : bool) (a b : str) : bool :=
  if neg then match op with PEq => negb (eqb_str a b) | _ => cmp_str (flip_op op) a b end else cmp_str op a b.
Definition cmp_flipped_Z (op : pop) (neg : bool) (a b : Z) : bool :=
  if neg then match op with PEq => negb (a =? b)%Z | _ => cmp_Z (flip_op op) a b end else cmp_Z op a b.

Definition any_res {A} (p : A -> res bool) (l : list A) : res bool :=
  fold_right (fun x acc => b <- p x ;; a <- acc ;; Ok (b || a)) (Ok false) l.
Definition all_res {A} (p : A -> res bool) (l : list A) : res bool :=
  fold_right (fun x acc => b <- p x ;; a <- acc ;; Ok (b && a)) (Ok true) l.

Section Eval.
  Variable today : date.
  Variable ix : index.

  Definition has_tag (tags : list str) (name : str) : bool :=
    if startswith (S "-") name then negb (mem_str (skipn 1 name) tags) else mem_str name tags.

  Definition in_range (d : date) (r : date * option date) : bool :=
    date_leb (fst r) d && date_leb d (match snd r with Some e => e | None => fst r end).

  Definition prop_ok (n : inote) (pf : prop_filter) : res bool :=
    let vals := map snd (filter (fun kv => eqb_str (fst kv) (pf_key pf)) (i_props n)) in
    match pf_op pf with
    | PExists => Ok (if pf_neg pf then match vals with [] => true | _ => false end
                     else match vals with [] => false | _ => true end)
    | op =>
        match pf_vt pf with
        | VStrT => Ok (existsb (fun v => cmp_flipped_str op (pf_neg pf) v (pf_value pf)) vals)
        | VIntT => Ok (existsb (fun v => cmp_flipped_Z op (pf_neg pf) (cast_int v) (Z_of_digits (pf_value pf))) vals)
        | VDateT =>
            fd <- from_date_spec today (pf_value pf) ;;
            any_res (fun v => d <- sqlite_date v ;;
                              Ok (match d with
                                  | None => false
                                  | Some s => cmp_flipped_str op (pf_neg pf) s (fmt_long fd)
                                  end)) vals
        end
    end.

  Definition like_arg (v : str) : str := S "%" ++ replace (S "_") (S "\_") v ++ S "%".
  Definition bslash : ascii := ch "\".

  Definition desc_ok (n : inote) (d : desc_filter) : bool :=
    let cs := match df_case d with Some b => b | None => negb (islower (df_value d)) end in
    let hit :=
      if cs then like None (like_arg (df_value d)) (i_body n) && contains (df_value d) (i_body n)
      else like (Some bslash) (lower (like_arg (df_value d))) (lower (i_body n)) in
    if df_neg d then negb hit else hit.

  Definition file_ok (n : inote) (f : str * bool) : bool :=
    let hit := like None (replace (S "*") (S "%") (fst f)) (i_page n) in
    if snd f then negb hit else hit.

  (* notes of the page <link>.zo, as _get_notes_in_file finds them *)
  Definition notes_in_file (link : str) : list inote :=
    filter (fun m => eqb_str (i_page m) (link ++ S ".zo")) ix.
  Definition indirect_names (link : str) : list str :=
    let ns := notes_in_file link in
    flat_map (fun m => map (fun kv => S "global:" ++ snd kv) (filter (fun kv => eqb_str (fst kv) (S "ID")) (i_props m))) ns ++
    flat_map (fun m => map (fun kv => S "ref:" ++ snd kv) (filter (fun kv => eqb_str (fst kv) (S "RID")) (i_props m))) ns ++
    map (fun m => S "zid:" ++ i_zid m) ns.
  Definition link_ok (n : inote) (lf : str * bool) : bool :=
    let link := fst lf in
    let ind := indirect_names link in
    let one := fun l => eqb_str l link ||
                        (let h := like None (link ++ S "#%") l in if snd lf then negb h else h) ||
                        mem_str l ind in
    let hit := existsb one (i_links n) in
    if snd lf then negb hit else hit.

  Definition kind_ok (n : inote) (k : str) : bool :=
    match i_status n with
    | None => eqb_str k (S "-")
    | Some s => eqb_str k s
    end.

  (* one clause per helper; None = the helper contributes no clause *)
  Fixpoint and_ok (fuel : nat) (n : inote) (f : and_filter) : res (option bool) :=
    match fuel with
    | O => OutOfFuel
    | Datatypes.S fu =>
        match f with AF ki ar cx pe pj cr mo pr de fi li ps ors =>
          let c1 := match ki with [] => None | _ => Some (existsb (kind_ok n) ki) end in
          let c2 := match ps with [] => None
                    | _ => Some (match i_prio n with Some p => mem_str p ps | None => false end) end in
          let tags := map (has_tag (i_areas n)) ar ++ map (has_tag (i_contexts n)) cx ++
                      map (has_tag (i_people n)) pe ++ map (has_tag (i_projects n)) pj in
          let c3 := match tags with [] => None | _ => Some (forallb (fun b => b) tags) end in
          c4 <- match ors with
                | [] => Ok None
                | _ => b <- all_res (fun o => any_res (fun g => x <- and_ok fu n g ;;
                                                                match x with Some v => Ok v | None => Exn (S "IndexError") end) o) ors ;;
                       Ok (Some b)
                end ;;
          let rngs := map (in_range (i_create n)) cr ++ map (in_range (i_modify n)) mo in
          let c5 := match rngs with [] => None | _ => Some (forallb (fun b => b) rngs) end in
          c6 <- match pr with [] => Ok None | _ => b <- all_res (prop_ok n) pr ;; Ok (Some b) end ;;
          let c7 := match de with [] => None | _ => Some (forallb (desc_ok n) de) end in
          let c8 := match fi with [] => None | _ => Some (forallb (file_ok n) fi) end in
          let c9 := match li with [] => None | _ => Some (forallb (link_ok n) li) end in
          let cs := flat_map (fun c => match c with Some b => [b] | None => [] end) [c1; c2; c3; c4; c5; c6; c7; c8; c9] in
          Ok (match cs with [] => None | _ => Some (forallb (fun b => b) cs) end)
        end
    end.

  (* to_sql_where raises IndexError on an and-filter without any clause *)
  Definition or_ok (n : inote) (o : list and_filter) : res bool :=
    any_res (fun g => x <- and_ok 40 n g ;; match x with Some v => Ok v | None => Exn (S "IndexError") end) o.

  (* get_notes_by_query: the ZIDs returned, in ORDER BY zid order (None/[] filter: every note) *)
  Definition eval_where (w : option (list and_filter)) : res (list str) :=
    match w with
    | None | Some [] => Ok (map i_zid ix)
    | Some o =>
        sel <- seq_res (map (fun n => b <- or_ok n o ;; Ok (n, b)) ix) ;;
        Ok (sort_str (map (fun nb => i_zid (fst nb)) (filter (fun nb => snd nb) sel)))
    end.
End Eval.

(* ---- wire ---- *)
Definition dDateISO (x : sexp) : date := match parse_long (dStr x) with Some d => d | None => mkDate 1 1 1 end.
Definition dINote (x : sexp) : inote :=
  {| i_id := dNat (nthS 0 x); i_zid := dStr (nthS 1 x); i_page := dStr (nthS 2 x); i_body := dStr (nthS 3 x);
     i_create := dDateISO (nthS 4 x); i_modify := dDateISO (nthS 5 x);
     i_prio := dOpt dStr (nthS 6 x); i_status := dOpt dStr (nthS 7 x);
     i_areas := dList dStr (nthS 8 x); i_contexts := dList dStr (nthS 9 x); i_people := dList dStr (nthS 10 x);
     i_projects := dList dStr (nthS 11 x); i_links := dList dStr (nthS 12 x);
     i_props := dList (fun e => (dStr (nthS 0 e), dStr (nthS 1 e))) (nthS 13 x) |}.
Definition dPop (x : sexp) : pop :=
  let s := dStr x in
  if eqb_str s (S "EXISTS") then PExists else if eqb_str s (S "EQ") then PEq else if eqb_str s (S "LT") then PLt
  else if eqb_str s (S "LE") then PLe else if eqb_str s (S "GT") then PGt else PGe.
Definition dVt (x : sexp) : vtype :=
  let s := dStr x in if eqb_str s (S "DATE") then VDateT else if eqb_str s (S "INTEGER") then VIntT else VStrT.
Definition dRange (x : sexp) : date * option date := (dDateISO (nthS 0 x), dOpt dDateISO (nthS 1 x)).
Fixpoint dAF (fuel : nat) (x : sexp) : and_filter :=
  match fuel with
  | O => AF [] [] [] [] [] [] [] [] [] [] [] [] []
  | Datatypes.S f =>
      AF (dList dStr (nthS 0 x)) (dList dStr (nthS 1 x)) (dList dStr (nthS 2 x)) (dList dStr (nthS 3 x))
         (dList dStr (nthS 4 x)) (dList dRange (nthS 5 x)) (dList dRange (nthS 6 x))
         (dList (fun p => mkPF (dStr (nthS 0 p)) (dStr (nthS 1 p)) (dPop (nthS 2 p)) (dVt (nthS 3 p)) (dBool (nthS 4 p))) (nthS 7 x))
         (dList (fun d => mkDF (dStr (nthS 0 d)) (dOpt dBool (nthS 1 d)) (dBool (nthS 2 d))) (nthS 8 x))
         (dList (fun e => (dStr (nthS 0 e), dBool (nthS 1 e))) (nthS 9 x))
         (dList (fun e => (dStr (nthS 0 e), dBool (nthS 1 e))) (nthS 10 x))
         (dList dStr (nthS 11 x))
         (dList (fun o => dList (dAF f) o) (nthS 12 x))
  end.
(* (eval_where (y m d) index where|()) *)
Definition cmd_eval_where (args : list sexp) : sexp :=
  match args with
  | [today; ix; w] =>
      sRes (sList sStr) (eval_where (dDate3 today) (dList dINote ix) (dOpt (dList (dAF 40)) w))
  | _ => err "eval_where: arity"
  end.
