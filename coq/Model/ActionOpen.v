(* C17: app/runners/_run_action.py — run_action_open / _open_link *)
From Zorg Require Import Base.PyStr Base.Sexp Base.Res Model.Zid.

Inductive msg := EDIT (s : str) | SEARCH (s : str) | PROMPT (s : str) | ECHO (s : str).

Definition punct : str := S "(),.?!;:".
Definition has2 (a b : string) (w : str) : bool := contains (S a) w && contains (S b) w.

Definition is_local_link (w : str) : bool := has2 "[^" "]" w.
Definition is_linkish (w : str) : bool :=
  has2 "[[" "]]" w || is_local_link w || has2 "[#" "]" w || has2 "[@" "]" w || has2 "[!" "]" w
  || startswith (S "z::") w.

Definition is_prefix_symbol (w : str) : bool :=
  mem_str w [S "x"; S "~"; S "o"; S "<"; S ">"; S "-"].
Definition is_priority_word (w : str) : bool :=
  match w with [p; d] => ceqb p (ch "P") && is_digit d | _ => false end.

(* the word scan of run_action_open; [i0] tells whether the first word has index 0 *)
Fixpoint scan (is_zoq : bool) (first : bool) (found : bool) (words : list str) : list str :=
  match words with
  | [] => []
  | w0 :: r =>
      let w := strip_chars punct w0 in
      let zw := strip_chars (S "[]") w in
      if is_linkish w then w :: scan is_zoq false found r
      else if is_zid zw && (found || is_zoq || first) then zw :: scan is_zoq false found r
      else if negb found && negb (is_prefix_symbol w) && negb (is_priority_word w)
              && negb (is_short_date_spec w) && negb (is_zid w)
           then scan is_zoq false true r
           else scan is_zoq false found r
  end.
Definition targets (is_zoq : bool) (line : str) : list str :=
  scan is_zoq true false (split_on (ch " ") line).

Definition search_end : str := S "\ze\(\s\|[),.?!;:]\|$\)".

(* the index and the directory, as far as _open_link looks at them *)
Record env := {
  e_exists : list str;                       (* existing files, relative, with extension *)
  e_ids : list (str * str * str * str);      (* property key, value, page, zid — in result order *)
  e_zids : list (str * str);                 (* zid -> page *)
  e_binary : list str
}.

Definition norm_path (p : str) : str := if mem_c (ch ".") p then p else p ++ S ".zo".
Definition suffix_of (p : str) : str :=          (* Path.suffix without the dot *)
  let name := last (split_on (ch "/") p) [] in
  match rev (split_on (ch ".") name) with
  | ext :: _ :: _ => ext
  | _ => []
  end.

Definition notes_by_id (e : env) (key v : str) : list (str * str) :=
  map (fun t => match t with (_, _, pg, z) => (pg, z) end)
      (filter (fun t => match t with (k, v', _, _) => eqb_str k key && eqb_str v' v end) (e_ids e)).

Fixpoint lookup_zid (z : str) (l : list (str * str)) : option str :=
  match l with [] => None | (k, p) :: r => if eqb_str z k then Some p else lookup_zid z r end.

Definition open_file_link (e : env) (link : str) : res (list msg * Z) :=
  let parts := split_on (ch "#") link in
  let p0 := nth 0 parts [] in
  let base := match parts with [_] => firstn (length p0 - 4) (skipn 2 p0) | _ => skipn 2 p0 end in
  let path := norm_path base in
  if mem_str (suffix_of path) (e_binary e) then OutOfModel
  else Ok (EDIT path ::
           match parts with
           | _ :: p1 :: _ => [SEARCH (S "LID::" ++ firstn (length p1 - 2) p1)]
           | _ => []
           end, 0%Z).

Definition open_link (e : env) (t : str) : res (list msg * Z) :=
  if startswith (S "[[") t && endswith (S "]]") t then open_file_link e t
  else if is_local_link t then
    Ok ([SEARCH (S "LID::" ++ firstn (length t - 3) (skipn 2 t) ++ search_end)], 0%Z)
  else if startswith (S "[#") t && endswith (S "]") t then
    let id := firstn (length t - 3) (skipn 2 t) in
    match notes_by_id e (S "ID") id with
    | [] => Ok ([ECHO (S "No notes found with the ID::" ++ id ++ S " property")], 1%Z)
    | ns =>
        let pages := sorted_set (map fst ns) in
        match pages with
        | [pg] => Ok ([EDIT pg; SEARCH (S "ID::" ++ id ++ search_end)], 0%Z)
        | _ => Ok ([ECHO (S "Multiple pages found containing notes with the ID::" ++ id ++
                          S " property: " ++ join (S " ") pages)], 1%Z)
        end
    end
  else if startswith (S "[@") t && endswith (S "]") t then
    let id := firstn (length t - 3) (skipn 2 t) in
    match notes_by_id e (S "RID") id with
    | [] => Ok ([ECHO (S "No notes found with the RID::" ++ id ++ S " property")], 1%Z)
    | [(pg, _)] => Ok ([EDIT pg; SEARCH (S "RID::" ++ id ++ search_end)], 0%Z)
    | ns => Ok ([ECHO (S "Multiple notes found the with the RID::" ++ id ++ S " property: " ++
                       join (S " ") (sorted_set (map fst ns)))], 1%Z)
    end
  else if startswith (S "[!") t && endswith (S "]") t then OutOfModel   (* opens a browser *)
  else if startswith (S "z::") t then OutOfModel                        (* papis *)
  else
    match lookup_zid t (e_zids e) with
    | None => Ok ([], 1%Z)
    | Some pg => Ok ([EDIT pg; SEARCH (S "\s\zs" ++ t)], 0%Z)
    end.

Definition nothing_msg (line_no : str) : msg :=
  ECHO (S "We did not find anything zorg knows how to open on line #" ++ line_no).

Definition is_query_line (is_zoq : bool) (line : str) : bool :=
  (startswith (S "# S ") line || startswith (S "# W ") line) &&
  negb (startswith (S "# S = ") line || startswith (S "# W = ") line) && is_zoq.

(* option: None, Some (-1) = last, Some k = k-th (1-based) *)
Definition action (e : env) (is_zoq : bool) (line line_no : str) (opt : option Z) : res (list msg * Z) :=
  if is_query_line is_zoq line then OutOfModel       (* refreshes the saved query page *)
  else
    match targets is_zoq line with
    | [] => Ok ([nothing_msg line_no], 0%Z)
    | [t] => open_link e t
    | ts =>
        match opt with
        | None => Ok ([PROMPT (join (S " ") ts)], 0%Z)
        | Some k =>
            if (k =? -1)%Z then open_link e (last ts [])
            else if (1 <=? k)%Z && (k <=? Z.of_nat (length ts))%Z
                 then open_link e (nth (Z.to_nat k - 1) ts [])
                 else Ok ([], 1%Z)
        end
    end.

(* wire *)
Definition sMsg (m : msg) : sexp :=
  match m with
  | EDIT s => L [sA "EDIT"; sStr s] | SEARCH s => L [sA "SEARCH"; sStr s]
  | PROMPT s => L [sA "PROMPT"; sStr s] | ECHO s => L [sA "ECHO"; sStr s]
  end.
Definition dEnv (x : sexp) : env :=
  {| e_exists := dList dStr (nthS 0 x);
     e_ids := dList (fun t => (dStr (nthS 0 t), dStr (nthS 1 t), dStr (nthS 2 t), dStr (nthS 3 t))) (nthS 1 x);
     e_zids := dList (fun t => (dStr (nthS 0 t), dStr (nthS 1 t))) (nthS 2 x);
     e_binary := dList dStr (nthS 3 x) |}.
Definition cmd_action (args : list sexp) : sexp :=
  match args with
  | [e; zoq; line; lno; opt] =>
      sRes (fun r => L [sList sMsg (fst r); sZ (snd r)])
           (action (dEnv e) (dBool zoq) (dStr line) (dStr lno) (dOpt dZ opt))
  | _ => err "action: arity"
  end.
Definition cmd_targets (args : list sexp) : sexp :=
  match args with
  | [zoq; line] => sList sStr (targets (dBool zoq) (dStr line))
  | _ => err "targets: arity"
  end.
