(* C09: service/swog/_executor.py (_group_notes_by, _order_notes_by, _select) and
   domain/types.py keyfuncs, on the notes the WHERE stage returned. *)
From Zorg Require Import Base.PyStr Base.Sexp Base.Res Model.NoteText.

Record xnote := mkX {
  x_path : str; x_line : nat; x_body : str; x_todo : option (str * str);
  x_create : str; x_modify : str;                 (* strftime("%Y%m%d") *)
  x_areas : list str; x_contexts : list str; x_people : list str; x_projects : list str; x_links : list str;
  x_props : list (str * str);
  x_section : str                                  (* _to_comparable_section_from_note *)
}.

Inductive gkey := GArea | GContext | GFile | GNoteType | GPerson | GPriority | GProject | GSection.
Inductive okey := OAlpha | OCreate | OModify | ONone | ONoteType | OPriority.
Inductive sel := SFile | SNote | SArea | SContext | SPerson | SProject | SPropKeys | SLinks | SPropValues (k : str).
Inductive select := Sel (s : sel) | Count (s : sel).

Definition header_label (todo : option (str * str)) : str :=
  match todo with
  | None => S "4 | NOTES"
  | Some (_, st) =>
      if eqb_str st (S "x") then S "2 | DONE TODOS"
      else if eqb_str st (S "~") then S "3 | CANCELED TODOS"
      else if eqb_str st (S "-") then S "4 | NOTES"
      else S "1 | OPEN TODOS"
  end.
Definition prio_key (todo : option (str * str)) : str := match todo with None => [] | Some (p, _) => p end.
Definition tag_key (sym : string) (tags : list str) : str :=
  join (S " | ") (map (fun t => S sym ++ t) (sort_str tags)).

Definition gkeyf (g : gkey) (n : xnote) : str :=
  match g with
  | GArea => tag_key "#" (x_areas n)
  | GContext => tag_key "@" (x_contexts n)
  | GPerson => tag_key "%" (x_people n)
  | GProject => tag_key "+" (x_projects n)
  | GFile => S "[[" ++ replace (S ".zo") [] (x_path n) ++ S "]]"
  | GNoteType => header_label (x_todo n)
  | GPriority => prio_key (x_todo n)
  | GSection => x_section n
  end.
Definition okeyf (o : okey) (n : xnote) : str :=
  match o with
  | OAlpha => to_string (x_todo n) (x_body n)
  | OCreate => x_create n
  | OModify => x_modify n
  | ONoteType => header_label (x_todo n)
  | OPriority => prio_key (x_todo n)
  | ONone => x_path n ++ S "::" ++ str_of_nat (x_line n)
  end.
Definition order_key (os : list okey) (n : xnote) : str := join (S " ") (map (fun o => okeyf o n) os).

(* sorted(notes, key=k): stable *)
Definition sort_by {A} (k : A -> str) (l : list A) : list A := isort (fun a b => str_leb (k a) (k b)) l.

(* itertools.groupby on a key: maximal runs of equal keys *)
Fixpoint groupby {A} (k : A -> str) (l : list A) : list (str * list A) :=
  match l with
  | [] => []
  | x :: r =>
      match groupby k r with
      | (lbl, g) :: gs => if eqb_str (k x) lbl then (lbl, x :: g) :: gs else (k x, [x]) :: (lbl, g) :: gs
      | [] => [(k x, [x])]
      end
  end.

Inductive ngroup := Leaf (ns : list xnote) | Groups (gs : list (str * ngroup)).

Fixpoint group_by (gs : list gkey) (ns : list xnote) : ngroup :=
  match gs with
  | [] => Leaf ns
  | g :: rest => Groups (map (fun lg => (fst lg, group_by rest (snd lg))) (groupby (gkeyf g) (sort_by (gkeyf g) ns)))
  end.

Fixpoint order_by (os : list okey) (t : ngroup) : ngroup :=
  match t with
  | Leaf ns => Leaf (sort_by (order_key os) ns)
  | Groups gs => Groups ((fix go (l : list (str * ngroup)) :=
                            match l with [] => [] | (lbl, g) :: r => (lbl, order_by os g) :: go r end) gs)
  end.

Definition prop_values (key : str) (ns : list xnote) : list str :=
  flat_map (fun n => map snd (filter (fun kv => eqb_str (fst kv) key) (x_props n))) ns.

Definition selector (s : sel) (alpha : bool) (ns : list xnote) : list str :=
  let fin := fun l => if alpha then sort_str (uniq l) else uniq l in
  match s with
  | SNote => map (fun n => rstrip (to_string (x_todo n) (x_body n))) ns
  | SFile => sorted_set (map x_path ns)
  | SArea => fin (flat_map x_areas ns)
  | SContext => fin (flat_map x_contexts ns)
  | SPerson => fin (flat_map x_people ns)
  | SProject => fin (flat_map x_projects ns)
  | SPropKeys => fin (flat_map (fun n => map fst (x_props n)) ns)
  | SLinks => fin (flat_map x_links ns)
  | SPropValues k => fin (prop_values k ns)
  end.

Definition nl1 : str := [ascii_of_nat 10].
Definition header (level nlevels : nat) : res str :=
  match level with
  | 1 => Ok ((if (1 <? nlevels)%nat then nl1 else []) ++ repeat (ch "#") 32)
  | 2 => Ok (repeat (ch "=") 24)
  | 3 => Ok (repeat (ch "+") 16)
  | 4 => Ok (repeat (ch "-") 8)
  | _ => Exn (S "RuntimeError")
  end.

Fixpoint render (sl : select) (alpha : bool) (nlevels level : nat) (t : ngroup) : res str :=
  match t with
  | Leaf ns =>
      Ok (match sl with
          | Count s => str_of_nat (length (selector s alpha ns))
          | Sel s => join nl1 (selector s alpha ns)
          end ++ nl1 ++ nl1)
  | Groups gs =>
      (fix go (l : list (str * ngroup)) : res str :=
         match l with
         | [] => Ok []
         | (name, g) :: r =>
             h <- match name with
                  | [] => Ok []
                  | _ => hd <- header level nlevels ;; Ok (hd ++ S " " ++ name ++ nl1)
                  end ;;
             body <- render sl alpha nlevels (Datatypes.S level) g ;;
             rest <- go r ;;
             Ok (h ++ body ++ rest)
         end) gs
  end.

Definition okey_eqb (a b : okey) : bool :=
  match a, b with
  | OAlpha, OAlpha | OCreate, OCreate | OModify, OModify | ONone, ONone | ONoteType, ONoteType | OPriority, OPriority => true
  | _, _ => false
  end.
(* set(order_by) == {ALPHA} *)
Definition alpha_sort (os : list okey) : bool :=
  match os with [] => false | _ => forallb (okey_eqb OAlpha) os end.

Definition execute (sl : select) (gs : list gkey) (os : list okey) (ns : list xnote) : res str :=
  r <- render sl (alpha_sort os) (length gs) 1 (order_by os (group_by gs ns)) ;;
  Ok (strip r).

(* _to_comparable_section_from_section: titles outermost (H1 or the anonymous h0) first *)
Definition prepend_to_header (header value : str) : str :=
  value ++ match header with [] => [] | _ => S " | " ++ header end.
Definition section_key (titles : list str) : str :=
  match titles with
  | [] => []
  | t1 :: inner =>
      let r := fold_right (fun t acc => prepend_to_header acc t) [] inner in
      match t1 with [] => r | _ => prepend_to_header r t1 end
  end.

(* ---- wire ---- *)
Definition dX (x : sexp) : xnote :=
  {| x_path := dStr (nthS 0 x); x_line := dNat (nthS 1 x); x_body := dStr (nthS 2 x);
     x_todo := dOpt (fun e => (dStr (nthS 0 e), dStr (nthS 1 e))) (nthS 3 x);
     x_create := dStr (nthS 4 x); x_modify := dStr (nthS 5 x);
     x_areas := dList dStr (nthS 6 x); x_contexts := dList dStr (nthS 7 x); x_people := dList dStr (nthS 8 x);
     x_projects := dList dStr (nthS 9 x); x_links := dList dStr (nthS 10 x);
     x_props := dList (fun e => (dStr (nthS 0 e), dStr (nthS 1 e))) (nthS 11 x);
     x_section := section_key (dList dStr (nthS 12 x)) |}.
Definition dG (x : sexp) : gkey :=
  let s := dStr x in
  if eqb_str s (S "AREA") then GArea else if eqb_str s (S "CONTEXT") then GContext
  else if eqb_str s (S "FILE") then GFile else if eqb_str s (S "NOTE_TYPE") then GNoteType
  else if eqb_str s (S "PERSON") then GPerson else if eqb_str s (S "PRIORITY") then GPriority
  else if eqb_str s (S "PROJECT") then GProject else GSection.
Definition dO (x : sexp) : okey :=
  let s := dStr x in
  if eqb_str s (S "ALPHA") then OAlpha else if eqb_str s (S "CREATE_DATE") then OCreate
  else if eqb_str s (S "MODIFY_DATE") then OModify else if eqb_str s (S "NONE") then ONone
  else if eqb_str s (S "NOTE_TYPE") then ONoteType else OPriority.
Definition dSel (x : sexp) : sel :=
  match x with
  | SL [SA k; SA v] => SPropValues v
  | _ => let s := dStr x in
         if eqb_str s (S "FILE") then SFile else if eqb_str s (S "NOTE") then SNote
         else if eqb_str s (S "AREA") then SArea else if eqb_str s (S "CONTEXT") then SContext
         else if eqb_str s (S "PERSON") then SPerson else if eqb_str s (S "PROJECT") then SProject
         else if eqb_str s (S "PROPERTY") then SPropKeys else SLinks
  end.
Definition dSelect (x : sexp) : select :=
  match x with
  | SL [SA k; y] => if eqb_str k (S "count") then Count (dSel y) else Sel (dSel x)
  | _ => Sel (dSel x)
  end.
(* (execute select (g ...) (o ...) (notes ...)) *)
Definition cmd_execute (args : list sexp) : sexp :=
  match args with
  | [sl; gs; os; ns] => sRes sStr (execute (dSelect sl) (dList dG gs) (dList dO os) (dList dX ns))
  | _ => err "execute: arity"
  end.
