(* Abstract well-formed pages, the parse tree the ANTLR parser builds for their
   canonical text (the tree_of functions; checked against the real parser on every run),
   and the property-level reading of a page (the spec functions): which notes it contains,
   with which kind / priority / identity / body / inherited metadata. *)
From Zorg Require Import Base.PyStr Base.Sexp Base.Res Base.Dates Gen.Params Model.Zid Model.FileListener.

Inductive tagk := KArea | KContext | KPerson | KProject.
Inductive word :=
| WId (s : str)                 (* an ID token *)
| WTag (k : tagk) (s : str)     (* #s @s %s +s *)
| WLink (s : str)               (* [[s]] *)
| WProp (k v : str)             (* k::v *)
| WDate (s : str)               (* a DATE token yyyy-mm-dd *)
| WZid (z : str).               (* a ZID token *)

Definition nd (r : string) (l : nat) (ks : list tree) : tree := Node (S r) l ks.
Definition tk (ty : string) (s : str) : tree := Tok (S ty) s.
Definition tks (ty s : string) : tree := Tok (S ty) (S s).

Definition tag_rule (k : tagk) : string :=
  match k with KArea => "area" | KContext => "context" | KPerson => "person" | KProject => "project" end.
Definition tag_tok (k : tagk) : tree :=
  match k with KArea => tks "HASH" "#" | KContext => tks "AT_SIGN" "@" | KPerson => tks "PERCENT" "%"
          | KProject => tks "PLUS" "+" end.
Definition tag_name (k : tagk) : string :=
  match k with KArea => "areas" | KContext => "contexts" | KPerson => "people" | KProject => "projects" end.
Definition tag_sym (k : tagk) : str :=
  match k with KArea => S "#" | KContext => S "@" | KPerson => S "%" | KProject => S "+" end.

Definition t_id (l : nat) (inner : tree) : tree := nd "id" l [nd "priv_id" l [inner]].
Definition t_uw (l : nat) (inner : tree) : tree :=
  nd "space_atom" l [tks "SPACE" " "; nd "atom" l [nd "word_group" l [nd "word" l [nd "unquoted_word" l [inner]]]]].

Definition tree_of_word (l : nat) (w : word) : tree :=
  match w with
  | WId s => t_uw l (nd "id_group" l [t_id l (tk "ID" s)])
  | WTag k s => t_uw l (nd "tag" l [nd (tag_rule k) l [tag_tok k; t_id l (tk "ID" s)]])
  | WLink s => t_uw l (nd "link" l [tks "T__0" "[["; nd "id_group" l [t_id l (tk "ID" s)]; tks "T__1" "]]"])
  | WProp k v => t_uw l (nd "property" l [nd "simple_prop" l
                   [t_id l (tk "ID" k); tks "COLON" ":"; tks "COLON" ":";
                    nd "simple_prop_value" l [t_id l (tk "ID" v)]]])
  | WDate s => t_uw l (nd "id_group" l [t_id l (nd "date" l [tk "DATE" s])])
  | WZid z => t_uw l (nd "id_group" l [t_id l (nd "zid" l [tk "ZID" z])])
  end.
Definition tree_of_words (l : nat) (ws : list word) : tree := nd "space_atoms" l (map (tree_of_word l) ws).

Definition word_text (w : word) : str :=
  match w with
  | WId s => s
  | WTag k s => tag_sym k ++ s
  | WLink s => S "[[" ++ s ++ S "]]"
  | WProp k v => k ++ S "::" ++ v
  | WDate s => s
  | WZid z => z
  end.
Definition words_text (ws : list word) : str := concat (map (fun w => S " " ++ word_text w) ws).

(* items *)
(* identity position of an item: an ordinary first word (no identity), a ZID, a modify date and a ZID,
   a long creation date, or a modify date alone (an edited note that has no ZID yet) *)
Inductive ident := IPlain (s : str) | IZid (z : str) | IModZid (m z : str) | ILong (d : str) | IMod (m : str).
Inductive tkind := TOpen | TDone | TCancelled | TBlocked | TParent.
Definition kind_char (k : tkind) : ascii :=
  match k with TOpen => ch "o" | TDone => ch "x" | TCancelled => ch "~" | TBlocked => ch "<" | TParent => ch ">" end.
(* i_kind = None: a plain note ("- ...") *)
Record item := mkItem { i_kind : option tkind; i_prio : option str; i_ident : ident; i_words : list word }.

Definition ident_words (i : ident) : list word :=
  match i with
  | IPlain s => [WId s]
  | IZid z => [WZid z]
  | IModZid m z => [WId m; WZid z]
  | ILong d => [WDate d]
  | IMod m => [WId m]
  end.
Definition item_words (it : item) : list word := ident_words (i_ident it) ++ i_words it.

Definition kind_tok (k : tkind) : tree :=
  match k with TOpen => tks "LOWER_O" "o" | TDone => tks "LOWER_X" "x" | TCancelled => tks "TILDE" "~"
          | TBlocked => tks "LANGLE" "<" | TParent => tks "RANGLE" ">" end.

Definition tree_of_item (l : nat) (it : item) : tree :=
  let body := nd "note_body" l [tree_of_words l (item_words it)] in
  match i_kind it with
  | None => nd "item" l [nd "note" l [tks "DASH" "-"; nd "base_note" l [body; tks "NL" "
"]]]
  | Some c =>
      nd "item" l [nd "todo" l [nd "base_todo" l
        ([nd "todo_prefix" l [kind_tok c]] ++
         match i_prio it with
         | Some p => [tks "SPACE" " "; nd "priority" l [tk "PRIORITY" p]]
         | None => []
         end ++ [body; tks "NL" "
"])]]
  end.

(* ---- what an item's words contribute (the property-level reading) ---- *)
Definition word_tags (w : word) : list (str * str) :=
  match w with
  | WTag k s => if forallb is_digit s then [] else [(S (tag_name k), s)]      (* digit-only tags are not tags *)
  | WLink s => if forallb is_digit s then [] else [(S "links", s)]
  | _ => []
  end.
Definition words_tags (ws : list word) : list (str * str) := concat (map word_tags ws).
Definition word_prop (m : list (str * str)) (w : word) : list (str * str) :=
  match w with WProp k v => dict_set k v m | _ => m end.
Definition words_props (ws : list word) (m : list (str * str)) : list (str * str) := fold_left word_prop ws m.
Definition word_ids (w : word) : nat := match w with WProp _ _ => 2 | _ => 1 end.
Definition words_ids (ws : list word) : nat := fold_left (fun n w => n + word_ids w)%nat ws 0%nat.

(* ---- the property-level reading of one item under the metadata of its enclosing scopes ---- *)
Definition zid_day (z : str) : str := match split_on (ch "#") z with p :: _ => p | [] => [] end.
Definition date_of_short (today : date) (s : str) : date := match from_short s with Ok d => d | _ => today end.
Definition date_of_long (today : date) (s : str) : date := match from_long s with Ok d => d | _ => today end.

Definition ident_zid (i : ident) : option str :=
  match i with IZid z | IModZid _ z => Some z | _ => None end.
Definition ident_create (today : date) (i : ident) : option date :=
  match i with
  | IZid z | IModZid _ z => Some (date_of_short today (zid_day z))
  | ILong d => Some (date_of_long today d)
  | IPlain _ | IMod _ => None
  end.
Definition ident_modify (today : date) (i : ident) : option date :=
  match i with IModZid m _ | IMod m => Some (date_of_short today m) | _ => None end.
(* the innermost enclosing scope that carries a date wins; else today *)
Definition outer_date (today : date) (od : list (option date)) : date :=
  fold_left (fun acc o => match o with Some d => d | None => acc end) od today.

Definition tagvals (n : string) (tags : list (str * str)) : list str :=
  sorted_set (map snd (filter (fun nv => eqb_str (fst nv) (S n)) tags)).

Definition spec_note (today : date) (ot op : list (list (str * str))) (od : list (option date))
           (key : list nat) (line : nat) (it : item) : note :=
  let ws := item_words it in
  let tags := concat ot ++ words_tags ws in
  let cd := match ident_create today (i_ident it) with Some d => d | None => outer_date today od end in
  {| n_body := strip (words_text ws); n_line := line; n_key := key;
     n_areas := tagvals "areas" tags; n_contexts := tagvals "contexts" tags; n_links := tagvals "links" tags;
     n_people := tagvals "people" tags; n_projects := tagvals "projects" tags;
     n_props := fold_left dict_union (op ++ [words_props ws []]) [];
     n_create := cd;
     n_modify := match ident_modify today (i_ident it) with Some d => d | None => cd end;
     n_todo := match i_kind it with
               | None => None
               | Some k => Some (match i_prio it with Some p => upper p | None => default_priority end, [kind_char k])
               end;
     n_zid := ident_zid (i_ident it) |}.

(* ---- blocks: items and in-block comments on consecutive lines, followed by one blank line ---- *)
Inductive belem := BItem (it : item) | BComment (ws : list word).
Definition block := list belem.
Definition tree_of_elem (l : nat) (e : belem) : tree :=
  match e with
  | BItem it => tree_of_item l it
  | BComment ws => nd "item" l [nd "comment" l [tks "HASH" "#"; tree_of_words l ws; tks "NL" "
"]]
  end.
Fixpoint tree_of_items (l : nat) (its : list belem) : list tree :=
  match its with
  | [] => []
  | it :: r => tree_of_elem l it :: tree_of_items (Datatypes.S l) r
  end.
Definition tree_of_block (l : nat) (b : block) : tree :=
  nd "block" l (tree_of_items l b ++ [tks "NL" "
"]).
(* a comment yields no note and contributes nothing to the notes around it; it occupies its line *)
Fixpoint spec_items (today : date) (ot op : list (list (str * str))) (od : list (option date))
         (key : list nat) (l : nat) (its : list belem) : list note :=
  match its with
  | [] => []
  | BItem it :: r => spec_note today ot op od key l it :: spec_items today ot op od key (Datatypes.S l) r
  | BComment _ :: r => spec_items today ot op od key (Datatypes.S l) r
  end.

Fixpoint tree_of_blocks (l : nat) (bs : list block) : list tree :=
  match bs with
  | [] => []
  | b :: r => tree_of_block l b :: tree_of_blocks (l + Datatypes.S (length b)) r
  end.
Fixpoint blocks_lines (bs : list block) : nat :=
  match bs with [] => 0 | b :: r => Datatypes.S (length b) + blocks_lines r end.
(* blocks of the section with path [parent]: the i-th gets the key parent ++ [0; b0 + i] *)
Fixpoint spec_blocks (today : date) (ot op : list (list (str * str))) (od : list (option date))
         (parent : list nat) (b0 : nat) (l : nat) (bs : list block) : list note :=
  match bs with
  | [] => []
  | b :: r => spec_items today ot op od (parent ++ [0; b0]) l b ++
              spec_blocks today ot op od parent (Datatypes.S b0) (l + Datatypes.S (length b)) r
  end.

(* ---- metadata written on a header / the title line ---- *)
Definition word_date (today : date) (acc : option date) (w : word) : option date :=
  match w with WDate d => Some (date_of_long today d) | _ => acc end.
Definition words_date (today : date) (ws : list word) (acc : option date) : option date :=
  fold_left (word_date today) ws acc.

(* ---- sections (nesting H1 > H2 > H3 > H4 is the nesting of gsec; lvl 0 = H1) and pages ---- *)
Inductive gsec := GSec (title : list word) (blocks : list block) (subs : list gsec).

Fixpoint sec_lines (s : gsec) : nat :=
  match s with
  | GSec _ bs subs =>
      2 + blocks_lines bs + (fix go (ss : list gsec) : nat :=
                               match ss with [] => 0 | s' :: r => sec_lines s' + go r end) subs
  end.
Fixpoint secs_lines (ss : list gsec) : nat := match ss with [] => 0 | s' :: r => sec_lines s' + secs_lines r end.

Definition hdr_rule (lvl : nat) : string :=
  match lvl with 0 => "h1_header" | 1 => "h2_header" | 2 => "h3_header" | _ => "h4_header" end.
Definition sec_rule (lvl : nat) : string :=
  match lvl with 0 => "h1_section" | 1 => "h2_section" | 2 => "h3_section" | _ => "h4_section" end.
Definition ruler (lvl : nat) : tree :=
  match lvl with
  | 0 => tks "H1_HEADER" "################################"
  | 1 => tks "H2_HEADER" "========================"
  | 2 => tks "H3_HEADER" "++++++++++++++++"
  | _ => tks "H4_HEADER" "--------"
  end.
Definition nl_tok : tree := tks "NL" "
".
Definition tree_of_header (lvl l : nat) (title : list word) : tree :=
  nd (hdr_rule lvl) l [ruler lvl; tree_of_words l title; nd "eol" l [nl_tok]].

Fixpoint tree_of_sec (lvl l : nat) (s : gsec) : tree :=
  match s with
  | GSec title bs subs =>
      nd (sec_rule lvl) l
         ([tree_of_header lvl l title; nl_tok] ++ tree_of_blocks (l + 2) bs ++
          (fix go (ss : list gsec) (l' : nat) : list tree :=
             match ss with
             | [] => []
             | s' :: r => tree_of_sec (Datatypes.S lvl) l' s' :: go r (l' + sec_lines s')
             end) subs (l + 2 + blocks_lines bs))
  end.
Fixpoint tree_of_secs (lvl l : nat) (ss : list gsec) : list tree :=
  match ss with
  | [] => []
  | s' :: r => tree_of_sec lvl l s' :: tree_of_secs lvl (l + sec_lines s') r
  end.

Fixpoint spec_sec (today : date) (lvl : nat) (ot op : list (list (str * str))) (od : list (option date))
         (path : list nat) (l : nat) (s : gsec) : list note :=
  match s with
  | GSec title bs subs =>
      let ot' := upd (Datatypes.S lvl) (fun _ => words_tags title) ot in
      let op' := upd (Datatypes.S lvl) (fun _ => words_props title []) op in
      let od' := upd (Datatypes.S lvl) (fun _ => words_date today title None) od in
      spec_blocks today ot' op' od' path 0 (l + 2) bs ++
      (fix go (ss : list gsec) (j l' : nat) : list note :=
         match ss with
         | [] => []
         | s' :: r => spec_sec today (Datatypes.S lvl) ot' op' od' (path ++ [Datatypes.S j]) l' s' ++
                      go r (Datatypes.S j) (l' + sec_lines s')
         end) subs 0 (l + 2 + blocks_lines bs)
  end.
Fixpoint spec_secs (today : date) (lvl : nat) (ot op : list (list (str * str))) (od : list (option date))
         (parent : list nat) (j l : nat) (ss : list gsec) : list note :=
  match ss with
  | [] => []
  | s' :: r => spec_sec today lvl ot op od (parent ++ [Datatypes.S j]) l s' ++
               spec_secs today lvl ot op od parent (Datatypes.S j) (l + sec_lines s') r
  end.

Record apage := mkPg { pg_title : list word; pg_blocks : list block; pg_h2s : list gsec; pg_h1s : list gsec }.

Definition tree_of_page (pg : apage) : tree :=
  let l1 := 3 + blocks_lines (pg_blocks pg) in
  nd "prog" 1
     [nd "head" 1 [nd "comment" 1 [tks "HASH" "#"; tree_of_words 1 (pg_title pg); nl_tok]];
      nd "body" 2 ([nl_tok] ++ tree_of_blocks 3 (pg_blocks pg) ++ tree_of_secs 1 l1 (pg_h2s pg) ++
                   tree_of_secs 0 (l1 + secs_lines (pg_h2s pg)) (pg_h1s pg));
      tks "EOF" "<EOF>"].

Definition spec_page (today : date) (pg : apage) : list note :=
  let ot := [words_tags (pg_title pg); []; []; []; []] in
  let op := [words_props (pg_title pg) []; []; []; []; []] in
  let od := [words_date today (pg_title pg) None; None; None; None; None] in
  let l1 := 3 + blocks_lines (pg_blocks pg) in
  spec_blocks today ot op od [0] 0 3 (pg_blocks pg) ++
  spec_secs today 1 ot op od [0] 0 l1 (pg_h2s pg) ++
  spec_secs today 0 ot op od [] 0 (l1 + secs_lines (pg_h2s pg)) (pg_h1s pg).

(* ---- wire: abstract pages from the harness ---- *)
Definition dTagk (x : sexp) : tagk :=
  let s := dStr x in
  if eqb_str s (S "#") then KArea else if eqb_str s (S "@") then KContext else if eqb_str s (S "%") then KPerson else KProject.
Definition dWord (x : sexp) : word :=
  let k := dStr (nthS 0 x) in
  if eqb_str k (S "id") then WId (dStr (nthS 1 x))
  else if eqb_str k (S "tag") then WTag (dTagk (nthS 1 x)) (dStr (nthS 2 x))
  else if eqb_str k (S "link") then WLink (dStr (nthS 1 x))
  else if eqb_str k (S "prop") then WProp (dStr (nthS 1 x)) (dStr (nthS 2 x))
  else if eqb_str k (S "date") then WDate (dStr (nthS 1 x))
  else WZid (dStr (nthS 1 x)).
Definition dIdent (x : sexp) : ident :=
  let k := dStr (nthS 0 x) in
  if eqb_str k (S "plain") then IPlain (dStr (nthS 1 x))
  else if eqb_str k (S "zid") then IZid (dStr (nthS 1 x))
  else if eqb_str k (S "modzid") then IModZid (dStr (nthS 1 x)) (dStr (nthS 2 x))
  else if eqb_str k (S "mod") then IMod (dStr (nthS 1 x))
  else ILong (dStr (nthS 1 x)).
Definition dKind (x : sexp) : option tkind :=
  let s := dStr x in
  if eqb_str s (S "-") then None else if eqb_str s (S "o") then Some TOpen else if eqb_str s (S "x") then Some TDone
  else if eqb_str s (S "~") then Some TCancelled else if eqb_str s (S "<") then Some TBlocked else Some TParent.
Definition dItem (x : sexp) : item :=
  mkItem (dKind (nthS 0 x)) (dOpt dStr (nthS 1 x)) (dIdent (nthS 2 x)) (dList dWord (nthS 3 x)).
(* ("#" (word ...)) is an in-block comment, anything else an item *)
Definition dElem (x : sexp) : belem :=
  if eqb_str (dStr (nthS 0 x)) (S "#") then BComment (dList dWord (nthS 1 x)) else BItem (dItem x).
Fixpoint dSec_fuel (fuel : nat) (x : sexp) : gsec :=
  match fuel with
  | O => GSec [] [] []
  | Datatypes.S f' =>
      GSec (dList dWord (nthS 0 x)) (dList (dList dElem) (nthS 1 x))
           (match nthS 2 x with SL l => map (dSec_fuel f') l | _ => [] end)
  end.
Definition dPage (x : sexp) : apage :=
  mkPg (dList dWord (nthS 0 x)) (dList (dList dElem) (nthS 1 x))
       (match nthS 2 x with SL l => map (dSec_fuel 8) l | _ => [] end)
       (match nthS 3 x with SL l => map (dSec_fuel 8) l | _ => [] end).

Fixpoint sTree (t : tree) : sexp :=
  match t with
  | Node r l kids => L [SA (S "N"); sStr r; sN l; L (map sTree kids)]
  | Tok ty s => L [SA (S "T"); sStr ty; sStr s]
  | ErrTok s => L [SA (S "E"); sStr s]
  end.
(* (page_tree page) -> the tree the parser must build ; (page_spec (y m d) page) -> the notes the property demands *)
Definition cmd_page_tree (args : list sexp) : sexp :=
  match args with [p] => sTree (tree_of_page (dPage p)) | _ => err "page_tree: arity" end.
Definition cmd_page_spec (args : list sexp) : sexp :=
  match args with
  | [today; p] => sList sNote (spec_page (dDate3 today) (dPage p))
  | _ => err "page_spec: arity"
  end.

(* ---- a decision procedure for the hypotheses of the page theorems (Proofs/PageFacts.v proves it sound);
   the harness evaluates it on every generated page ---- *)
Definition is_ok {A} (r : res A) : bool := match r with Ok _ => true | _ => false end.
Definition valid_identb (i : ident) : bool :=
  match i with
  | IPlain s => negb (is_short_date_spec s) && negb (is_zid s)
  | IZid z => negb (is_short_date_spec z) && is_zid z && is_ok (from_short (zid_day z))
  | IModZid m z => is_short_date_spec m && is_ok (from_short m) && is_zid z && is_ok (from_short (zid_day z))
  | ILong d => negb (is_short_date_spec d) && negb (is_zid d) && is_ok (from_long d)
  | IMod m => is_short_date_spec m && is_ok (from_short m)
  end.
(* after a modify date that stands alone the next word could still be taken for the note's ZID: it must not look like one *)
Definition word_not_zidb (w : word) : bool :=
  match w with
  | WId s | WDate s | WTag _ s | WLink s => negb (is_zid s)
  | WProp k _ => negb (is_zid k)
  | WZid _ => false
  end.
Definition after_mod_okb (i : ident) (ws : list word) : bool :=
  match i, ws with IMod _, w :: _ => word_not_zidb w | _, _ => true end.
Definition nonempty (s : str) : bool := match s with [] => false | _ => true end.
Definition valid_itemb (it : item) : bool :=
  let body := strip (words_text (item_words it)) in
  valid_identb (i_ident it) && after_mod_okb (i_ident it) (i_words it) &&
  nonempty body && negb (contains (S ":: ") body) && negb (contains (S "::" ++ [nlc]) body).
Definition valid_mwordb (w : word) : bool := match w with WDate d => is_ok (from_long d) | _ => true end.
Definition valid_elemb (e : belem) : bool :=
  (* the parser builds no space_atoms node for a comment without words: such comments are outside the modelled trees *)
  match e with BItem it => valid_itemb it | BComment ws => match ws with [] => false | _ => true end end.
Fixpoint valid_secb (lvl : nat) (s : gsec) : bool :=
  match s with
  | GSec title bs subs =>
      (lvl <? 4)%nat && forallb valid_mwordb title && forallb (forallb valid_elemb) bs &&
      (fix go (ss : list gsec) : bool := match ss with [] => true | s' :: r => valid_secb (Datatypes.S lvl) s' && go r end) subs
  end.
Fixpoint valid_secsb (lvl : nat) (ss : list gsec) : bool :=
  match ss with [] => true | s' :: r => valid_secb lvl s' && valid_secsb lvl r end.
Definition valid_pageb (pg : apage) : bool :=
  forallb valid_mwordb (pg_title pg) && forallb (forallb valid_elemb) (pg_blocks pg) &&
  valid_secsb 1 (pg_h2s pg) && valid_secsb 0 (pg_h1s pg).

Definition cmd_page_valid (args : list sexp) : sexp :=
  match args with [p] => sB (valid_pageb (dPage p)) | _ => err "page_valid: arity" end.
