(* Regular expressions over ASCII codes with a derivative matcher. *)
From Zorg Require Import Base.PyStr.

Inductive re :=
| Emp                      (* matches nothing *)
| Eps
| Rng (lo hi : N)          (* one character with lo <= code <= hi *)
| Seq (a b : re)
| Alt (a b : re)
| Star (a : re).

Fixpoint nullable (r : re) : bool :=
  match r with
  | Emp => false
  | Eps => true
  | Rng _ _ => false
  | Seq a b => nullable a && nullable b
  | Alt a b => nullable a || nullable b
  | Star _ => true
  end.

Definition in_rng (lo hi : N) (c : ascii) : bool := between lo hi c.

(* smart constructors keep derivatives small *)
Definition mkSeq (a b : re) : re :=
  match a, b with
  | Emp, _ => Emp
  | _, Emp => Emp
  | Eps, _ => b
  | _, _ => Seq a b
  end.
Definition mkAlt (a b : re) : re :=
  match a, b with
  | Emp, _ => b
  | _, Emp => a
  | _, _ => Alt a b
  end.

Fixpoint deriv (r : re) (c : ascii) : re :=
  match r with
  | Emp => Emp
  | Eps => Emp
  | Rng lo hi => if in_rng lo hi c then Eps else Emp
  | Seq a b =>
      if nullable a then mkAlt (mkSeq (deriv a c) b) (deriv b c)
      else mkSeq (deriv a c) b
  | Alt a b => mkAlt (deriv a c) (deriv b c)
  | Star a => mkSeq (deriv a c) (Star a)
  end.

Definition is_emp (r : re) : bool := match r with Emp => true | _ => false end.

Fixpoint matches (r : re) (s : str) : bool :=
  match s with
  | [] => nullable r
  | c :: s' => matches (deriv r c) s'
  end.

(* length of the longest prefix of [s] matched by [r] (None: no prefix, not even the empty one) *)
Fixpoint longest_go (r : re) (s : str) (pos : nat) (best : option nat) : option nat :=
  let best' := if nullable r then Some pos else best in
  match s with
  | [] => best'
  | c :: s' =>
      let r' := deriv r c in
      if is_emp r' then best' else longest_go r' s' (Datatypes.S pos) best'
  end.
Definition longest_match (r : re) (s : str) : option nat := longest_go r s 0 None.

(* semantics *)
Inductive Matches : re -> str -> Prop :=
| M_eps : Matches Eps []
| M_rng lo hi c : in_rng lo hi c = true -> Matches (Rng lo hi) [c]
| M_seq a b s t : Matches a s -> Matches b t -> Matches (Seq a b) (s ++ t)
| M_altl a b s : Matches a s -> Matches (Alt a b) s
| M_altr a b s : Matches b s -> Matches (Alt a b) s
| M_star0 a : Matches (Star a) []
| M_star1 a s t : Matches a s -> Matches (Star a) t -> Matches (Star a) (s ++ t).
