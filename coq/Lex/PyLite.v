(* A small deep embedding of the Python fragment in which zorg's pure string helpers are written
   (storage/sql/_zid_manager.py:_get_next_id, shared/dates.py:is_zid / is_short_date_spec).  harness/translate_py.py
   turns the current source of those functions into terms of this syntax (coq/Gen/PySrc.v) on every run; the
   theorems in Proofs/PySrcFacts.v then relate the SOURCE, as translated, to the hand-written model. *)
From Zorg Require Import Base.PyStr Base.Res.
From Coq Require Import ZArith.

Inductive value := VStr (s : str) | VInt (z : Z) | VBool (b : bool) | VNone | VTuple (l : list value).

Inductive cmpop := CEq | CNe | CLt | CLe | CGt | CGe | CIn | CNotIn | CIs | CIsNot.
Inductive expr :=
| EVar (x : str) | EStr (s : str) | EInt (z : Z) | EBool (b : bool) | ENone | ETuple (l : list expr)
| EIndex (e i : expr)                          (* e[i], negative i from the end *)
| ESlice (e : expr) (lo hi : option expr)      (* e[lo:hi] *)
| ELen (e : expr) | EAbs (e : expr) | ENeg (e : expr) | EOrd (e : expr) | EChr (e : expr)
| EAdd (a b : expr) | ESub (a b : expr)
| ECmp (op : cmpop) (a b : expr)
| EAnd (a b : expr) | EOr (a b : expr) | ENot (a : expr)
| EAllDigits (e : expr)                         (* all(ch.isdigit() for ch in e) *)
| EFmt (parts : list expr)                      (* f-string: str() of the parts, concatenated *)
| ECall (f : str) (args : list expr).           (* another translated function *)

Inductive stmt :=
| SAssign (x : str) (e : expr)
| SIf (c : expr) (t e : list stmt)
| SWhile (c : expr) (body : list stmt)
| SReturn (e : expr)
| SRaise (exn : str).

Record fn := mkFn { f_name : str; f_params : list str; f_body : list stmt }.

Definition env := list (str * value).
Fixpoint lookup (x : str) (e : env) : option value :=
  match e with [] => None | (y, v) :: r => if eqb_str x y then Some v else lookup x r end.
Fixpoint assign (x : str) (v : value) (e : env) : env :=
  match e with
  | [] => [(x, v)]
  | (y, w) :: r => if eqb_str x y then (y, v) :: r else (y, w) :: assign x v r
  end.

Fixpoint value_eqb (a b : value) : bool :=
  match a, b with
  | VStr x, VStr y => eqb_str x y
  | VInt x, VInt y => Z.eqb x y
  | VBool x, VBool y => Bool.eqb x y
  | VNone, VNone => true
  | VTuple x, VTuple y =>
      (fix go (l1 l2 : list value) : bool :=
         match l1, l2 with
         | [], [] => true
         | u :: r, v :: s => value_eqb u v && go r s
         | _, _ => false
         end) x y
  | _, _ => false
  end.
Definition truthy (v : value) : bool :=
  match v with
  | VBool b => b | VNone => false | VInt z => negb (Z.eqb z 0) | VStr s => negb (match s with [] => true | _ => false end)
  | VTuple l => negb (match l with [] => true | _ => false end)
  end.

Definition TypeErr {A} : res A := Exn (S "TypeError").
Definition IndexErr {A} : res A := Exn (S "IndexError").
Definition NameErr {A} : res A := Exn (S "NameError").

Definition norm_index (n : nat) (i : Z) : option nat :=
  let j := if (i <? 0)%Z then (Z.of_nat n + i)%Z else i in
  if (0 <=? j)%Z && (j <? Z.of_nat n)%Z then Some (Z.to_nat j) else None.
(* slice bounds are clamped *)
Definition clamp (n : nat) (i : Z) : nat :=
  let j := if (i <? 0)%Z then (Z.of_nat n + i)%Z else i in
  if (j <? 0)%Z then 0%nat else if (Z.of_nat n <? j)%Z then n else Z.to_nat j.

Definition cmp_values (op : cmpop) (a b : value) : res value :=
  match op with
  | CEq => Ok (VBool (value_eqb a b))
  | CNe => Ok (VBool (negb (value_eqb a b)))
  | CIs => Ok (VBool (value_eqb a b))                 (* used against None only *)
  | CIsNot => Ok (VBool (negb (value_eqb a b)))
  | CIn => match b with
           | VTuple l => Ok (VBool (existsb (value_eqb a) l))
           | VStr s => match a with VStr x => Ok (VBool (contains x s)) | _ => TypeErr end
           | _ => TypeErr
           end
  | CNotIn => match b with
              | VTuple l => Ok (VBool (negb (existsb (value_eqb a) l)))
              | VStr s => match a with VStr x => Ok (VBool (negb (contains x s))) | _ => TypeErr end
              | _ => TypeErr
              end
  | CLt | CLe | CGt | CGe =>
      match a, b with
      | VInt x, VInt y =>
          Ok (VBool (match op with CLt => (x <? y)%Z | CLe => (x <=? y)%Z | CGt => (y <? x)%Z | _ => (y <=? x)%Z end))
      | _, _ => TypeErr
      end
  end.

Definition str_of_value (v : value) : res str :=
  match v with VStr s => Ok s | VInt z => Ok (str_of_Z z) | _ => TypeErr end.

Section Eval.
  Variable fns : list fn.
  Fixpoint find_fn (l : list fn) (f : str) : option fn :=
    match l with [] => None | g :: r => if eqb_str (f_name g) f then Some g else find_fn r f end.

  (* fuel bounds loop iterations and call depth together *)
  Inductive outcome := Normal (e : env) | Returned (v : value).

  Fixpoint eval (fuel : nat) (en : env) (e : expr) {struct fuel} : res value :=
    match fuel with
    | O => OutOfFuel
    | Datatypes.S fu =>
        let ev := eval fu en in
        match e with
        | EVar x => match lookup x en with Some v => Ok v | None => NameErr end
        | EStr s => Ok (VStr s) | EInt z => Ok (VInt z) | EBool b => Ok (VBool b) | ENone => Ok VNone
        | ETuple l => vs <- seq_res (map ev l) ;; Ok (VTuple vs)
        | EIndex a i =>
            va <- ev a ;; vi <- ev i ;;
            match va, vi with
            | VStr s, VInt z => match norm_index (length s) z with
                                | Some k => Ok (VStr [nth k s (ch " ")])
                                | None => IndexErr
                                end
            | _, _ => TypeErr
            end
        | ESlice a lo hi =>
            va <- ev a ;;
            match va with
            | VStr s =>
                l <- match lo with None => Ok 0%nat
                     | Some x => v <- ev x ;; match v with VInt z => Ok (clamp (length s) z) | _ => TypeErr end end ;;
                h <- match hi with None => Ok (length s)
                     | Some x => v <- ev x ;; match v with VInt z => Ok (clamp (length s) z) | _ => TypeErr end end ;;
                Ok (VStr (firstn (h - l) (skipn l s)))
            | _ => TypeErr
            end
        | ELen a => va <- ev a ;; match va with VStr s => Ok (VInt (Z.of_nat (length s)))
                                          | VTuple l => Ok (VInt (Z.of_nat (length l))) | _ => TypeErr end
        | EAbs a => va <- ev a ;; match va with VInt z => Ok (VInt (Z.abs z)) | _ => TypeErr end
        | ENeg a => va <- ev a ;; match va with VInt z => Ok (VInt (Z.opp z)) | _ => TypeErr end
        | EOrd a => va <- ev a ;; match va with VStr [c] => Ok (VInt (Z.of_N (ncode c))) | _ => TypeErr end
        | EChr a => va <- ev a ;; match va with
                                  | VInt z => if (0 <=? z)%Z && (z <? 256)%Z then Ok (VStr [ascii_of_N (Z.to_N z)]) else OutOfModel
                                  | _ => TypeErr end
        | EAdd a b => va <- ev a ;; vb <- ev b ;;
                      match va, vb with
                      | VInt x, VInt y => Ok (VInt (x + y)) | VStr x, VStr y => Ok (VStr (x ++ y)) | _, _ => TypeErr
                      end
        | ESub a b => va <- ev a ;; vb <- ev b ;;
                      match va, vb with VInt x, VInt y => Ok (VInt (x - y)) | _, _ => TypeErr end
        | ECmp op a b => va <- ev a ;; vb <- ev b ;; cmp_values op va vb
        | EAnd a b => va <- ev a ;; if truthy va then ev b else Ok va
        | EOr a b => va <- ev a ;; if truthy va then Ok va else ev b
        | ENot a => va <- ev a ;; Ok (VBool (negb (truthy va)))
        | EAllDigits a => va <- ev a ;; match va with VStr s => Ok (VBool (forallb is_digit s)) | _ => TypeErr end
        | EFmt parts => vs <- seq_res (map ev parts) ;; ss <- seq_res (map str_of_value vs) ;; Ok (VStr (concat ss))
        | ECall f args =>
            vs <- seq_res (map ev args) ;;
            match find_fn fns f with
            | None => NameErr
            | Some g =>
                if (length (f_params g) =? length vs)%nat then
                  r <- exec fu (combine (f_params g) vs) (f_body g) ;;
                  match r with Returned v => Ok v | Normal _ => Ok VNone end
                else TypeErr
            end
        end
    end
  with exec (fuel : nat) (en : env) (ss : list stmt) {struct fuel} : res outcome :=
    match fuel with
    | O => OutOfFuel
    | Datatypes.S fu =>
        match ss with
        | [] => Ok (Normal en)
        | s :: rest =>
            match s with
            | SAssign x e => v <- eval fu en e ;; exec fu (assign x v en) rest
            | SIf c t f =>
                v <- eval fu en c ;;
                r <- exec fu en (if truthy v then t else f) ;;
                match r with Normal en' => exec fu en' rest | Returned _ => Ok r end
            | SWhile c body =>
                v <- eval fu en c ;;
                if truthy v then
                  r <- exec fu en body ;;
                  match r with Normal en' => exec fu en' (SWhile c body :: rest) | Returned _ => Ok r end
                else exec fu en rest
            | SReturn e => v <- eval fu en e ;; Ok (Returned v)
            | SRaise x => Exn x
            end
        end
    end.

  Definition call (fuel : nat) (f : str) (args : list value) : res value :=
    match find_fn fns f with
    | None => NameErr
    | Some g =>
        if (length (f_params g) =? length args)%nat then
          r <- exec fuel (combine (f_params g) args) (f_body g) ;;
          match r with Returned v => Ok v | Normal _ => Ok VNone end
        else TypeErr
    end.
End Eval.
