(* C13 — Re-running an interrupted index operation converges (effect-ordering model). *)
From Coq Require Import List Arith Bool.
Import ListNotations.
From Zorg Require Import Model.World Proofs.WorldFacts.

(* `db create` starts from scratch: whatever state a killed run left (any
   world whose files are covered), running it again leaves index and files in agreement *)
Theorem C13_create_converges : forall alloc w, covers w -> in_sync (create alloc w).
Proof. intros alloc w H. now apply create_inv. Qed.

(* `db reindex` killed after any k of its per-page commits, i.e. at every effect
   boundary BEFORE the hash map is written: the re-run brings index and files in agreement *)
Theorem C13_reindex_converges_before_hash_write : forall alloc targets k w,
  Inv w -> k <= length (commits alloc targets w) ->
  in_sync (reindex alloc None (crash_reindex alloc targets k w)).
Proof. exact rerun_after_crash_converges. Qed.

(* every page's ZIDs after the re-run are present in its file (no note is left without its ZID) *)
Theorem C13_files_carry_zids : forall alloc w p c,
  Inv_weak w -> files (reindex alloc None w) p = Some c -> all_zids c = true.
Proof.
  intros alloc w p c HI Hf. pose proof (reindex_all_in_sync alloc w HI p) as H. rewrite Hf in H. tauto.
Qed.

(* REFUTED (known finding): killed between the hash-map write and the ZID write-back, the re-run
   sees no change and the file never gets the ZID the index already holds *)
Theorem C13_window_after_hash_write_refuted :
  let w0 := run alloc0 (w_init [(1, (0, [note_new 1]))]) [Create; Edit 1 (0, [mkA (Some 10) 1 0; note_new 5])] in
  let w := reindex alloc0 None (crash_reindex alloc0 None 2 w0) in
  files w 1 = Some (0, [mkA (Some 10) 1 0; note_new 5]) /\ db w 1 = Some (0, [(10, 1, 0); (1011, 5, 0)]).
Proof. exact crash_after_hash_write. Qed.

(* REFUTED (known finding): a kill inside remove_file_by_name after one of its own commits - the first note of the
   page durably removed, nothing of the new state committed. An uninterrupted reindex stamps the note edited on a
   later day (modify day 1); the re-run after the kill finds no previous state for it and leaves it unstamped (modify
   day 0): index and file agree with each other but not with the uninterrupted run. *)
Theorem C13_partial_removal_refuted :
  let w0 := run alloc0 (w_init [(1, (0, [mkA (Some 10) 0 0; mkA (Some 11) 0 0]))])
                [Create; NextDay; Edit 1 (0, [mkA (Some 10) 1 0; mkA (Some 11) 0 0])] in
  files (reindex alloc0 None w0) 1 = Some (0, [mkA (Some 10) 1 1; mkA (Some 11) 0 0]) /\
  files (reindex alloc0 None (partial_removal 1 1 w0)) 1 = Some (0, [mkA (Some 10) 1 0; mkA (Some 11) 0 0]) /\
  db (reindex alloc0 None (partial_removal 1 1 w0)) 1 = Some (0, [(10, 1, 0); (11, 0, 0)]).
Proof. exact partial_removal_not_stamped. Qed.

Print Assumptions C13_partial_removal_refuted.
Print Assumptions C13_create_converges.
Print Assumptions C13_reindex_converges_before_hash_write.
Print Assumptions C13_files_carry_zids.
Print Assumptions C13_window_after_hash_write_refuted.
