(* C15 — saved-query references.  Text-level theorems about expansion; the
   semantic clause (the expanded query selects surrounding AND saved) is
   decided on the implementation by the spec check of the harness. *)
From Zorg Require Import Base.PyStr Base.Sexp Base.Res Model.SavedQ Proofs.SavedQFacts.

Theorem C15_terminates : forall sv rank bound, acyclic sv rank -> (forall n, rank n < bound) ->
  forall q, expand bound sv q <> OutOfFuel.
Proof. exact expand_terminates. Qed.

(* a successful expansion means every referenced saved query exists: a missing one is never ignored *)
Theorem C15_missing_is_error : forall fuel sv q out,
  expand fuel sv q = Ok out -> forall n, In n (names_in q) -> sv_lookup n sv <> None.
Proof. exact expand_ok_all_exist. Qed.

Theorem C15_missing_first : forall f sv q n rest,
  names_in q = n :: rest -> sv_lookup n sv = None -> expand (Datatypes.S f) sv q = Exn (S "missing").
Proof. exact expand_missing_first. Qed.

Theorem C15_no_refs : forall fuel sv q, mem_c lbrace q = false -> expand fuel sv q = Ok q.
Proof. exact expand_no_refs. Qed.

(* after the fix in /repo: alternatives are kept together *)
Theorem C15_alternatives_parenthesised : forall f sv n text w,
  sv_lookup n sv = Some text -> mem_str (S "|") (where_words text) = true ->
  where_of (Datatypes.S f) sv n = Ok w -> exists w', w = S "(" ++ w' ++ S ")".
Proof. exact where_of_paren. Qed.

Example C15_example :
  expand 3 [(S "foo", S "# W o {bar} %bob {baz} G file"); (S "bar", S "# W #foo +bar O priority G file");
            (S "baz", S "# S note W @BAZ | x G priority file")]
         (S "W #fat {foo} O create G none")
  = Ok (S "W #fat o #foo +bar %bob (@BAZ | x) O create G none").
Proof. vm_compute. reflexivity. Qed.

Print Assumptions C15_terminates.
Print Assumptions C15_missing_is_error.
Print Assumptions C15_missing_first.
Print Assumptions C15_no_refs.
Print Assumptions C15_alternatives_parenthesised.
