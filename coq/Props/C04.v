(* C04 — Query text is compiled into the structure its syntax denotes.
   Proved end-to-end on the listener: for EVERY abstract well-formed query (coq/Model/QuerySyntax.v: any number of
   and-groups and alternatives, sub-filters nested to any depth, every modelled atom form, every S / O / G clause in
   either order), the listener run on the tree the parser builds for the query's text yields exactly the structure
   spec_query reads off the query (C04_query_denotes_its_structure).  That the parser builds tree_of_query for that
   text is NOT proved (the ANTLR parser is not modelled): the harness compares tree_of_query with the real parse tree
   and spec_query with the real compilation on every generated query of every run.  The denotations of the atom texts
   (priority ranges, relative dates) are the theorems below. *)
From Zorg Require Import Base.PyStr Base.Res Base.Dates Model.FileListener Model.QueryListener Proofs.QueryFacts
  Model.PageSyntax Model.QuerySyntax Proofs.QueryStructFacts.

(* atoms juxtaposed in one and-group are folded in order into one filter; alternatives become separate and-groups;
   every parenthesised sub-filter becomes one `ors` entry of the and-group it is written in, in order, to any depth;
   S / O / G set select, order and grouping (either clause order); absent clauses leave S note, the four default
   ORDER BY keys, no grouping, no WHERE. *)
Theorem C04_query_denotes_its_structure : forall today q qq,
  spec_query today q = Ok qq -> qlisten today (tree_of_query q) = Ok qq.
Proof. exact query_correct. Qed.

(* what one atom contributes, read off its fields *)
Theorem C04_atom_reading : forall today f a,
  spec_atom today f a =
  match a with
  | AKinds ks => Ok (af_kinds f (map kch_str ks))
  | APrio p hi => x <- priorities_of (atom_text a) ;; Ok (af_prios f x)
  | ATag neg k s => Ok (af_tag f k ((if neg then S "-" else []) ++ s))
  | ACreate h t => r <- range_of today h t ;; Ok (af_create f r)
  | AModify h t => r <- range_of today h t ;; Ok (af_modify f r)
  | AProp _ _ _ _ => x <- prop_filter_of (atom_text a) ;; Ok (af_prop f x)
  | ALink neg _ _ =>
      let t := atom_text a in
      Ok (af_link f (if neg then firstn (length t - 5) (skipn 3 t) else firstn (length t - 4) (skipn 2 t), neg))
  | AFile neg _ _ _ =>
      let t := atom_text a in
      let g := if neg then skipn 3 t else skipn 2 t in
      Ok (af_file f (if endswith (S "*") g then g else g ++ S ".zo", neg))
  | ASub _ => Ok f
  end.
Proof. intros. destruct a; reflexivity. Qed.

(* non-vacuity: W o #a (x | @b !+p) k:>v1 O alpha G file *)
Definition ex_query : aquery :=
  QWhere None [[AKinds [KO]; ATag false KArea (S "a");
                ASub [[AKinds [KX]]; [ATag false KContext (S "b"); ATag true KProject (S "p")]];
                AProp false (S "k") (Some (S ">")) (Some (S "v1"))]]
         (OGOG [OAlpha] [GFile]).
Example C04_query_example :
  exists qq, spec_query (mkDate 2024 6 1) ex_query = Ok qq /\ q_order qq = [S "ALPHA"] /\ q_group qq = [S "FILE"] /\
             match q_where qq with Some [AF [k] [a] _ _ _ _ _ [p] _ _ _ _ [[_; _]]] => k = S "o" /\ a = S "a" | _ => False end.
Proof. eexists. split; [vm_compute; reflexivity|]. repeat split. Qed.

Local Open Scope Z_scope.

(* Pn-m denotes every priority from n to m inclusive: all 64 spellings *)
Theorem C04_prio_single : forall a, 0 <= a <= 9 -> priorities_of (prio_name a) = Ok [prio_name a].
Proof. exact prio_single. Qed.
Theorem C04_prio_ranges : forall a b, 0 <= a <= b -> 1 <= b <= 9 ->
  priorities_of (prio_name a ++ S "-" ++ str_of_Z b) = Ok (map prio_name (zrange_from a (Z.to_nat (b - a + 1)))).
Proof. exact prio_range. Qed.

(* calendar months with end-of-month clamping; years are 12 months *)
Theorem C04_month_arithmetic : forall d n,
  let r := add_months d n in
  yr r * 12 + (mo r - 1) = yr d * 12 + (mo d - 1) + n /\ 1 <= mo r <= 12 /\
  dy r = Z.min (dy d) (dim (yr r) (mo r)).
Proof. exact add_months_spec. Qed.
Theorem C04_month_result_valid : forall d n,
  valid d = true -> 1 <= yr (add_months d n) <= 9999 -> valid (add_months d n) = true.
Proof. exact add_months_valid. Qed.
Theorem C04_years : forall d n, 1 <= mo d <= 12 -> add_years d n = add_months d (12 * n).
Proof. exact add_years_is_12_months. Qed.

(* "Nd" / "Nm" / "Ny", a leading minus meaning the past: every N < 1000, on a month end *)
Theorem C04_relative_dates_jan31 : forallb (rel_check (mkDate 2024 1 31)) (zrange_from 0 1000) = true.
Proof. exact rel_all_2024_01_31. Qed.
Theorem C04_relative_dates_feb28 : forallb (rel_check (mkDate 2023 2 28)) (zrange_from 0 1000) = true.
Proof. exact rel_all_2023_02_28. Qed.

Theorem C04_defaults :
  q_select init_query = QSel QNote /\ q_where init_query = None /\
  q_order init_query = [S "NOTE_TYPE"; S "PRIORITY"; S "MODIFY_DATE"; S "CREATE_DATE"] /\ q_group init_query = [].
Proof. exact defaults. Qed.

Theorem C04_og_commute : forall today ko kg st a b,
  qenter today (S "order_by_body") ko st = Ok a -> qenter today (S "group_by_body") kg a = Ok b ->
  exists a', qenter today (S "group_by_body") kg st = Ok a' /\ qenter today (S "order_by_body") ko a' = Ok b.
Proof. exact order_group_commute. Qed.

Theorem C04_parentheses_nest : forall kids q gs parent f afs,
  qexit (S "subfilter") kids (mkQS q (gs ++ [parent ++ [f]; afs])) =
  Ok (mkQS q (gs ++ [parent ++ [add_or f afs]])).
Proof. exact subfilter_attaches. Qed.

Theorem C04_group_pools : forall today kids st f g,
  fold_atoms today empty_af (rules_named "where_atom" kids) = Ok f ->
  push_last f (qs_groups st) = Ok g ->
  qenter today (S "and_filter") kids st = Ok (mkQS (qs_q st) g).
Proof. exact and_filter_pools. Qed.

Theorem C04_process_query_W : forall q,
  startswith (S "S ") q = false -> startswith (S "W ") q = false -> process_query q = process_query (S "W " ++ q).
Proof. exact process_query_adds_W. Qed.
Theorem C04_process_query_G : forall q,
  startswith (S "W ") q = true -> contains (S " G ") q = false -> process_query q = q ++ S " G file".
Proof. exact process_query_default_group. Qed.

Print Assumptions C04_query_denotes_its_structure.
Print Assumptions C04_atom_reading.
Print Assumptions C04_prio_ranges.
Print Assumptions C04_month_arithmetic.
Print Assumptions C04_month_result_valid.
Print Assumptions C04_years.
Print Assumptions C04_relative_dates_jan31.
Print Assumptions C04_og_commute.
Print Assumptions C04_parentheses_nest.
Print Assumptions C04_group_pools.
Print Assumptions C04_process_query_G.
