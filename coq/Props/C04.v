(* C04 — Query text is compiled into the structure its syntax denotes.
   PARTIAL: the end-to-end statement over query TEXT is decided by the
   correspondence + spec runs (the ANTLR query parser is not modelled); proved
   here, over the listener model that runs on any tree, are the denotations. *)
From Zorg Require Import Base.PyStr Base.Res Base.Dates Model.FileListener Model.QueryListener Proofs.QueryFacts.
Local Open Scope Z_scope.

(* Pn-m denotes every priority from n to m inclusive: all 64 spellings *)
Theorem C04_prio_single : forall a, 0 <= a <= 9 -> priorities_of (prio_name a) = Ok [prio_name a].
Proof. exact prio_single. Qed.
Theorem C04_prio_ranges : forall a b, 0 <= a <= b -> 1 <= b <= 9 ->
  priorities_of (prio_name a ++ S "-" ++ str_of_Z b) = Ok (map prio_name (zrange_from a (Z.to_nat (b - a + 1)))).
Proof. exact prio_range. Qed.

(* calendar months with end-of-month clamping; years are 12 months *)
Theorem C04_month_arithmetic : forall d n,
  let r := add_months d n in
  yr r * 12 + (mo r - 1) = yr d * 12 + (mo d - 1) + n /\ 1 <= mo r <= 12 /\
  dy r = Z.min (dy d) (dim (yr r) (mo r)).
Proof. exact add_months_spec. Qed.
Theorem C04_month_result_valid : forall d n,
  valid d = true -> 1 <= yr (add_months d n) <= 9999 -> valid (add_months d n) = true.
Proof. exact add_months_valid. Qed.
Theorem C04_years : forall d n, 1 <= mo d <= 12 -> add_years d n = add_months d (12 * n).
Proof. exact add_years_is_12_months. Qed.

(* "Nd" / "Nm" / "Ny", a leading minus meaning the past: every N < 1000, on a month end *)
Theorem C04_relative_dates_jan31 : forallb (rel_check (mkDate 2024 1 31)) (zrange_from 0 1000) = true.
Proof. exact rel_all_2024_01_31. Qed.
Theorem C04_relative_dates_feb28 : forallb (rel_check (mkDate 2023 2 28)) (zrange_from 0 1000) = true.
Proof. exact rel_all_2023_02_28. Qed.

Theorem C04_defaults :
  q_select init_query = QSel QNote /\ q_where init_query = None /\
  q_order init_query = [S "NOTE_TYPE"; S "PRIORITY"; S "MODIFY_DATE"; S "CREATE_DATE"] /\ q_group init_query = [].
Proof. exact defaults. Qed.

Theorem C04_og_commute : forall today ko kg st a b,
  qenter today (S "order_by_body") ko st = Ok a -> qenter today (S "group_by_body") kg a = Ok b ->
  exists a', qenter today (S "group_by_body") kg st = Ok a' /\ qenter today (S "order_by_body") ko a' = Ok b.
Proof. exact order_group_commute. Qed.

Theorem C04_parentheses_nest : forall kids q gs parent f afs,
  qexit (S "subfilter") kids (mkQS q (gs ++ [parent ++ [f]; afs])) =
  Ok (mkQS q (gs ++ [parent ++ [add_or f afs]])).
Proof. exact subfilter_attaches. Qed.

Theorem C04_group_pools : forall today kids st f g,
  fold_atoms today empty_af (rules_named "where_atom" kids) = Ok f ->
  push_last f (qs_groups st) = Ok g ->
  qenter today (S "and_filter") kids st = Ok (mkQS (qs_q st) g).
Proof. exact and_filter_pools. Qed.

Theorem C04_process_query_W : forall q,
  startswith (S "S ") q = false -> startswith (S "W ") q = false -> process_query q = process_query (S "W " ++ q).
Proof. exact process_query_adds_W. Qed.
Theorem C04_process_query_G : forall q,
  startswith (S "W ") q = true -> contains (S " G ") q = false -> process_query q = q ++ S " G file".
Proof. exact process_query_default_group. Qed.

Print Assumptions C04_prio_ranges.
Print Assumptions C04_month_arithmetic.
Print Assumptions C04_month_result_valid.
Print Assumptions C04_years.
Print Assumptions C04_relative_dates_jan31.
Print Assumptions C04_og_commute.
Print Assumptions C04_parentheses_nest.
Print Assumptions C04_group_pools.
Print Assumptions C04_process_query_G.
