(* C07 — ZIDs are unique, well-formed and recognised by every component.
   ONLY statements; proofs are `exact` of lemmas in Proofs/ZidFacts.v.
   The tables Gen/Params.v (excluded characters) and Gen/LexRules.v (lexer
   rules of both grammars) are regenerated from /repo on every run, so these
   theorems are re-checked against the current source.  Gen/PySrc.v holds the
   CURRENT SOURCE of _get_next_id, is_short_date_spec and is_zid, translated on
   every run into the PyLite embedding (Lex/PyLite.v): C07_source_successor_is_model
   and C07_source_is_zid_accepts relate that source to the model the other theorems
   are about, on all 135 252 suffixes. *)
From Zorg Require Import Base.PyStr Base.Sexp Base.Res Base.Dates Gen.Params Gen.LexRules
  Lex.Regex Model.Zid Proofs.ZidFacts Lex.PyLite Gen.PySrc Proofs.PySrcFacts.

(* the source of _get_next_id, run by the PyLite interpreter, returns the model's successor for every valid
   suffix and raises RuntimeError exactly where the model does *)
Theorem C07_source_successor_is_model : forall s,
  valid_suffix s = true ->
  match next_id s with
  | Ok t => py_next s = Ok (VStr t)
  | Exn e => py_next s = Exn e
  | _ => False
  end.
Proof. exact source_successor_is_model. Qed.

(* the source of is_zid accepts date key + '#' + every valid suffix (two- and three-character ones) *)
Theorem C07_source_is_zid_accepts : forall s,
  valid_suffix s = true ->
  py_is_zid (S "000101" ++ S "#" ++ s) = Ok (VBool true) /\ py_is_zid (S "991231" ++ S "#" ++ s) = Ok (VBool true).
Proof. exact source_is_zid_accepts. Qed.

Local Open Scope Z_scope.

(* Full statement of the exhaustion clause, as the property words it:
   "fails only ... after all 135,252 suffixes of a date have been handed out". *)
Definition C07_exhaustion_full : Prop :=
  forall k, exists n, Z.of_nat (length (run [] (repeat k n))) = 135252.

(* every history of allocations on any keys (= dates), from the empty store:
   no ZID is returned twice.  A restart is the identity on the model state,
   because the manager re-reads next_ids.json on every call. *)
Theorem C07_unique : forall keys, NoDup (run [] keys).
Proof. intros keys. apply run_NoDup. exact store_valid_nil. Qed.

Theorem C07_unique_from : forall st keys, store_valid st -> NoDup (run st keys).
Proof. intros st keys H. now apply run_NoDup. Qed.

Theorem C07_render_injective : forall k1 s1 k2 s2, length k1 = length k2 ->
  render_zid (k1, s1) = render_zid (k2, s2) -> (k1, s1) = (k2, s2).
Proof. exact render_inj. Qed.

(* every returned ZID has a valid suffix: two or three characters of the
   51-character alphabet, none of the excluded look-alikes *)
Theorem C07_wf : forall keys z, In z (run [] keys) ->
  valid_suffix (snd z) = true /\
  (length (snd z) = 2 \/ length (snd z) = 3)%nat /\
  (forall c, In c (snd z) -> is_unsup c = false).
Proof.
  intros keys z Hin.
  destruct (run_lower_bound keys [] store_valid_nil z Hin) as [Hv _].
  split; [exact Hv|]. split; [now apply valid_length|now apply valid_no_unsup].
Qed.

(* the successor chain: every valid suffix but the last has a valid successor
   of the next rank; only "zzz" raises *)
Theorem C07_successor : forall s, valid_suffix s = true ->
  match next_id s with
  | Ok s' => valid_suffix s' = true /\ rank s' = rank s + 1
  | Exn _ => s = S "zzz"
  | _ => False
  end.
Proof. exact succ_spec. Qed.

Theorem C07_space_size : Z.of_nat (length all_suffixes) = 135252 /\ rank (S "zzz") = 135251 /\ rank (S "00") = 0.
Proof. split; [exact count_suffixes|split; [exact rank_zzz|exact rank_00]]. Qed.

(* the first n allocations of one date are the suffixes of rank 0 .. n-1, for every n <= 135251 *)
Theorem C07_kth_allocation : forall k (n : nat), Z.of_nat n <= 135251 ->
  map (fun z => rank (snd z)) (run [] (repeat k n)) = map Z.of_nat (seq 0 n) /\
  length (run [] (repeat k n)) = n.
Proof.
  intros k n Hn.
  destruct (run_same_key_ranks n [] k store_valid_nil) as [H1 H2].
  - change (cur [] k) with (S "00"). rewrite rank_00. lia.
  - split; [|exact H2]. rewrite H1. apply map_ext. intros i.
    change (cur [] k) with (S "00"). rewrite rank_00. lia.
Qed.

(* REFUTED clause: the allocator raises when the stored next suffix is "zzz",
   so the last suffix is never handed out (135,251 allocations per date). *)
Theorem C07_exhaustion_refuted :
  get_next [(S "240101", S "zzz")] (S "240101") = Exn (S "RuntimeError").
Proof. vm_compute. reflexivity. Qed.

(* recognised by is_zid (after the fix of is_zid in /repo) *)
Theorem C07_is_zid : forall d s, in_century d -> valid_suffix s = true ->
  is_zid (render_zid (date_key d, s)) = true.
Proof. exact is_zid_allocated. Qed.

(* the ZID lexer rule of both grammars accepts the whole ZID, and no token
   rule of higher priority can match it *)
Theorem C07_lexes_file : forall d s, in_century d -> valid_suffix s = true ->
  matches file_rule_ZID (render_zid (date_key d, s)) = true /\
  forall r, In r (rules_before "ZID" file_lex_rules) ->
            matches r (render_zid (date_key d, s)) = false.
Proof.
  intros d s Hd Hs. split; [now apply zid_lexes_file|].
  intros r Hr. apply cannot_match_zid_sound; [|exact Hd].
  exact (proj1 (forallb_forall _ _) file_earlier_rules r Hr).
Qed.

Theorem C07_lexes_query : forall d s, in_century d -> valid_suffix s = true ->
  matches query_rule_ZID (render_zid (date_key d, s)) = true /\
  forall r, In r (rules_before "ZID" query_lex_rules) ->
            matches r (render_zid (date_key d, s)) = false.
Proof.
  intros d s Hd Hs. split; [now apply zid_lexes_query|].
  intros r Hr. apply cannot_match_zid_sound; [|exact Hd].
  exact (proj1 (forallb_forall _ _) query_earlier_rules r Hr).
Qed.

(* non-vacuity *)
Example C07_example :
  map render_zid (run [] [S "240101"; S "240102"; S "240101"]) =
  [S "240101#00"; S "240102#00"; S "240101#01"] /\
  in_century (mkDate 2024 2 29) /\ valid_suffix (S "0H") = true.
Proof. split; [vm_compute; reflexivity|]. split; [|vm_compute; reflexivity].
       split; [vm_compute; reflexivity|simpl; lia]. Qed.

Print Assumptions C07_source_successor_is_model.
Print Assumptions C07_source_is_zid_accepts.
Print Assumptions C07_unique.
Print Assumptions C07_unique_from.
Print Assumptions C07_wf.
Print Assumptions C07_successor.
Print Assumptions C07_space_size.
Print Assumptions C07_kth_allocation.
Print Assumptions C07_exhaustion_refuted.
Print Assumptions C07_is_zid.
Print Assumptions C07_lexes_file.
Print Assumptions C07_lexes_query.
