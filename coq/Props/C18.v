(* C18 — File-group expansion flattens groups in place and in order.
   ONLY statements here; proofs are `exact` of lemmas in Proofs/. *)
From Zorg Require Import Base.PyStr Base.Sexp Base.Res Base.Dates
  Model.FileGroups Proofs.FileGroupsFacts.

(* The model [expand] is, for every fuel, sound for the big-step reading of
   the property sentence ([ExpL]: a path stays, an @group is replaced in place
   and in order by its recursively expanded members, members are formatted). *)
Theorem C18_sound : forall today m fuel ps outs,
  expand today m fuel ps = Ok outs -> ExpL today m false ps outs.
Proof. exact expand_sound. Qed.

Theorem C18_complete : forall today m ps outs,
  ExpL today m false ps outs -> exists fuel, expand today m fuel ps = Ok outs.
Proof. exact expand_complete. Qed.

(* expanding a concatenation = concatenating the expansions *)
Theorem C18_concat : forall today m fuel xs ys,
  expand today m fuel (xs ++ ys) =
  (a <- expand today m fuel xs ;; b <- expand today m fuel ys ;; Ok (a ++ b)).
Proof. exact expand_app. Qed.

(* ordinary paths are untouched *)
Theorem C18_path_id : forall today m fuel p,
  is_group p = false -> expand today m fuel [p] = Ok [p].
Proof. exact expand_path. Qed.

(* an @group argument is replaced by its members' expansions, in order *)
Theorem C18_group : forall today m fuel g ms,
  lookup g m = Some ms ->
  expand today m (Datatypes.S fuel) [ch "@" :: g] =
  concat_res (map (exp1 today m fuel true) ms).
Proof. exact expand_group. Qed.

(* on an acyclic map (a rank decreasing along group references) the fuel the
   harness uses (any bound above all ranks) is never exhausted *)
Theorem C18_terminates : forall today m rank bound,
  acyclic m rank -> (forall g, rank g < bound) ->
  forall ps, expand today m bound ps <> OutOfFuel.
Proof. exact expand_terminates. Qed.

(* today's and the previous six days' dates *)
Theorem C18_dates_yyyymmdd : forall today (i : nat), (i < 7)%nat ->
  format_member today (S "{yyyymmdd[" ++ [digit_c i] ++ S "]}") =
  Ok (fmt_ymd (add_days today (- Z.of_nat i))).
Proof. exact format_yyyymmdd. Qed.

Theorem C18_dates_year : forall today (i : nat), (i < 7)%nat ->
  format_member today (S "{days[" ++ [digit_c i] ++ S "].year}") =
  Ok (str_of_Z (yr (add_days today (- Z.of_nat i)))).
Proof. exact format_days_year. Qed.

Theorem C18_literal_member : forall today s,
  forallb (fun c => negb (ceqb c (ch "{")) && negb (ceqb c (ch "}"))) s = true ->
  format_member today s = Ok s.
Proof. exact format_literal. Qed.

(* non-vacuity: the test-suite's configuration *)
Example C18_example :
  expand (mkDate 2024 3 1)
    [(S "foo", [S "{days[0].year}/{yyyymmdd[0]}.zo"; S "@bar"]); (S "bar", [S "bar.zo"])]
    3 [S "@foo"; S "buz.zo"]
  = Ok [S "2024/20240301.zo"; S "bar.zo"; S "buz.zo"].
Proof. vm_compute. reflexivity. Qed.

Print Assumptions C18_sound.
Print Assumptions C18_complete.
Print Assumptions C18_concat.
Print Assumptions C18_path_id.
Print Assumptions C18_group.
Print Assumptions C18_terminates.
Print Assumptions C18_dates_yyyymmdd.
Print Assumptions C18_dates_year.
Print Assumptions C18_literal_member.
