(* C11 — Modification dates are stamped on exactly the notes that were edited. *)
From Zorg Require Import Base.PyStr Base.Res Base.Dates Model.Zid Model.FileListener Model.QueryListener Model.WriteBack
  Proofs.WriteBackFacts Model.PageSyntax Model.PageText Proofs.PageFacts Proofs.ItemWriteBack Model.PageLines
  Proofs.PageWriteBack.

(* The whole page: stamping date d on the notes with a ZID on the chosen lines (mdate_targets = the (line, date)
   pairs _check_for_modified_notes hands _update_zo_file) rewrites the canonical text of ANY abstract page into
   the canonical text of the same page with identity "d + ZID" on exactly those items - the old modify date
   replaced, a missing one inserted - and every other line and word untouched. *)
Theorem C11_dates_written_into_page : forall today d chosen pg,
  mdate_ready d chosen pg -> forallb (lacks nlc10) (map row_text (page_rows pg)) = true ->
  update_zo_file add_or_update_modify_date (mdate_targets d chosen (spec_page today pg)) (page_text pg) =
  Ok (page_text (stamped d chosen pg)).
Proof. exact mdates_written_into_page. Qed.
Theorem C11_page_hypotheses_decidable : forall d chosen pg, mdate_readyb d chosen pg = true -> mdate_ready d chosen pg.
Proof. exact mdate_readyb_sound. Qed.

(* On abstract items: stamping writes the date in front of the ZID - inserted when the item has none, replacing the
   old one otherwise - and nothing else of the line changes: the result is the canonical text of the same item
   with identity "modify date + ZID". *)
Theorem C11_date_written_into_item : forall d it,
  stampable it -> prio_ok it -> forallb no_space (d :: line_words it) = true ->
  add_or_update_modify_date d (render_item it) = Ok (render_item (with_mdate d it)).
Proof. exact add_mdate_item. Qed.

Theorem C11_iff : forall today old n,
  (exists b, stamp today old n = Some b) <->
  (exists z o, m_zid n = Some z /\ find_zid z old = Some o /\ date_eqb (m_modify n) today = false /\ changed n o = true).
Proof. exact stamp_iff. Qed.

Theorem C11_idempotent : forall today old n, date_eqb (m_modify n) today = true -> stamp today old n = None.
Proof. exact stamped_today_not_restamped. Qed.

Theorem C11_unchanged_untouched : forall today old n z o,
  m_zid n = Some z -> find_zid z old = Some o -> changed n o = false -> stamp today old n = None.
Proof. exact unchanged_not_stamped. Qed.

Theorem C11_date_inserted : forall d sym w r,
  sym <> [] -> forallb no_space (sym :: w :: r) = true -> is_prio_word w = false -> six_digits w = false ->
  add_or_update_modify_date d (join [sp] (sym :: w :: r)) = Ok (sym ++ S " " ++ d ++ S " " ++ join [sp] (w :: r)).
Proof. exact mdate_inserted. Qed.
Theorem C11_date_replaced : forall d sym old r,
  sym <> [] -> forallb no_space (sym :: old :: r) = true -> is_prio_word old = false -> six_digits old = true ->
  add_or_update_modify_date d (join [sp] (sym :: old :: r)) = Ok (sym ++ S " " ++ d ++ S " " ++ join [sp] r).
Proof. exact mdate_replaced. Qed.

Theorem C11_other_lines_identical : forall f notes ls ls',
  update_lines f notes ls = Ok ls' ->
  length ls' = length ls /\
  forall j, (forall n, In n notes -> fst n - 1 <> j) -> nth j ls' [] = nth j ls [].
Proof. exact update_touches_only_listed. Qed.

(* REFUTED: file and index disagree after stamping when the modify-date word does not follow the heuristic *)
Theorem C11_heuristic_refuted :
  stamp (mkDate 2024 6 2)
        [mkM (Some (S "240101#00")) (S "240101 240101#00 old") None (mkDate 2024 1 1) (mkDate 2024 1 1)]
        (mkM (Some (S "240101#00")) (S "240101 240101#00 new") None (mkDate 2024 1 1) (mkDate 2024 1 1))
  = Some (S "240602 240101 240101#00 new") /\
  stamp (mkDate 2024 6 2)
        [mkM (Some (S "240101#00")) (S "240301 240101#00 old") None (mkDate 2024 3 1) (mkDate 2024 1 1)]
        (mkM (Some (S "240101#00")) (S "240101#00 second") None (mkDate 2024 1 1) (mkDate 2024 1 1))
  = Some (S "240602 second").
Proof. exact stamp_heuristic_refuted. Qed.

Print Assumptions C11_dates_written_into_page.
Print Assumptions C11_page_hypotheses_decidable.
Print Assumptions C11_date_written_into_item.
Print Assumptions C11_iff.
Print Assumptions C11_idempotent.
Print Assumptions C11_date_inserted.
Print Assumptions C11_date_replaced.
Print Assumptions C11_other_lines_identical.
Print Assumptions C11_heuristic_refuted.
