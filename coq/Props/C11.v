(* C11 — Modification dates are stamped on exactly the notes that were edited. *)
From Zorg Require Import Base.PyStr Base.Res Base.Dates Model.Zid Model.FileListener Model.QueryListener Model.WriteBack
  Proofs.WriteBackFacts Model.PageSyntax Model.PageText Proofs.PageFacts Proofs.ItemWriteBack.

(* On abstract items: stamping writes the date in front of the ZID - inserted when the item has none, replacing the
   old one otherwise - and nothing else of the line changes: the result is the canonical text of the same item
   with identity "modify date + ZID". *)
Theorem C11_date_written_into_item : forall d it,
  stampable it -> prio_ok it -> forallb no_space (d :: line_words it) = true ->
  add_or_update_modify_date d (render_item it) = Ok (render_item (with_mdate d it)).
Proof. exact add_mdate_item. Qed.

Theorem C11_iff : forall today old n,
  (exists b, stamp today old n = Some b) <->
  (exists z o, m_zid n = Some z /\ find_zid z old = Some o /\ date_eqb (m_modify n) today = false /\ changed n o = true).
Proof. exact stamp_iff. Qed.

Theorem C11_idempotent : forall today old n, date_eqb (m_modify n) today = true -> stamp today old n = None.
Proof. exact stamped_today_not_restamped. Qed.

Theorem C11_unchanged_untouched : forall today old n z o,
  m_zid n = Some z -> find_zid z old = Some o -> changed n o = false -> stamp today old n = None.
Proof. exact unchanged_not_stamped. Qed.

Theorem C11_date_inserted : forall d sym w r,
  sym <> [] -> forallb no_space (sym :: w :: r) = true -> is_prio_word w = false -> six_digits w = false ->
  add_or_update_modify_date d (join [sp] (sym :: w :: r)) = Ok (sym ++ S " " ++ d ++ S " " ++ join [sp] (w :: r)).
Proof. exact mdate_inserted. Qed.
Theorem C11_date_replaced : forall d sym old r,
  sym <> [] -> forallb no_space (sym :: old :: r) = true -> is_prio_word old = false -> six_digits old = true ->
  add_or_update_modify_date d (join [sp] (sym :: old :: r)) = Ok (sym ++ S " " ++ d ++ S " " ++ join [sp] r).
Proof. exact mdate_replaced. Qed.

Theorem C11_other_lines_identical : forall f notes ls ls',
  update_lines f notes ls = Ok ls' ->
  length ls' = length ls /\
  forall j, (forall n, In n notes -> fst n - 1 <> j) -> nth j ls' [] = nth j ls [].
Proof. exact update_touches_only_listed. Qed.

(* REFUTED: file and index disagree after stamping when the modify-date word does not follow the heuristic *)
Theorem C11_heuristic_refuted :
  stamp (mkDate 2024 6 2)
        [mkM (Some (S "240101#00")) (S "240101 240101#00 old") None (mkDate 2024 1 1) (mkDate 2024 1 1)]
        (mkM (Some (S "240101#00")) (S "240101 240101#00 new") None (mkDate 2024 1 1) (mkDate 2024 1 1))
  = Some (S "240602 240101 240101#00 new") /\
  stamp (mkDate 2024 6 2)
        [mkM (Some (S "240101#00")) (S "240301 240101#00 old") None (mkDate 2024 3 1) (mkDate 2024 1 1)]
        (mkM (Some (S "240101#00")) (S "240101#00 second") None (mkDate 2024 1 1) (mkDate 2024 1 1))
  = Some (S "240602 second").
Proof. exact stamp_heuristic_refuted. Qed.

Print Assumptions C11_date_written_into_item.
Print Assumptions C11_iff.
Print Assumptions C11_idempotent.
Print Assumptions C11_date_inserted.
Print Assumptions C11_date_replaced.
Print Assumptions C11_other_lines_identical.
Print Assumptions C11_heuristic_refuted.
