(* C02 — Notes inherit metadata from the page title and enclosing sections only.
   PARTIAL: the end-to-end statement over abstract pages is decided by the
   exhaustive skeleton enumeration of the harness; proved here, for every
   listener state, are the scoping mechanisms. *)
From Zorg Require Import Base.PyStr Base.Res Base.Dates Model.FileListener Model.Witness Proofs.FileListenerFacts.

Theorem C02_exit_section_clears : forall today errors r l kids lvl st,
  classify r = RSection lvl ->
  exists st', exit_ today errors r l kids st = Ok (st', None, false) /\
    s_tags st' = upd (Datatypes.S lvl) (fun _ => []) (s_tags st) /\
    s_props st' = upd (Datatypes.S lvl) (fun _ => []) (s_props st) /\
    s_dates st' = upd (Datatypes.S lvl) (fun _ => None) (s_dates st).
Proof. exact exit_section_clears. Qed.

Theorem C02_item_resets_note_scope : forall r l kids st,
  classify r = RItem ->
  exists st', enter r l kids st = Ok st' /\
    s_tags st' = upd 5 (fun _ => []) (s_tags st) /\ s_props st' = upd 5 (fun _ => []) (s_props st) /\
    s_dates st' = upd 5 (fun _ => None) (s_dates st) /\ s_zid st' = None /\ s_ids st' = 0 /\ s_modify st' = None.
Proof. exact enter_item_resets. Qed.

(* in-block comments and later header lines record no tags / links *)
Theorem C02_comment_records_nothing : forall st,
  s_first_comment st = false -> s_in_hdr st = [false; false; false; false] -> s_in_note st = false ->
  tag_scope st = None /\ (s_in_head st = false -> prop_scope st = None).
Proof. exact comment_scope_none. Qed.
Theorem C02_no_scope_no_tag : forall n v st, tag_scope st = None -> add_tag n v st = st.
Proof. exact add_tag_no_scope. Qed.

(* tag names made only of digits never count *)
Theorem C02_digit_tags_dropped : forall n v st, forallb is_digit v = true -> add_tag n v st = st.
Proof. exact add_tag_digits. Qed.

(* for properties with the same key the innermost scope wins *)
Theorem C02_innermost_property_wins : forall k p0 p1 p2 p3 p4 p5 st,
  s_props st = [p0; p1; p2; p3; p4; p5] ->
  Forall (fun p => NoDup (map fst p)) [p0; p1; p2; p3; p4; p5] ->
  dict_get k (current_props st) =
  match dict_get k p5 with Some v => Some v | None =>
  match dict_get k p4 with Some v => Some v | None =>
  match dict_get k p3 with Some v => Some v | None =>
  match dict_get k p2 with Some v => Some v | None =>
  match dict_get k p1 with Some v => Some v | None => dict_get k p0 end end end end end.
Proof. exact props_innermost_wins. Qed.

(* own date, then nearest dated header, then the page's date, then today *)
Theorem C02_create_date_precedence : forall today d0 d1 d2 d3 d4 d5 st,
  s_dates st = [d0; d1; d2; d3; d4; d5] ->
  create_date today st =
  match d5 with Some d => d | None => match d4 with Some d => d | None => match d3 with Some d => d | None =>
  match d2 with Some d => d | None => match d1 with Some d => d | None => match d0 with Some d => d | None => today
  end end end end end end.
Proof. exact create_date_precedence. Qed.

Example C02_example :
  exists pg n, listen (mkDate 2024 6 1) false w_ok = Ok pg /\ p_notes pg = [n] /\
    n_areas n = [S "a1"] /\ n_projects n = [S "p1"] /\ n_props n = [(S "k", S "v"); (S "b", S "w z")].
Proof. eexists. eexists. split; [vm_compute; reflexivity|]. repeat split. Qed.

Print Assumptions C02_exit_section_clears.
Print Assumptions C02_item_resets_note_scope.
Print Assumptions C02_comment_records_nothing.
Print Assumptions C02_digit_tags_dropped.
Print Assumptions C02_innermost_property_wins.
Print Assumptions C02_create_date_precedence.
