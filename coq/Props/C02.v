(* C02 — Notes inherit metadata from the page title and enclosing sections only.
   Proved end-to-end on the listener: for EVERY abstract well-formed page, walking the tree the parser builds
   for it yields spec_page (C02_scoping_on_pages = the page theorem of C01), and spec_page reads metadata by
   scope: a note carries the tags / links of the title line, of its enclosing section headers and its own
   (C02_note_metadata_is_scope_metadata); a section's title metadata reaches its own blocks and sub-sections and
   not the sibling sections after it (C02_section_scope, C02_siblings_unaffected); properties are unioned outer to
   inner so the innermost value wins; the creation date is the note's own, else that of the innermost dated
   scope, else today (C02_innermost_date_wins).  The tie of tree_of_page to the real parser is differential
   (see C01.v).  The per-handler theorems below hold for every listener state and every tree. *)
From Zorg Require Import Base.PyStr Base.Res Base.Dates Gen.Params Model.FileListener Model.Witness Proofs.FileListenerFacts
  Model.PageSyntax Proofs.PageFacts.

Theorem C02_scoping_on_pages : forall today pg,
  valid_page pg ->
  exists secs, listen today false (tree_of_page pg) = Ok (mkPage false (spec_page today pg) secs).
Proof. exact page_correct. Qed.

(* ot / op / od: the tags, properties and date of the five enclosing scopes (title line, H1..H4 headers;
   empty where no such section is open), outermost first *)
Theorem C02_note_metadata_is_scope_metadata : forall today ot op od key line it,
  let n := spec_note today ot op od key line it in
  let ws := item_words it in
  n_areas n = tagvals "areas" (concat ot ++ words_tags ws) /\
  n_contexts n = tagvals "contexts" (concat ot ++ words_tags ws) /\
  n_people n = tagvals "people" (concat ot ++ words_tags ws) /\
  n_projects n = tagvals "projects" (concat ot ++ words_tags ws) /\
  n_links n = tagvals "links" (concat ot ++ words_tags ws) /\
  n_props n = fold_left dict_union (op ++ [words_props ws []]) [] /\
  n_create n = match ident_create today (i_ident it) with Some d => d | None => outer_date today od end.
Proof.
  intros. destruct (spec_note_reading today ot op od key line it) as (_ & _ & _ & _ & A & B & C & D & E & F & G).
  repeat split; assumption.
Qed.

Theorem C02_section_scope : forall today lvl ot op od path l title bs subs,
  spec_sec today lvl ot op od path l (GSec title bs subs) =
  let ot' := upd (Datatypes.S lvl) (fun _ => words_tags title) ot in
  let op' := upd (Datatypes.S lvl) (fun _ => words_props title []) op in
  let od' := upd (Datatypes.S lvl) (fun _ => words_date today title None) od in
  spec_blocks today ot' op' od' path 0 (l + 2) bs ++
  spec_secs today (Datatypes.S lvl) ot' op' od' path 0 (l + 2 + blocks_lines bs) subs.
Proof. exact section_scope. Qed.

Theorem C02_siblings_unaffected : forall today lvl ot op od parent j l s r,
  spec_secs today lvl ot op od parent j l (s :: r) =
  spec_sec today lvl ot op od (parent ++ [Datatypes.S j]) l s ++
  spec_secs today lvl ot op od parent (Datatypes.S j) (l + sec_lines s) r.
Proof. exact siblings_scope. Qed.

Theorem C02_innermost_date_wins : forall today od d,
  outer_date today (od ++ [Some d]) = d /\ outer_date today (od ++ [None]) = outer_date today od /\
  forall n, outer_date today (repeat None n) = today.
Proof. intros. split; [apply outer_date_inner|split; [apply outer_date_skip|apply outer_date_none]]. Qed.

Theorem C02_exit_section_clears : forall today errors r l kids lvl st,
  classify r = RSection lvl ->
  exists st', exit_ today errors r l kids st = Ok (st', None, false) /\
    s_tags st' = upd (Datatypes.S lvl) (fun _ => []) (s_tags st) /\
    s_props st' = upd (Datatypes.S lvl) (fun _ => []) (s_props st) /\
    s_dates st' = upd (Datatypes.S lvl) (fun _ => None) (s_dates st).
Proof. exact exit_section_clears. Qed.

Theorem C02_item_resets_note_scope : forall r l kids st,
  classify r = RItem ->
  exists st', enter r l kids st = Ok st' /\
    s_tags st' = upd 5 (fun _ => []) (s_tags st) /\ s_props st' = upd 5 (fun _ => []) (s_props st) /\
    s_dates st' = upd 5 (fun _ => None) (s_dates st) /\ s_zid st' = None /\ s_ids st' = 0 /\ s_modify st' = None.
Proof. exact enter_item_resets. Qed.

(* in-block comments and later header lines record no tags / links *)
Theorem C02_comment_records_nothing : forall st,
  s_first_comment st = false -> s_in_hdr st = [false; false; false; false] -> s_in_note st = false ->
  tag_scope st = None /\ (s_in_head st = false -> prop_scope st = None).
Proof. exact comment_scope_none. Qed.
Theorem C02_no_scope_no_tag : forall n v st, tag_scope st = None -> add_tag n v st = st.
Proof. exact add_tag_no_scope. Qed.

(* tag names made only of digits never count *)
Theorem C02_digit_tags_dropped : forall n v st, forallb is_digit v = true -> add_tag n v st = st.
Proof. exact add_tag_digits. Qed.

(* for properties with the same key the innermost scope wins *)
Theorem C02_innermost_property_wins : forall k p0 p1 p2 p3 p4 p5 st,
  s_props st = [p0; p1; p2; p3; p4; p5] ->
  Forall (fun p => NoDup (map fst p)) [p0; p1; p2; p3; p4; p5] ->
  dict_get k (current_props st) =
  match dict_get k p5 with Some v => Some v | None =>
  match dict_get k p4 with Some v => Some v | None =>
  match dict_get k p3 with Some v => Some v | None =>
  match dict_get k p2 with Some v => Some v | None =>
  match dict_get k p1 with Some v => Some v | None => dict_get k p0 end end end end end.
Proof. exact props_innermost_wins. Qed.

(* own date, then nearest dated header, then the page's date, then today *)
Theorem C02_create_date_precedence : forall today d0 d1 d2 d3 d4 d5 st,
  s_dates st = [d0; d1; d2; d3; d4; d5] ->
  create_date today st =
  match d5 with Some d => d | None => match d4 with Some d => d | None => match d3 with Some d => d | None =>
  match d2 with Some d => d | None => match d1 with Some d => d | None => match d0 with Some d => d | None => today
  end end end end end end.
Proof. exact create_date_precedence. Qed.

Example C02_example :
  exists pg n, listen (mkDate 2024 6 1) false w_ok = Ok pg /\ p_notes pg = [n] /\
    n_areas n = [S "a1"] /\ n_projects n = [S "p1"] /\ n_props n = [(S "k", S "v"); (S "b", S "w z")].
Proof. eexists. eexists. split; [vm_compute; reflexivity|]. repeat split. Qed.

Print Assumptions C02_scoping_on_pages.
Print Assumptions C02_note_metadata_is_scope_metadata.
Print Assumptions C02_section_scope.
Print Assumptions C02_siblings_unaffected.
Print Assumptions C02_innermost_date_wins.
Print Assumptions C02_exit_section_clears.
Print Assumptions C02_item_resets_note_scope.
Print Assumptions C02_comment_records_nothing.
Print Assumptions C02_digit_tags_dropped.
Print Assumptions C02_innermost_property_wins.
Print Assumptions C02_create_date_precedence.
