(* C17 — `action open` offers and opens exactly the link targets on the line. *)
From Zorg Require Import Base.PyStr Base.Sexp Base.Res Model.Zid Model.ActionOpen Proofs.ActionOpenFacts.

(* The answer is a list of protocol messages by construction: [msg] has the
   four constructors EDIT, SEARCH, PROMPT, ECHO and nothing else. *)

Theorem C17_option_k : forall e z line lno (k : nat) t1 t2 ts,
  is_query_line z line = false -> targets z line = t1 :: t2 :: ts ->
  (1 <= k <= length (t1 :: t2 :: ts))%nat ->
  action e z line lno (Some (Z.of_nat k)) = open_link e (nth (k - 1) (t1 :: t2 :: ts) []).
Proof. exact action_option_k. Qed.

Theorem C17_option_last : forall e z line lno t1 t2 ts,
  is_query_line z line = false -> targets z line = t1 :: t2 :: ts ->
  action e z line lno (Some (-1)%Z) = open_link e (last (t1 :: t2 :: ts) []).
Proof. exact action_option_last. Qed.

Theorem C17_prompt_lists_targets_in_order : forall e z line lno t1 t2 ts,
  is_query_line z line = false -> targets z line = t1 :: t2 :: ts ->
  action e z line lno None = Ok ([PROMPT (join (S " ") (t1 :: t2 :: ts))], 0%Z).
Proof. exact action_prompt. Qed.

Theorem C17_single_target_opened_directly : forall e z line lno t opt,
  is_query_line z line = false -> targets z line = [t] -> action e z line lno opt = open_link e t.
Proof. exact action_single. Qed.

(* "opens the same thing as a line containing only the k-th target" *)
Theorem C17_line_of_one_link : forall z t,
  strip_chars punct t = t -> is_linkish t = true -> mem_c (ch " ") t = false -> targets z t = [t].
Proof. exact scan_single_linkish. Qed.
Theorem C17_line_of_one_zid : forall z t,
  strip_chars punct t = t -> strip_chars (S "[]") t = t -> is_linkish t = false -> is_zid t = true ->
  split_on (ch " ") t = [t] -> targets z t = [t].
Proof. exact scan_single_zid. Qed.

(* full statement about non-primary ZIDs is FALSE of the faithful model *)
Theorem C17_nonprimary_zid_refuted :
  targets false (S "- 240101#05 x [240101#02]") = [] /\
  targets false (S "- 240101#05 y [240101#02]") = [S "240101#02"].
Proof. exact primary_flag_refuted. Qed.

Example C17_example :
  targets false (S "o P1 240601 240101#05 see [[foo]], ([[bar#sec]]) [^loc] [#gid]. [@rid]; [240101#02] x") =
  [S "[[foo]]"; S "[[bar#sec]]"; S "[^loc]"; S "[#gid]"; S "[@rid]"; S "240101#02"].
Proof. vm_compute. reflexivity. Qed.

Print Assumptions C17_option_k.
Print Assumptions C17_option_last.
Print Assumptions C17_prompt_lists_targets_in_order.
Print Assumptions C17_single_target_opened_directly.
Print Assumptions C17_line_of_one_link.
Print Assumptions C17_line_of_one_zid.
Print Assumptions C17_nonprimary_zid_refuted.
