(* C17 — `action open` offers and opens exactly the link targets on the line. *)
From Zorg Require Import Base.PyStr Base.Sexp Base.Res Model.Zid Model.ActionOpen Proofs.ActionOpenFacts.

(* The answer is a list of protocol messages by construction: [msg] has the
   four constructors EDIT, SEARCH, PROMPT, ECHO and nothing else. *)

Theorem C17_option_k : forall e z line lno (k : nat) t1 t2 ts,
  is_query_line z line = false -> targets z line = t1 :: t2 :: ts ->
  (1 <= k <= length (t1 :: t2 :: ts))%nat ->
  action e z line lno (Some (Z.of_nat k)) = open_link e (nth (k - 1) (t1 :: t2 :: ts) []).
Proof. exact action_option_k. Qed.

Theorem C17_option_last : forall e z line lno t1 t2 ts,
  is_query_line z line = false -> targets z line = t1 :: t2 :: ts ->
  action e z line lno (Some (-1)%Z) = open_link e (last (t1 :: t2 :: ts) []).
Proof. exact action_option_last. Qed.

Theorem C17_prompt_lists_targets_in_order : forall e z line lno t1 t2 ts,
  is_query_line z line = false -> targets z line = t1 :: t2 :: ts ->
  action e z line lno None = Ok ([PROMPT (join (S " ") (t1 :: t2 :: ts))], 0%Z).
Proof. exact action_prompt. Qed.

Theorem C17_single_target_opened_directly : forall e z line lno t opt,
  is_query_line z line = false -> targets z line = [t] -> action e z line lno opt = open_link e t.
Proof. exact action_single. Qed.

(* "opens the same thing as a line containing only the k-th target" *)
Theorem C17_line_of_one_link : forall z t,
  strip_chars punct t = t -> is_linkish t = true -> mem_c (ch " ") t = false -> targets z t = [t].
Proof. exact scan_single_linkish. Qed.
Theorem C17_line_of_one_zid : forall z t,
  strip_chars punct t = t -> strip_chars (S "[]") t = t -> is_linkish t = false -> is_zid t = true ->
  split_on (ch " ") t = [t] -> targets z t = [t].
Proof. exact scan_single_zid. Qed.

(* The property-level reading of the scan. On an item line - kind character, the rest of the identity prefix
   (priority, modify date, the note's own ZID, in any combination), an ORDINARY word, then anything - the targets
   are exactly the link-like words and the ZIDs (bare or bracketed) after that word, in line order, and nothing of
   the prefix is offered.  (Without the ordinary word the statement is false: C17_nonprimary_zid_refuted.) *)
Theorem C17_targets_of_an_item_line : forall kind pre w1 rest,
  prefix_like kind -> is_zid (strip_chars (S "[]") (strip_chars punct kind)) = false ->
  Forall prefix_like pre -> ordinary w1 ->
  scan false true false (kind :: pre ++ w1 :: rest) = all_targets rest.
Proof. exact scan_item_line. Qed.
(* on query pages every link-like word and every ZID is a target, whatever precedes it *)
Theorem C17_query_page_targets : forall ws first found, scan true first found ws = all_targets ws.
Proof. exact scan_zoq. Qed.

(* full statement about non-primary ZIDs is FALSE of the faithful model *)
Theorem C17_nonprimary_zid_refuted :
  targets false (S "- 240101#05 x [240101#02]") = [] /\
  targets false (S "- 240101#05 y [240101#02]") = [S "240101#02"].
Proof. exact primary_flag_refuted. Qed.

Example C17_example :
  targets false (S "o P1 240601 240101#05 see [[foo]], ([[bar#sec]]) [^loc] [#gid]. [@rid]; [240101#02] x") =
  [S "[[foo]]"; S "[[bar#sec]]"; S "[^loc]"; S "[#gid]"; S "[@rid]"; S "240101#02"].
Proof. vm_compute. reflexivity. Qed.

Print Assumptions C17_option_k.
Print Assumptions C17_option_last.
Print Assumptions C17_prompt_lists_targets_in_order.
Print Assumptions C17_single_target_opened_directly.
Print Assumptions C17_targets_of_an_item_line.
Print Assumptions C17_query_page_targets.
Print Assumptions C17_line_of_one_link.
Print Assumptions C17_line_of_one_zid.
Print Assumptions C17_nonprimary_zid_refuted.
