(* C10 — `note move` relocates exactly one note and loses nothing (line-level model). *)
From Zorg Require Import Base.PyStr Base.Res Model.NoteText Model.Move Proofs.MoveFacts.

(* source: exactly [length body-lines] lines are removed, starting at the first
   line that contains " ZID "; every other line is kept in order.  When that
   first line is the note's own first line these are exactly the note's lines. *)
Theorem C10_delete_partial : forall zid body ls out,
  del_lines zid body ls = Some out ->
  exists s, out = firstn s ls ++ skipn (s + length (split_on nlc body)) ls /\
            contains (S " " ++ zid ++ S " ") (nth s ls []) = true /\
            forall j, j < s -> contains (S " " ++ zid ++ S " ") (nth j ls []) = false.
Proof. exact delete_exact. Qed.

(* destination: the note's text replaces exactly one line, and when the page
   ends with a newline that line is blank - every other line is unchanged *)
Theorem C10_add_partial : forall text ls,
  add_lines text ls = firstn (ins_index ls) ls ++ split_on nlc text ++ skipn (Datatypes.S (ins_index ls)) ls.
Proof. exact add_shape. Qed.
Theorem C10_add_overwrites_only_blank : forall ls : list str,
  last ls [] = [] -> ls <> [] ->
  ins_index ls < length ls /\ is_blank_line (nth (ins_index ls) ls []) = true.
Proof. exact add_overwrites_only_a_blank_line. Qed.

(* WHAT is removed from the source, for every page: pre = the lines above the note, none mentioning its ZID (the
   known finding is exactly the failure of this hypothesis); l :: blk = as many lines as the note's body has, starting
   with the line that carries the ZID - the note's own lines; post = the rest. Exactly l :: blk is removed. *)
Theorem C10_exactly_the_notes_lines_are_removed : forall zid body pre l blk post,
  forallb (fun x => negb (contains (S " " ++ zid ++ S " ") x)) pre = true ->
  contains (S " " ++ zid ++ S " ") l = true ->
  length (l :: blk) = length (split_on nlc body) ->
  del_lines zid body (pre ++ (l :: blk) ++ post) = Some (pre ++ post).
Proof. exact delete_exactly_the_notes_lines. Qed.

(* WHERE the note goes, for every page: split the lines into paragraphs at blank lines; with P the LAST paragraph that
   holds an item (all its lines non-blank, one of them starts an item), b the blank line that ends it and B the rest
   of the page (no item starts there: headers, comments, blank lines), the note is written directly below P, the
   blank line after it, and A, P and B are unchanged. *)
Theorem C10_added_below_the_last_item_paragraph : forall text A P b B,
  forallb (fun c => negb (ceqb c nlc)) text = true ->
  forallb (fun l => negb (is_blank_line l)) P = true -> existsb starts_item P = true ->
  is_blank_line b = true -> forallb (fun l => negb (starts_item l)) B = true ->
  add_lines (text ++ [nlc]) (A ++ P ++ b :: B) = A ++ P ++ text :: [] :: B.
Proof. exact add_below_last_item_paragraph. Qed.
(* a page without items: the note replaces the last line (the empty string after the final newline) *)
Theorem C10_added_at_the_end_of_a_page_without_items : forall ls,
  forallb (fun l => negb (starts_item l)) ls = true -> ins_index ls = length ls - 1.
Proof. exact ins_index_no_items. Qed.

(* REFUTED: destination without trailing newline; ZID mentioned in an earlier line *)
Theorem C10_no_trailing_newline_refuted :
  add_note (S "- moved" ++ [nlc]) (S "# C header only") = S "- moved" ++ [nlc].
Proof. exact add_overwrites_last_line_refuted. Qed.
Theorem C10_zid_mentioned_earlier_refuted :
  delete_note (S "240101#05") (S "240101#05 the note")
    (S "# t" ++ [nlc] ++ [nlc] ++ S "- 240101#01 see 240101#05 there" ++ [nlc] ++ S "- 240101#05 the note" ++ [nlc]) =
  Some (S "# t" ++ [nlc] ++ [nlc] ++ S "- 240101#05 the note" ++ [nlc]).
Proof. exact delete_wrong_lines_refuted. Qed.

Example C10_example :
  add_note (S "x 240101#05 +proj done" ++ [nlc])
           (S "# dest" ++ [nlc] ++ [nlc] ++ S "- 240102#00 first" ++ [nlc] ++ [nlc] ++ S "# trailer" ++ [nlc]) =
  S "# dest" ++ [nlc] ++ [nlc] ++ S "- 240102#00 first" ++ [nlc] ++ S "x 240101#05 +proj done" ++ [nlc] ++ [nlc] ++ S "# trailer" ++ [nlc].
Proof. vm_compute. reflexivity. Qed.

Print Assumptions C10_delete_partial.
Print Assumptions C10_add_partial.
Print Assumptions C10_add_overwrites_only_blank.
Print Assumptions C10_exactly_the_notes_lines_are_removed.
Print Assumptions C10_added_below_the_last_item_paragraph.
Print Assumptions C10_added_at_the_end_of_a_page_without_items.
Print Assumptions C10_no_trailing_newline_refuted.
Print Assumptions C10_zid_mentioned_earlier_refuted.
