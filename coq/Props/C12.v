(* C12 — A note's text form compiles back to the same note.
   PARTIAL: the round trip through the real parser is decided by the harness
   (compile -> to_string -> compile on generated notes); proved here are the
   shape of the text form and, on exported trees, the refutation. *)
From Zorg Require Import Base.PyStr Base.Res Base.Dates Model.FileListener Model.Witness Model.NoteText
  Proofs.NoteTextFacts.

Theorem C12_text_form_open : forall p st body, is_done st = false ->
  to_string (Some (p, st)) body = st ++ S " " ++ p ++ S " " ++ strip body ++ [ascii_of_nat 10].
Proof. exact to_string_open. Qed.
Theorem C12_text_form_done : forall p st body, is_done st = true ->
  to_string (Some (p, st)) body = st ++ S " " ++ strip body ++ [ascii_of_nat 10].
Proof. exact to_string_done. Qed.
Theorem C12_text_form_note : forall body, to_string None body = S "- " ++ strip body ++ [ascii_of_nat 10].
Proof. exact to_string_note. Qed.
Theorem C12_text_form_up_to_outer_whitespace : forall todo body,
  to_string todo (strip body) = to_string todo body.
Proof. exact to_string_strip. Qed.

(* REFUTED: a done todo whose body starts with a Pn-shaped word.  The first
   tree is the parse of "x  P4 240101#00 foo" (irregular spacing); its note has
   body "P4 240101#00 foo"; its text form is "x P4 240101#00 foo", whose parse is
   the second tree, and that compiles to a different body and priority. *)
Theorem C12_prefix_reinterpreted_refuted :
  exists pa pb na nb,
    listen (mkDate 2024 6 1) false w_done_p4_a = Ok pa /\ p_notes pa = [na] /\
    listen (mkDate 2024 6 1) false w_done_p4_b = Ok pb /\ p_notes pb = [nb] /\
    to_string (n_todo na) (n_body na) = S "x P4 240101#00 foo" ++ [ascii_of_nat 10] /\
    n_body na = S "P4 240101#00 foo" /\ n_body nb = S "240101#00 foo" /\
    n_zid na = None /\ n_zid nb = Some (S "240101#00").
Proof.
  do 4 eexists. split; [vm_compute; reflexivity|]. split; [reflexivity|].
  split; [vm_compute; reflexivity|]. split; [reflexivity|]. repeat split.
Qed.

Print Assumptions C12_text_form_open.
Print Assumptions C12_text_form_done.
Print Assumptions C12_text_form_up_to_outer_whitespace.
Print Assumptions C12_prefix_reinterpreted_refuted.
