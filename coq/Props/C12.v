(* C12 — A note's text form compiles back to the same note.
   Proved for every abstract item (coq/Model/PageSyntax.v) whose words contain no white space: the text zorg emits
   for the note the item denotes IS the canonical text of the item [emit_form it] (C12_emitted_text_is_an_item);
   [emit_form it] is again a valid item (so the page theorem C01_page_yields_exactly_its_notes applies to every page
   that contains it) and reads as the same note - kind, ZID, body, tags, links, properties, dates, and the priority
   unless the todo is done or cancelled (C12_emitted_item_reads_as_the_same_note).  What is NOT proved is the parser
   (text -> tree), which the harness checks on every run: generated notes are rendered by the real Note.to_string,
   query execution and saved-query refresh, recompiled by the real compiler and compared. *)
From Zorg Require Import Proofs.ResultsPage Model.PageLines Model.WriteBack Base.PyStr Base.Res Base.Dates Gen.Params Model.FileListener Model.Witness Model.NoteText
  Proofs.NoteTextFacts Model.PageSyntax Proofs.PageFacts Model.PageText Proofs.PageTextFacts.

Theorem C12_emitted_text_is_an_item : forall today ot op od key line it,
  tidy it ->
  let n := spec_note today ot op od key line it in
  to_string (n_todo n) (n_body n) = render_item (emit_form it) ++ [ascii_of_nat 10].
Proof. exact emitted_text_is_an_item. Qed.

Theorem C12_emitted_item_is_valid : forall it, valid_item it -> valid_item (emit_form it).
Proof. exact emit_form_valid. Qed.

Theorem C12_emitted_item_reads_as_the_same_note : forall today ot op od key line it,
  let n := spec_note today ot op od key line it in
  let n' := spec_note today ot op od key line (emit_form it) in
  n_body n' = n_body n /\ n_zid n' = n_zid n /\ n_create n' = n_create n /\ n_modify n' = n_modify n /\
  n_areas n' = n_areas n /\ n_contexts n' = n_contexts n /\ n_people n' = n_people n /\ n_projects n' = n_projects n /\
  n_links n' = n_links n /\ n_props n' = n_props n /\
  match n_todo n, n_todo n' with
  | None, None => True
  | Some (p, k), Some (p', k') => k' = k /\ (is_done k = false -> p' = p)
  | _, _ => False
  end.
Proof. exact emit_form_reading. Qed.

(* The second sentence of the property. results_page title its = a header line (any title words), a blank line, the
   text forms of the selected items - one per line, in the order given -, a blank line.  Its text is exactly that
   (C12_results_page_text); it compiles without error to one note per selected item, in order
   (C12_results_page_compiles, from the page theorem of C01), on consecutive lines from line 3, each with the ZID and
   the body of its item (C12_results_page_notes; kind, priority, dates, tags: C12_emitted_item_reads_as_the_same_note). *)
Theorem C12_results_page_text : forall title its,
  page_text (results_page title its) =
  (S "#" ++ words_text title) ++ [nlc10] ++ [nlc10] ++
  concat (map (fun it => render_item (emit_form it) ++ [nlc10]) its) ++ [nlc10].
Proof. exact results_page_text. Qed.
Theorem C12_results_page_compiles : forall today title its,
  Forall valid_mword title -> Forall valid_item its ->
  exists secs, listen today false (tree_of_page (results_page title its)) =
               Ok (mkPage false (spec_page today (results_page title its)) secs).
Proof. exact results_page_compiles. Qed.
Theorem C12_results_page_notes : forall today title its,
  map (fun n => (n_line n, n_zid n, n_body n)) (spec_page today (results_page title its)) =
  map (fun li => (fst li, ident_zid (i_ident (snd li)), strip (words_text (item_words (snd li)))))
      (combine (seq 3 (length its)) its).
Proof. exact results_page_notes. Qed.

Theorem C12_tidy_decidable : forall it, tidyb it = true -> tidy it.
Proof. exact tidyb_sound. Qed.

Example C12_item_example :
  let it := mkItem (Some TBlocked) (Some (S "p7")) (IZid (S "240105#0A")) [WId (S "wait"); WTag KPerson (S "bob")] in
  tidy it /\ valid_item it /\
  render_item (emit_form it) = S "< P7 240105#0A wait %bob".
Proof.
  cbv zeta. split; [apply tidyb_sound; vm_compute; reflexivity|]. split; [apply valid_itemb_sound; vm_compute; reflexivity|].
  vm_compute. reflexivity.
Qed.

Theorem C12_text_form_open : forall p st body, is_done st = false ->
  to_string (Some (p, st)) body = st ++ S " " ++ p ++ S " " ++ strip body ++ [ascii_of_nat 10].
Proof. exact to_string_open. Qed.
Theorem C12_text_form_done : forall p st body, is_done st = true ->
  to_string (Some (p, st)) body = st ++ S " " ++ strip body ++ [ascii_of_nat 10].
Proof. exact to_string_done. Qed.
Theorem C12_text_form_note : forall body, to_string None body = S "- " ++ strip body ++ [ascii_of_nat 10].
Proof. exact to_string_note. Qed.
Theorem C12_text_form_up_to_outer_whitespace : forall todo body,
  to_string todo (strip body) = to_string todo body.
Proof. exact to_string_strip. Qed.

(* REFUTED: a done todo whose body starts with a Pn-shaped word.  The first
   tree is the parse of "x  P4 240101#00 foo" (irregular spacing); its note has
   body "P4 240101#00 foo"; its text form is "x P4 240101#00 foo", whose parse is
   the second tree, and that compiles to a different body and priority. *)
Theorem C12_prefix_reinterpreted_refuted :
  exists pa pb na nb,
    listen (mkDate 2024 6 1) false w_done_p4_a = Ok pa /\ p_notes pa = [na] /\
    listen (mkDate 2024 6 1) false w_done_p4_b = Ok pb /\ p_notes pb = [nb] /\
    to_string (n_todo na) (n_body na) = S "x P4 240101#00 foo" ++ [ascii_of_nat 10] /\
    n_body na = S "P4 240101#00 foo" /\ n_body nb = S "240101#00 foo" /\
    n_zid na = None /\ n_zid nb = Some (S "240101#00").
Proof.
  do 4 eexists. split; [vm_compute; reflexivity|]. split; [reflexivity|].
  split; [vm_compute; reflexivity|]. split; [reflexivity|]. repeat split.
Qed.

Print Assumptions C12_results_page_text.
Print Assumptions C12_results_page_compiles.
Print Assumptions C12_results_page_notes.
Print Assumptions C12_emitted_text_is_an_item.
Print Assumptions C12_emitted_item_is_valid.
Print Assumptions C12_emitted_item_reads_as_the_same_note.
Print Assumptions C12_tidy_decidable.
Print Assumptions C12_text_form_open.
Print Assumptions C12_text_form_done.
Print Assumptions C12_text_form_up_to_outer_whitespace.
Print Assumptions C12_prefix_reinterpreted_refuted.
