(* C14 — `file rename` retargets every link to the page and nothing else. *)
From Zorg Require Import Base.PyStr Base.Sexp Base.Res Model.Rename Proofs.RenameFacts.

(* For page names without '[', ']' and '#', the two successive str.replace
   calls of run_file_rename compute exactly the one-pass reading of the
   property: every "[[A]]" becomes "[[B]]", every "[[A#" becomes "[[B#", every
   other character is copied.  Unbounded in the text. *)
Theorem C14_rename : forall a b text, name_ok a = true -> name_ok b = true ->
  rename_text a b text = spec_rename a b text.
Proof. intros a b text Ha Hb. now apply (rename_is_spec a b Ha Hb (length text)). Qed.

(* the one-pass reading leaves a text without any "[[A" untouched: links to
   pages whose names merely contain or end with A (e.g. [[xA]]) are not links to A *)
Theorem C14_untouched : forall a b text, contains (S "[[" ++ a) text = false ->
  spec_rename a b text = text.
Proof. intros a b text H. now apply spec_fuel_id. Qed.

(* names that extend A: [[Ax]] is copied *)
Example C14_example :
  rename_text (S "foo") (S "bar")
    (S "see [[foo]] and [[foo#sec]] but [[foobar]], [[xfoo]], [[foo/sub]], [[foo]x [[[foo]]]") =
  S "see [[bar]] and [[bar#sec]] but [[foobar]], [[xfoo]], [[foo/sub]], [[foo]x [[[bar]]]"
  /\ name_ok (S "foo") = true /\ name_ok (S "sub/page_1.x") = true.
Proof. vm_compute. auto. Qed.

Print Assumptions C14_rename.
Print Assumptions C14_untouched.
