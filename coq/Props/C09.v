(* C09 — Query output renders the selected notes faithfully (GROUP BY / ORDER BY / SELECT stage). *)
From Coq Require Import Permutation Sorted.
From Zorg Require Import Base.PyStr Base.Res Proofs.SortFacts Model.NoteText Model.Executor Proofs.ExecutorFacts.

(* every selected note occurs exactly once under the group leaves, for any
   grouping dimensions and ordering keys *)
Theorem C09_each_once : forall gs os ns, Permutation (leaves (order_by os (group_by gs ns))) ns.
Proof. exact execute_each_once. Qed.

(* one header level per dimension: sibling labels strictly increasing (sorted
   and distinct), every note under the label equal to its own key *)
Theorem C09_labels : forall g rest ns,
  exists G, group_by (g :: rest) ns = Groups G /\
    StronglySorted (fun a b => str_ltb a b = true) (map fst G) /\
    Forall (fun lg => exists part, snd lg = group_by rest part /\ part <> [] /\
                                   Forall (fun n => gkeyf g n = fst lg) part) G.
Proof. exact group_by_labels. Qed.

(* inside a group the notes are a sorted permutation w.r.t. the joined ORDER BY key *)
Theorem C09_order_partial : forall os ns,
  exists ns', order_by os (Leaf ns) = Leaf ns' /\ Permutation ns' ns /\
    sorted (fun a b => str_leb (order_key os a) (order_key os b)) ns'.
Proof. exact order_by_leaf_sorted. Qed.

Theorem C09_count : forall s alpha nl lvl ns,
  render (Count s) alpha nl lvl (Leaf ns) = Ok (str_of_nat (length (selector s alpha ns)) ++ nl1 ++ nl1) /\
  render (Sel s) alpha nl lvl (Leaf ns) = Ok (join nl1 (selector s alpha ns) ++ nl1 ++ nl1).
Proof. exact count_is_length. Qed.

Theorem C09_select_distinct : forall l, NoDup (uniq l) /\ forall x, In x (uniq l) <-> In x l.
Proof. intros l. split; [apply uniq_nodup|apply uniq_same_values]. Qed.

(* the string order used for labels and keys is a strict total order *)
Theorem C09_key_order_total : forall a b, str_ltb a b = true \/ a = b \/ str_ltb b a = true.
Proof. exact str_trichotomy. Qed.

(* REFUTED: `none` is not "page path then line number" *)
Theorem C09_order_none_refuted :
  execute (Sel SNote) [] [ONone] [mk_plain "a.zo" 3 "third line"; mk_plain "a.zo" 10 "tenth line"] =
  Ok (S "- tenth line" ++ nl1 ++ S "- third line").
Proof. exact order_none_refuted. Qed.

Print Assumptions C09_each_once.
Print Assumptions C09_labels.
Print Assumptions C09_order_partial.
Print Assumptions C09_count.
Print Assumptions C09_select_distinct.
Print Assumptions C09_order_none_refuted.
