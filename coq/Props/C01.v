(* C01 — placeholder for the build (theorems are added below as they are proved). *)
From Zorg Require Import Base.PyStr Base.Res Base.Dates Model.FileListener.
