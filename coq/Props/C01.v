(* C01 — Compiling a page yields exactly the notes written in it.
   PARTIAL: the end-to-end statement (compile (render p) = expected_notes p for
   every abstract page p) is decided by the correspondence + spec runs of the
   harness; proved here are the mechanisms that make it true, over ALL trees. *)
From Zorg Require Import Base.PyStr Base.Res Base.Dates Model.FileListener Model.Witness Proofs.FileListenerFacts.

(* Only todo_prefix / priority nodes write kind and priority: no other word
   form, however it looks, changes them. *)
Theorem C01_kind_priority_only_from_prefix_partial : forall r l kids st st',
  classify r <> RTodoPrefix -> classify r <> RPriority ->
  enter r l kids st = Ok st' -> kp st' = kp st.
Proof. exact enter_keeps_kind_priority. Qed.

(* Identity words: from the third identifier of an item on (or the second, when
   the first was not a modify date) a ZID- or date-shaped word changes neither
   ZID, nor modify date, nor create date. *)
Theorem C01_lookalike_ids_inert_partial : forall txt st st',
  enter_id txt st = Ok st' ->
  (2 <= s_ids st \/ (s_ids st = 1 /\ s_modify st = None)) -> ident st' = ident st.
Proof. exact id_after_identity_is_inert. Qed.

Theorem C01_lookalike_dates_inert_partial : forall kids st st',
  enter_date kids st = Ok st' ->
  s_in_hdr st = [false; false; false; false] -> s_first_comment st = false ->
  (s_ids st <> 1 \/ getn 5 (s_dates st) None <> None) -> ident st' = ident st.
Proof. exact date_word_in_body_is_inert. Qed.

(* Nothing but the exit of an item adds a note: with the output accumulator
   threaded outside the listener state, headers, comments and blank lines
   cannot add notes by construction; and a flagged page indexes nothing. *)
Theorem C01_valid_not_flagged : forall today t pg,
  listen today false t = Ok pg -> p_has_errors pg = false.
Proof. exact no_errors_not_flagged. Qed.

Example C01_example :
  exists pg n, listen (mkDate 2024 6 1) false w_ok = Ok pg /\ p_notes pg = [n] /\
    n_todo n = Some (S "P1", S "o") /\ n_zid n = Some (S "231231#0A") /\ n_line n = 3 /\
    n_modify n = mkDate 2024 1 1 /\ n_create n = mkDate 2023 12 31.
Proof. eexists. eexists. split; [vm_compute; reflexivity|]. repeat split. Qed.

Print Assumptions C01_kind_priority_only_from_prefix_partial.
Print Assumptions C01_lookalike_ids_inert_partial.
Print Assumptions C01_lookalike_dates_inert_partial.
Print Assumptions C01_valid_not_flagged.
