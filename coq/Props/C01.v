(* C01 — Compiling a page yields exactly the notes written in it.
   Proved: for EVERY abstract well-formed page (coq/Model/PageSyntax.v) the listener, run on the tree the
   parser builds for the page's canonical text, yields exactly the notes the page reading demands, in document
   order (C01_page_yields_exactly_its_notes).  That the parser builds tree_of_page for that text is NOT proved
   (the ANTLR parser is not modelled): the harness compares tree_of_page with the real parse tree, and spec_page
   with the real compilation, on every generated page of every run.  The older per-handler theorems (any tree,
   any state) are kept below with their _partial names. *)
From Zorg Require Import Base.PyStr Base.Res Base.Dates Gen.Params Model.FileListener Model.Witness Proofs.FileListenerFacts
  Model.PageSyntax Proofs.PageFacts.

(* Every abstract page: any nesting of sections H1 > H2 > H3 > H4 (also H2 sections before the first H1), any number
   of blocks, items and in-block comments, every item kind, with or without priority, every identity form (none / ZID / modify date +
   ZID / long creation date / modify date alone, followed by a word that is not ZID-shaped), any number of words of every modelled form (plain and look-alike identifiers, tags,
   digit-only tags, page links, properties, dates, ZIDs).  The result: not flagged; the notes are exactly
   spec_page, in document order, each with kind, priority, ZID, dates, body, line and the metadata in scope. *)
Theorem C01_page_yields_exactly_its_notes : forall today pg,
  valid_page pg ->
  exists secs, listen today false (tree_of_page pg) = Ok (mkPage false (spec_page today pg) secs).
Proof. exact page_correct. Qed.

(* the hypothesis is decidable; the harness evaluates valid_pageb on every generated page *)
Theorem C01_hypotheses_decidable : forall pg, valid_pageb pg = true -> valid_page pg.
Proof. exact valid_pageb_sound. Qed.

(* what spec_page says about one item: kind and priority only from the prefix, identity only from the identity
   position, body = the words as written, line = the line of the item *)
Theorem C01_item_reading : forall today ot op od key line it,
  let n := spec_note today ot op od key line it in
  n_todo n = match i_kind it with
             | None => None
             | Some k => Some (match i_prio it with Some p => upper p | None => default_priority end, [kind_char k])
             end /\
  n_zid n = ident_zid (i_ident it) /\ n_body n = strip (words_text (item_words it)) /\ n_line n = line.
Proof. intros. destruct (spec_note_reading today ot op od key line it) as (A & B & C & D & _). repeat split; assumption. Qed.

(* non-vacuity: a page with a title tag, two top-level items, an H2 before the first H1, and an H1 > H2 nesting *)
Definition ex_page : apage :=
  mkPg [WId (S "Title"); WTag KArea (S "pa")]
       [[BItem (mkItem None None (IPlain (S "foo")) [WTag KProject (S "p1"); WId (S "240101")]);
         BComment [WId (S "remark"); WTag KArea (S "notmine"); WProp (S "k") (S "comment")];
         BItem (mkItem (Some TOpen) (Some (S "P2")) (IZid (S "240105#0A")) [WId (S "bar"); WProp (S "k") (S "v")]);
         BItem (mkItem (Some TBlocked) None (IMod (S "240203")) [WDate (S "2021-07-07"); WId (S "due")])]]
       [GSec [WId (S "Early")] [[BItem (mkItem (Some TDone) None (IModZid (S "240301") (S "231201#AB")) [])]] []]
       [GSec [WId (S "One"); WDate (S "2024-03-05")] []
             [GSec [WId (S "Two"); WTag KContext (S "home")] [[BItem (mkItem None None (ILong (S "2024-02-02")) [WId (S "x1")])]] []]].
Example C01_page_example :
  valid_page ex_page /\ length (spec_page (mkDate 2024 6 1) ex_page) = 5%nat /\
  map n_line (spec_page (mkDate 2024 6 1) ex_page) = [3; 5; 6; 10; 16]%nat /\
  (* the in-block comment (line 4) yields no note and its #notmine / k::comment reach no note *)
  map n_areas (spec_page (mkDate 2024 6 1) ex_page) = [[S "pa"]; [S "pa"]; [S "pa"]; [S "pa"]; [S "pa"]] /\
  (* a long date after a modify date that stands alone is a body word: the creation date stays the page's *)
  map n_create (spec_page (mkDate 2024 6 1) ex_page) =
    [mkDate 2024 6 1; mkDate 2024 1 5; mkDate 2024 6 1; mkDate 2023 12 1; mkDate 2024 2 2].
Proof. split; [apply valid_pageb_sound; vm_compute; reflexivity|repeat split; vm_compute; reflexivity]. Qed.

(* Only todo_prefix / priority nodes write kind and priority: no other word
   form, however it looks, changes them. *)
Theorem C01_kind_priority_only_from_prefix_partial : forall r l kids st st',
  classify r <> RTodoPrefix -> classify r <> RPriority ->
  enter r l kids st = Ok st' -> kp st' = kp st.
Proof. exact enter_keeps_kind_priority. Qed.

(* Identity words: from the third identifier of an item on (or the second, when
   the first was not a modify date) a ZID- or date-shaped word changes neither
   ZID, nor modify date, nor create date. *)
Theorem C01_lookalike_ids_inert_partial : forall txt st st',
  enter_id txt st = Ok st' ->
  (2 <= s_ids st \/ (s_ids st = 1 /\ s_modify st = None)) -> FileListenerFacts.ident st' = FileListenerFacts.ident st.
Proof. exact id_after_identity_is_inert. Qed.

Theorem C01_lookalike_dates_inert_partial : forall kids st st',
  enter_date kids st = Ok st' ->
  s_in_hdr st = [false; false; false; false] -> s_first_comment st = false ->
  (s_ids st <> 1 \/ getn 5 (s_dates st) None <> None) -> FileListenerFacts.ident st' = FileListenerFacts.ident st.
Proof. exact date_word_in_body_is_inert. Qed.

(* Nothing but the exit of an item adds a note: with the output accumulator
   threaded outside the listener state, headers, comments and blank lines
   cannot add notes by construction; and a flagged page indexes nothing. *)
Theorem C01_valid_not_flagged : forall today t pg,
  listen today false t = Ok pg -> p_has_errors pg = false.
Proof. exact no_errors_not_flagged. Qed.

Example C01_example :
  exists pg n, listen (mkDate 2024 6 1) false w_ok = Ok pg /\ p_notes pg = [n] /\
    n_todo n = Some (S "P1", S "o") /\ n_zid n = Some (S "231231#0A") /\ n_line n = 3 /\
    n_modify n = mkDate 2024 1 1 /\ n_create n = mkDate 2023 12 31.
Proof. eexists. eexists. split; [vm_compute; reflexivity|]. repeat split. Qed.

Print Assumptions C01_page_yields_exactly_its_notes.
Print Assumptions C01_hypotheses_decidable.
Print Assumptions C01_item_reading.
Print Assumptions C01_kind_priority_only_from_prefix_partial.
Print Assumptions C01_lookalike_ids_inert_partial.
Print Assumptions C01_lookalike_dates_inert_partial.
Print Assumptions C01_valid_not_flagged.
