(* C06 — Incremental reindexing is equivalent to rebuilding the index.
   Over the abstract world machine (coq/Model/World.v): per page the file
   content, the indexed page and the content whose hash is stored; the ZID
   supply is an arbitrary parameter. *)
From Coq Require Import List Arith Bool.
Import ListNotations.
From Zorg Require Import Model.World Proofs.WorldFacts.

(* Full statement: for EVERY history (edits, adding / deleting / renaming pages,
   day changes, reindex runs with or without explicit paths) that ends with a
   plain reindex, the index is what the final files compile to. *)
Definition C06_full (alloc : path -> nat -> nat -> nat) : Prop :=
  forall w0 ops, covers w0 -> in_sync (reindex alloc None (run alloc (create alloc w0) ops)).

(* PROVED for histories of edits (any change of a page's text, incl. new pages),
   day changes, `db create` and plain `db reindex` runs, of any length. *)
Theorem C06_equiv_partial : forall alloc w0 ops,
  covers w0 -> forallb plain_op ops = true ->
  in_sync (reindex alloc None (run alloc (create alloc w0) ops)).
Proof. exact incremental_equals_rebuild. Qed.

(* the invariant behind it: the index reflects exactly the contents whose hashes are stored *)
Theorem C06_invariant : forall alloc ops w, forallb plain_op ops = true -> Inv w -> Inv (run alloc w ops).
Proof. exact run_inv. Qed.
Theorem C06_create_from_anything : forall alloc w, covers w -> Inv (create alloc w) /\ in_sync (create alloc w).
Proof. exact create_inv. Qed.

(* REFUTED (known findings): deleted pages survive; an explicit-path reindex with a write-back hides another page's edit *)
Theorem C06_deleted_page_refuted :
  let w := run alloc0 (w_init [(1, (0, [note_new 1])); (2, (0, [note_new 2]))]) [Create; Delete 2; Reindex None] in
  files w 2 = None /\ db w 2 <> None.
Proof. exact deleted_page_survives. Qed.
Theorem C06_explicit_path_refuted :
  let w := run alloc0 (w_init [(1, (0, [note_new 1])); (2, (0, [note_new 2]))])
               [Create; Edit 2 (0, [mkA (Some 20) 7 0]); Edit 1 (0, [mkA (Some 10) 1 0; note_new 5]);
                Reindex (Some [1]); Reindex None] in
  files w 2 = Some (0, [mkA (Some 20) 7 0]) /\ db w 2 = Some (0, [(20, 2, 0)]).
Proof. exact explicit_path_hides_edit. Qed.

Print Assumptions C06_equiv_partial.
Print Assumptions C06_invariant.
Print Assumptions C06_create_from_anything.
Print Assumptions C06_deleted_page_refuted.
Print Assumptions C06_explicit_path_refuted.
