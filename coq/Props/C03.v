(* C03 — placeholder; theorems are added below as they are proved. *)
From Zorg Require Import Base.PyStr Base.Res Base.Dates Model.Where.
