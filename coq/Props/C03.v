(* C03 — A WHERE filter returns exactly the indexed notes that satisfy it.
   The model (coq/Model/Where.v) evaluates the generated SQL over the raw index
   rows as SQLite does; these theorems relate it, atom by atom, to the meaning
   the property sentence gives, for CLEAN atoms (no LIKE metacharacters), and
   refute the unclean ones.  C03_whole_filter_is_its_reading lifts the text and
   file atoms to WHOLE filters of any nesting (AND / OR / parentheses), and
   C03_where_returns_exactly_the_satisfying_notes states the result set. *)
From Zorg Require Import Base.PyStr Base.Res Base.Dates Model.QueryListener Model.Where Proofs.WhereFacts Proofs.WhereSat.

(* any filter tree (and-groups, alternatives, nested sub-filters to the depth the fuel allows) whose text and
   file atoms contain no LIKE metacharacter: the SQL evaluation equals the evaluation that reads text atoms as
   (smart-case) literal containment and f= as a *-glob, composed by AND / OR exactly as written *)
Theorem C03_whole_filter_is_its_reading : forall today ix fuel n f,
  clean_af fuel f = true -> and_ok today ix fuel n f = and_sat today ix fuel n f.
Proof. exact and_ok_is_sat. Qed.

Theorem C03_where_returns_exactly_the_satisfying_notes : forall today ix o,
  o <> [] -> forallb (clean_af 40) o = true ->
  eval_where today ix (Some o) =
  (sel <- seq_res (map (fun n => b <- or_sat today ix n o ;; Ok (n, b)) ix) ;;
   Ok (sort_str (map (fun nb => i_zid (fst nb)) (filter (fun nb => snd nb) sel)))).
Proof. exact eval_where_is_filter_sat. Qed.

Theorem C03_text_atom_reading : forall n d, clean_text (df_value d) = true -> desc_ok n d = sat_desc n d.
Proof. exact desc_ok_sat. Qed.

(* quoted text = smart-case literal containment *)
Theorem C03_text_case_insensitive_partial : forall n v neg,
  clean_text v = true -> islower v = true ->
  desc_ok n (mkDF v None neg) = xorb neg (contains_ci v (i_body n)).
Proof. exact desc_ci_is_containment. Qed.
Theorem C03_text_case_sensitive_partial : forall n v neg,
  clean_text v = true -> desc_ok n (mkDF v (Some true) neg) = xorb neg (contains v (i_body n)).
Proof. exact desc_cs_is_containment. Qed.
(* the SQL LIKE with a literal pattern is containment, for either escape convention *)
Theorem C03_like_is_containment : forall esc lit s,
  is_esc esc (ch "%") = false -> forallb (plain_c esc) lit = true ->
  like esc (S "%" ++ lit ++ S "%") s = contains_ci lit s.
Proof. exact like_is_containment. Qed.

(* f= is a *-glob over the page path; negation is the complement *)
Theorem C03_file_glob_partial : forall n g neg, clean_glob g = true ->
  file_ok n (g, neg) = xorb neg (glob_ci g (i_page n)).
Proof. exact file_filter_is_glob. Qed.

(* a !-negated comparison keeps the requirement that the property exists *)
Theorem C03_negated_comparison : forall today n key v op, op <> PExists ->
  forall val, map snd (filter (fun kv => eqb_str (fst kv) key) (i_props n)) = [val] ->
  prop_ok today n (mkPF key v op VStrT true) = Ok (negb (cmp_str op val v)) /\
  prop_ok today n (mkPF key v op VStrT false) = Ok (cmp_str op val v).
Proof. exact negated_comparison_requires_property. Qed.
Theorem C03_comparison_needs_property : forall today n key v op vt neg,
  op <> PExists -> vt <> VDateT ->
  map snd (filter (fun kv => eqb_str (fst kv) key) (i_props n)) = [] ->
  prop_ok today n (mkPF key v op vt neg) = Ok false.
Proof. exact missing_property_never_matches_comparison. Qed.
Theorem C03_existence_complement : forall today n key v vt,
  exists b, prop_ok today n (mkPF key v PExists vt false) = Ok b /\
            prop_ok today n (mkPF key v PExists vt true) = Ok (negb b).
Proof. exact exists_filter_complement. Qed.

Theorem C03_range_inclusive : forall d s e, in_range d (s, e) =
  date_leb s d && date_leb d (match e with Some x => x | None => s end).
Proof. exact range_inclusive. Qed.

(* REFUTED (known findings) *)
Theorem C03_cs_underscore_refuted :
  desc_ok (w_note 1 "240101#00" "has a_b inside" []) (mkDF (S "a_b") (Some true) false) = false.
Proof. exact cs_underscore_refuted. Qed.
Theorem C03_negated_link_refuted :
  link_ok [] (w_note 1 "240101#00" "links elsewhere" [S "c"]) (S "b", true) = false /\
  link_ok [] (w_note 1 "240101#00" "links elsewhere" [S "c"]) (S "b", false) = false.
Proof. exact negated_link_refuted. Qed.

Print Assumptions C03_whole_filter_is_its_reading.
Print Assumptions C03_where_returns_exactly_the_satisfying_notes.
Print Assumptions C03_text_atom_reading.
Print Assumptions C03_text_case_insensitive_partial.
Print Assumptions C03_text_case_sensitive_partial.
Print Assumptions C03_like_is_containment.
Print Assumptions C03_file_glob_partial.
Print Assumptions C03_negated_comparison.
Print Assumptions C03_existence_complement.
Print Assumptions C03_cs_underscore_refuted.
Print Assumptions C03_negated_link_refuted.
