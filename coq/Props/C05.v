(* C05 — After `db create` index and files agree; files change only to gain ZIDs.
   PARTIAL: line-level theorems about the write-back (for items whose words are
   separated by single spaces) + the world-level run of the harness. *)
From Zorg Require Import Base.PyStr Base.Res Base.Dates Model.Zid Model.FileListener Model.QueryListener Model.WriteBack
  Proofs.WriteBackFacts Model.PageSyntax Model.PageText Proofs.PageFacts Proofs.ItemWriteBack.

(* On abstract items (coq/Model/PageSyntax.v), any number of words: writing the ZID into the canonical text of a
   ZID-less item yields the canonical text of the item whose identity is that ZID - after the kind / priority
   prefix, in place of a leading long creation date, every other word untouched. With the page theorem (C01) the
   rewritten page therefore compiles to the same notes, now carrying their ZIDs ... *)
Theorem C05_zid_written_into_item : forall z it,
  zidless_ok it -> prio_ok it -> forallb no_space (z :: line_words it) = true ->
  add_zid_to_line z (render_item it) = Ok (render_item (with_zid z it)).
Proof. exact add_zid_item. Qed.

(* ... and the body _add_zids stores in the index IS the body of the note the rewritten line compiles to *)
Theorem C05_index_body_is_file_body : forall today ot op od key line z it,
  zidless_ok it -> z <> [] -> no_ws z = true -> no_space z = true ->
  clean_words (map word_text (item_words it)) -> forallb no_space (map word_text (item_words it)) = true ->
  (match i_ident it with ILong d => is_long_date_spec d = true | IPlain s => is_long_date_spec s = false | _ => True end) ->
  patch_body z (n_body (spec_note today ot op od key line it)) =
  n_body (spec_note today ot op od key line (with_zid z it)).
Proof. exact index_body_is_file_body. Qed.

Theorem C05_zid_after_kind : forall zid sym w r,
  sym <> [] -> forallb no_space (sym :: w :: r) = true -> is_prio_word w = false -> datelike10 w = false ->
  add_zid_to_line zid (join [sp] (sym :: w :: r)) = Ok (sym ++ S " " ++ zid ++ S " " ++ join [sp] (w :: r)).
Proof. exact add_zid_plain. Qed.
Theorem C05_zid_after_priority : forall zid sym p w r,
  sym <> [] -> forallb no_space (sym :: p :: w :: r) = true -> is_prio_word p = true -> datelike10 w = false ->
  add_zid_to_line zid (join [sp] (sym :: p :: w :: r)) =
  Ok (sym ++ S " " ++ p ++ S " " ++ zid ++ S " " ++ join [sp] (w :: r)).
Proof. exact add_zid_priority. Qed.
Theorem C05_zid_replaces_long_date : forall zid sym d r,
  sym <> [] -> forallb no_space (sym :: d :: r) = true -> is_prio_word d = false -> datelike10 d = true ->
  add_zid_to_line zid (join [sp] (sym :: d :: r)) = Ok (sym ++ S " " ++ zid ++ S " " ++ join [sp] r).
Proof. exact add_zid_replaces_long_date. Qed.

(* the body stored in the index is exactly the rest of the rewritten file line *)
Theorem C05_index_body_is_file_body_partial : forall zid sym w r,
  sym <> [] -> w <> [] -> no_ws w = true -> forallb no_space (sym :: w :: r) = true ->
  is_prio_word w = false -> datelike10 w = is_long_date_spec w ->
  add_zid_to_line zid (join [sp] (sym :: w :: r)) = Ok (sym ++ S " " ++ patch_body zid (join [sp] (w :: r))).
Proof. exact body_agrees_with_line. Qed.

(* only the first lines of the listed notes are rewritten *)
Theorem C05_other_lines_untouched : forall f notes ls ls',
  update_lines f notes ls = Ok ls' ->
  length ls' = length ls /\
  forall j, (forall n, In n notes -> fst n - 1 <> j) -> nth j ls' [] = nth j ls [].
Proof. exact update_touches_only_listed. Qed.

(* REFUTED: irregular spacing after the prefix *)
Theorem C05_irregular_spacing_refuted :
  add_zid_to_line (S "240601#00") (S "o  P1   foo") = Ok (S "o 240601#00  P1   foo") /\
  patch_body (S "240601#00") (S "P1   foo") = S "240601#00 P1   foo".
Proof. exact irregular_spacing_refuted. Qed.

Print Assumptions C05_zid_written_into_item.
Print Assumptions C05_index_body_is_file_body.
Print Assumptions C05_zid_after_kind.
Print Assumptions C05_zid_replaces_long_date.
Print Assumptions C05_index_body_is_file_body_partial.
Print Assumptions C05_other_lines_untouched.
Print Assumptions C05_irregular_spacing_refuted.
