(* C05 — After `db create` index and files agree; files change only to gain ZIDs.
   Proved: PAGE-level theorems on abstract pages (the write-back of ZIDs, run on the canonical text of ANY abstract
   page with the (line, ZID) pairs read off its notes, yields the canonical text of the same page with the ZIDs in
   identity position; with C01 that text compiles to the same notes, each now carrying its ZID), item- and
   line-level theorems, and the refutation for irregular spacing.  Which ZID goes to which line (_add_zids +
   the ZID manager, C07) and the SQL rows are covered by the harness run against the real `db create`. *)
From Zorg Require Import Base.PyStr Base.Res Base.Dates Model.Zid Model.FileListener Model.QueryListener Model.WriteBack
  Proofs.WriteBackFacts Model.PageSyntax Model.PageText Proofs.PageFacts Proofs.ItemWriteBack Model.PageLines
  Proofs.PageWriteBack.

(* The whole page. pg: any abstract page; zf: any choice of a ZID per line (the real choice is the ZID manager's);
   zid_targets zf (spec_page today pg) = the (line, ZID) pairs of the ZID-less notes of the page, in document order
   - what _add_zids hands _update_zo_file. The rewritten file is the canonical text of [zidded zf pg]: the same
   page, every ZID-less item now with identity = its ZID (after kind / priority, in place of a leading long
   creation date), every other line and every other word untouched. *)
Theorem C05_zids_written_into_page : forall today zf pg,
  zid_ready zf pg -> forallb (lacks nlc10) (map row_text (page_rows pg)) = true ->
  update_zo_file add_zid_to_line (zid_targets zf (spec_page today pg)) (page_text pg) = Ok (page_text (zidded zf pg)).
Proof. exact zids_written_into_page. Qed.

(* ... whose notes are the notes of pg, on the same lines, in the same order, each with its old ZID or the one
   chosen for its line (and, by C01_page_yields_exactly_its_notes applied to [zidded zf pg], these are exactly the
   notes the rewritten file compiles to) *)
Theorem C05_rewritten_page_notes : forall today zf pg,
  map (fun n => (n_line n, n_zid n)) (spec_page today (zidded zf pg)) =
  map (fun n => (n_line n, match n_zid n with Some z => Some z | None => Some (zf (n_line n)) end)) (spec_page today pg).
Proof. exact zidded_notes. Qed.
Theorem C05_rewritten_page_compiles : forall today zf pg,
  valid_page (zidded zf pg) ->
  exists secs, listen today false (tree_of_page (zidded zf pg)) = Ok (mkPage false (spec_page today (zidded zf pg)) secs).
Proof. intros today zf pg. apply page_correct. Qed.

(* the side conditions are decidable; the harness evaluates them on every generated page *)
Theorem C05_page_hypotheses_decidable : forall zf pg, zid_readyb zf pg = true -> zid_ready zf pg.
Proof. exact zid_readyb_sound. Qed.

(* On abstract items (coq/Model/PageSyntax.v), any number of words: writing the ZID into the canonical text of a
   ZID-less item yields the canonical text of the item whose identity is that ZID - after the kind / priority
   prefix, in place of a leading long creation date, every other word untouched. With the page theorem (C01) the
   rewritten page therefore compiles to the same notes, now carrying their ZIDs ... *)
Theorem C05_zid_written_into_item : forall z it,
  zidless_ok it -> prio_ok it -> forallb no_space (z :: line_words it) = true ->
  add_zid_to_line z (render_item it) = Ok (render_item (with_zid z it)).
Proof. exact add_zid_item. Qed.

(* ... and the body _add_zids stores in the index IS the body of the note the rewritten line compiles to *)
Theorem C05_index_body_is_file_body : forall today ot op od key line z it,
  zidless_ok it -> z <> [] -> no_ws z = true -> no_space z = true ->
  clean_words (map word_text (item_words it)) -> forallb no_space (map word_text (item_words it)) = true ->
  (match i_ident it with ILong d => is_long_date_spec d = true | IPlain s | IMod s => is_long_date_spec s = false | _ => True end) ->
  patch_body z (n_body (spec_note today ot op od key line it)) =
  n_body (spec_note today ot op od key line (with_zid z it)).
Proof. exact index_body_is_file_body. Qed.

Theorem C05_zid_after_kind : forall zid sym w r,
  sym <> [] -> forallb no_space (sym :: w :: r) = true -> is_prio_word w = false -> datelike10 w = false ->
  add_zid_to_line zid (join [sp] (sym :: w :: r)) = Ok (sym ++ S " " ++ zid ++ S " " ++ join [sp] (w :: r)).
Proof. exact add_zid_plain. Qed.
Theorem C05_zid_after_priority : forall zid sym p w r,
  sym <> [] -> forallb no_space (sym :: p :: w :: r) = true -> is_prio_word p = true -> datelike10 w = false ->
  add_zid_to_line zid (join [sp] (sym :: p :: w :: r)) =
  Ok (sym ++ S " " ++ p ++ S " " ++ zid ++ S " " ++ join [sp] (w :: r)).
Proof. exact add_zid_priority. Qed.
Theorem C05_zid_replaces_long_date : forall zid sym d r,
  sym <> [] -> forallb no_space (sym :: d :: r) = true -> is_prio_word d = false -> datelike10 d = true ->
  add_zid_to_line zid (join [sp] (sym :: d :: r)) = Ok (sym ++ S " " ++ zid ++ S " " ++ join [sp] r).
Proof. exact add_zid_replaces_long_date. Qed.

(* the body stored in the index is exactly the rest of the rewritten file line *)
Theorem C05_index_body_is_file_body_partial : forall zid sym w r,
  sym <> [] -> w <> [] -> no_ws w = true -> forallb no_space (sym :: w :: r) = true ->
  is_prio_word w = false -> datelike10 w = is_long_date_spec w ->
  add_zid_to_line zid (join [sp] (sym :: w :: r)) = Ok (sym ++ S " " ++ patch_body zid (join [sp] (w :: r))).
Proof. exact body_agrees_with_line. Qed.

(* only the first lines of the listed notes are rewritten *)
Theorem C05_other_lines_untouched : forall f notes ls ls',
  update_lines f notes ls = Ok ls' ->
  length ls' = length ls /\
  forall j, (forall n, In n notes -> fst n - 1 <> j) -> nth j ls' [] = nth j ls [].
Proof. exact update_touches_only_listed. Qed.

(* REFUTED: irregular spacing after the prefix *)
Theorem C05_irregular_spacing_refuted :
  add_zid_to_line (S "240601#00") (S "o  P1   foo") = Ok (S "o 240601#00  P1   foo") /\
  patch_body (S "240601#00") (S "P1   foo") = S "240601#00 P1   foo".
Proof. exact irregular_spacing_refuted. Qed.

(* REFUTED: an edited note that has no ZID yet (a modify date alone in identity position). The write-back puts the
   ZID in FRONT of the date, so in the rewritten file the date is a body word and the note's modify date is its
   creation date, while the index keeps the modify date read before the write-back. *)
Theorem C05_modify_date_without_zid_refuted :
  let today := mkDate 2024 6 1 in
  let it := mkItem (Some TOpen) None (IMod (S "240203")) [WId (S "foo")] in
  let e5 := [[]; []; []; []; []] in
  add_zid_to_line (S "240601#00") (render_item it) = Ok (S "o 240601#00 240203 foo") /\
  render_item (with_zid (S "240601#00") it) = S "o 240601#00 240203 foo" /\
  n_modify (spec_note today e5 e5 [None; None; None; None; None] [0] 3 it) = mkDate 2024 2 3 /\
  n_modify (spec_note today e5 e5 [None; None; None; None; None] [0] 3 (with_zid (S "240601#00") it)) = mkDate 2024 6 1.
Proof. cbv zeta. repeat split; vm_compute; reflexivity. Qed.

Print Assumptions C05_modify_date_without_zid_refuted.
Print Assumptions C05_zids_written_into_page.
Print Assumptions C05_rewritten_page_notes.
Print Assumptions C05_rewritten_page_compiles.
Print Assumptions C05_page_hypotheses_decidable.
Print Assumptions C05_zid_written_into_item.
Print Assumptions C05_index_body_is_file_body.
Print Assumptions C05_zid_after_kind.
Print Assumptions C05_zid_replaces_long_date.
Print Assumptions C05_index_body_is_file_body_partial.
Print Assumptions C05_other_lines_untouched.
Print Assumptions C05_irregular_spacing_refuted.
