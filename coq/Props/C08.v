(* C08 — Indexing never crashes on any file and never silently drops a broken one.
   The listener model runs on ANY parse tree (recovered ones included). *)
From Zorg Require Import Base.PyStr Base.Res Base.Dates Model.FileListener Model.Witness Proofs.FileListenerFacts
  Model.Whitelist Proofs.WhitelistFacts.

(* Whatever tree the parser's error recovery produces: if the parser reported a
   syntax error, no note of the page is ever indexed (never a partial page) ... *)
Theorem C08_errors_index_nothing : forall today t pg,
  listen today true t = Ok pg -> p_notes pg = [].
Proof. exact errors_no_notes. Qed.

(* ... and if it reported none, the page is not flagged. *)
Theorem C08_valid_not_flagged : forall today t pg,
  listen today false t = Ok pg -> p_has_errors pg = false.
Proof. exact no_errors_not_flagged. Qed.

(* `db create` / `db reindex` refuse a flagged page unless it is whitelisted - by NAME (a line of the whitelist
   file), for any number of pages in any order; an accepted `db create` rewrites the whitelist to exactly the
   flagged pages.  pages = (relative path, Page.has_errors) in processing order. *)
Theorem C08_create_refuses_unlisted : forall update old_text pages,
  (exists p, In (p, true) pages /\ mem_str p (wl_lines old_text) = false /\ update = false) ->
  create_wl update old_text pages = Exn (S "RuntimeError").
Proof. exact create_decision. Qed.

Theorem C08_create_accepts_listed : forall update old_text pages,
  (forall p, In (p, true) pages -> mem_str p (wl_lines old_text) = true \/ update = true) ->
  create_wl update old_text pages = Ok (wl_text (map fst (filter snd pages))).
Proof. exact create_accepts. Qed.

Theorem C08_reindex_refuses_unlisted : forall old_text pages p,
  In (p, true) pages -> mem_str p (wl_lines old_text) = false ->
  reindex_wl old_text pages = Exn (S "RuntimeError").
Proof. exact reindex_refuses. Qed.

Theorem C08_reindex_accepts_listed : forall old_text pages,
  (forall p, In (p, true) pages -> mem_str p (wl_lines old_text) = true) ->
  NoDup (map fst pages) ->
  exists l, reindex_wl old_text pages = Ok (wl_text l).
Proof. exact reindex_accepts. Qed.

(* REFUTED (known findings): the full statement says compilation never raises and
   a page with syntax errors is always flagged.  Witnesses, on trees exported
   from the real parser: *)
Theorem C08_silent_drop_refuted :       (* "garbage": syntax errors, yet not flagged and indexed empty *)
  exists pg, listen (mkDate 2024 6 1) true w_garbage = Ok pg /\ p_has_errors pg = false /\ p_notes pg = [].
Proof. eexists. split; [vm_compute; reflexivity|split; reflexivity]. Qed.

Theorem C08_invalid_date_refuted :      (* "- 241301 x": no syntax error, ValueError *)
  listen (mkDate 2024 6 1) false w_bad_date = Exn (S "ValueError").
Proof. vm_compute. reflexivity. Qed.

Theorem C08_empty_bullet_refuted :      (* a date-only bullet next to a property bullet: IndexError *)
  listen (mkDate 2024 6 1) false w_empty_bullet = Exn (S "IndexError").
Proof. vm_compute. reflexivity. Qed.

Example C08_example :                   (* non-vacuity: a valid page compiles to its note *)
  exists pg, listen (mkDate 2024 6 1) false w_ok = Ok pg /\ length (p_notes pg) = 1 /\ p_has_errors pg = false.
Proof. eexists. split; [vm_compute; reflexivity|split; reflexivity]. Qed.

Print Assumptions C08_errors_index_nothing.
Print Assumptions C08_valid_not_flagged.
Print Assumptions C08_create_refuses_unlisted.
Print Assumptions C08_create_accepts_listed.
Print Assumptions C08_reindex_refuses_unlisted.
Print Assumptions C08_reindex_accepts_listed.
Print Assumptions C08_silent_drop_refuted.
Print Assumptions C08_invalid_date_refuted.
Print Assumptions C08_empty_bullet_refuted.
