(* C08 — Indexing never crashes on any file and never silently drops a broken one.
   The listener model runs on ANY parse tree (recovered ones included). *)
From Zorg Require Import Base.PyStr Base.Res Base.Dates Model.FileListener Model.Witness Proofs.FileListenerFacts.

(* Whatever tree the parser's error recovery produces: if the parser reported a
   syntax error, no note of the page is ever indexed (never a partial page) ... *)
Theorem C08_errors_index_nothing : forall today t pg,
  listen today true t = Ok pg -> p_notes pg = [].
Proof. exact errors_no_notes. Qed.

(* ... and if it reported none, the page is not flagged. *)
Theorem C08_valid_not_flagged : forall today t pg,
  listen today false t = Ok pg -> p_has_errors pg = false.
Proof. exact no_errors_not_flagged. Qed.

(* REFUTED (known findings): the full statement says compilation never raises and
   a page with syntax errors is always flagged.  Witnesses, on trees exported
   from the real parser: *)
Theorem C08_silent_drop_refuted :       (* "garbage": syntax errors, yet not flagged and indexed empty *)
  exists pg, listen (mkDate 2024 6 1) true w_garbage = Ok pg /\ p_has_errors pg = false /\ p_notes pg = [].
Proof. eexists. split; [vm_compute; reflexivity|split; reflexivity]. Qed.

Theorem C08_invalid_date_refuted :      (* "- 241301 x": no syntax error, ValueError *)
  listen (mkDate 2024 6 1) false w_bad_date = Exn (S "ValueError").
Proof. vm_compute. reflexivity. Qed.

Theorem C08_empty_bullet_refuted :      (* a date-only bullet next to a property bullet: IndexError *)
  listen (mkDate 2024 6 1) false w_empty_bullet = Exn (S "IndexError").
Proof. vm_compute. reflexivity. Qed.

Example C08_example :                   (* non-vacuity: a valid page compiles to its note *)
  exists pg, listen (mkDate 2024 6 1) false w_ok = Ok pg /\ length (p_notes pg) = 1 /\ p_has_errors pg = false.
Proof. eexists. split; [vm_compute; reflexivity|split; reflexivity]. Qed.

Print Assumptions C08_errors_index_nothing.
Print Assumptions C08_valid_not_flagged.
Print Assumptions C08_silent_drop_refuted.
Print Assumptions C08_invalid_date_refuted.
Print Assumptions C08_empty_bullet_refuted.
