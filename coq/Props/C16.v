(* C16 — Template initialisation never overwrites existing files.
   Regex matching and jinja2 rendering are Section variables (oracles). *)
From Zorg Require Import Base.PyStr Base.Sexp Base.Res Base.Dates Model.Templates Proofs.TemplatesFacts.

Theorem C16_no_clobber : forall pmatch render fs pats path template vars,
  fs_exists (norm_path path) fs = true ->
  init pmatch render fs pats path template vars false = Ok fs.
Proof. exact no_clobber. Qed.

Theorem C16_no_match_no_write : forall pmatch render fs pats path vars ow,
  first_match pmatch pats (norm_path path) = None ->
  init pmatch render fs pats path None vars ow = Ok fs.
Proof. exact no_match_no_write. Qed.

Theorem C16_first_match_characterised : forall pmatch pats path tmpl g,
  first_match pmatch pats path = Some (tmpl, g) <->
  exists l1 pat l2, pats = l1 ++ (pat, tmpl) :: l2 /\ pmatch pat path = Some g /\
                    forall p t, In (p, t) l1 -> pmatch p path = None.
Proof. exact first_match_split. Qed.

Theorem C16_writes_first_match : forall pmatch render fs pats path template vars tmpl g text pv out,
  fs_exists (norm_path path) fs = false ->
  first_match pmatch pats (norm_path path) = Some (tmpl, g) ->
  fs_lookup (norm_path tmpl) fs = Some text ->
  process_vars (vm_union vars g) = Ok pv ->
  render (build_body text) pv = Ok out ->
  init pmatch render fs pats path template vars false = Ok (fs_write (norm_path path) out fs).
Proof. exact writes_first_match. Qed.

Theorem C16_idempotent : forall pmatch render fs pats path template vars fs',
  init pmatch render fs pats path template vars false = Ok fs' ->
  init pmatch render fs' pats path template vars false = Ok fs'.
Proof. exact idempotent. Qed.

(* the template body: the header block up to the first blank line is dropped *)
Theorem C16_body : forall hdr blank rest,
  forallb (fun l => negb (is_blank l)) hdr = true -> is_blank blank = true ->
  body_lines (hdr ++ blank :: rest) false = map fix_line rest.
Proof. exact body_lines_header. Qed.

Example C16_example :
  build_body (S "# template" ++ [nl] ++ S "# more" ++ [nl] ++ [nl] ++ S "## {{ x }}" ++ [nl] ++ S "- body" ++ [nl])
  = S "# {{ x }}" ++ [nl] ++ S "- body" ++ [nl]
  /\ process_var (S "20240105") = Ok (VDate (mkDate 2024 1 5))
  /\ process_var (S "20241305") = Exn (S "ValueError")
  /\ process_var (S "2024-01-05") = Ok (VStr (S "2024-01-05")).
Proof. vm_compute. auto. Qed.

Print Assumptions C16_no_clobber.
Print Assumptions C16_no_match_no_write.
Print Assumptions C16_first_match_characterised.
Print Assumptions C16_writes_first_match.
Print Assumptions C16_idempotent.
Print Assumptions C16_body.
