(* Result of a modelled Python computation. *)
From Zorg Require Import Base.PyStr Base.Sexp.

Inductive res (A : Type) :=
| Ok (a : A)
| Exn (kind : str)      (* a Python exception of that class *)
| OutOfModel            (* the transcription deliberately stops here *)
| OutOfFuel.
Arguments Ok {A} a.
Arguments Exn {A} kind.
Arguments OutOfModel {A}.
Arguments OutOfFuel {A}.

Definition bind {A B} (r : res A) (f : A -> res B) : res B :=
  match r with
  | Ok a => f a
  | Exn k => Exn k
  | OutOfModel => OutOfModel
  | OutOfFuel => OutOfFuel
  end.
Definition rmap {A B} (f : A -> B) (r : res A) : res B := bind r (fun a => Ok (f a)).
Notation "x <- r ;; k" := (bind r (fun x => k)) (at level 61, r at next level, right associativity).

Definition is_ok {A} (r : res A) : bool := match r with Ok _ => true | _ => false end.

(* left-to-right evaluation, first failure wins *)
Fixpoint concat_res {A} (l : list (res (list A))) : res (list A) :=
  match l with
  | [] => Ok []
  | r :: l' => a <- r ;; b <- concat_res l' ;; Ok (a ++ b)
  end.
Fixpoint seq_res {A} (l : list (res A)) : res (list A) :=
  match l with
  | [] => Ok []
  | r :: l' => a <- r ;; b <- seq_res l' ;; Ok (a :: b)
  end.

Definition sRes {A} (f : A -> sexp) (r : res A) : sexp :=
  match r with
  | Ok a => L [sA "ok"; f a]
  | Exn k => L [sA "exn"; SA k]
  | OutOfModel => L [sA "oom"]
  | OutOfFuel => L [sA "fuel"]
  end.
