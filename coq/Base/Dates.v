(* Calendar arithmetic as CPython's datetime / dateutil.relativedelta do it. *)
From Zorg Require Import Base.PyStr.
Local Open Scope Z_scope.

Record date := mkDate { yr : Z; mo : Z; dy : Z }.

Definition date_eqb (a b : date) : bool :=
  (yr a =? yr b) && (mo a =? mo b) && (dy a =? dy b).

Definition is_leap (y : Z) : bool :=
  (y mod 4 =? 0) && (negb (y mod 100 =? 0) || (y mod 400 =? 0)).

Definition dim (y m : Z) : Z :=
  if m =? 2 then (if is_leap y then 29 else 28)
  else if (m =? 4) || (m =? 6) || (m =? 9) || (m =? 11) then 30 else 31.

Definition valid (d : date) : bool :=
  (1 <=? yr d) && (yr d <=? 9999) && (1 <=? mo d) && (mo d <=? 12) &&
  (1 <=? dy d) && (dy d <=? dim (yr d) (mo d)).

Definition days_before_year (y : Z) : Z :=
  let y' := y - 1 in y' * 365 + y' / 4 - y' / 100 + y' / 400.

(* _DAYS_BEFORE_MONTH of datetime.py, index 1..12 *)
Definition dbm_table (m : Z) : Z :=
  match m with
  | 1 => 0 | 2 => 31 | 3 => 59 | 4 => 90 | 5 => 120 | 6 => 151 | 7 => 181
  | 8 => 212 | 9 => 243 | 10 => 273 | 11 => 304 | 12 => 334 | _ => 0
  end.
Definition days_before_month (y m : Z) : Z :=
  dbm_table m + (if (2 <? m) && is_leap y then 1 else 0).

(* date.toordinal() *)
Definition ordinal (d : date) : Z :=
  days_before_year (yr d) + days_before_month (yr d) (mo d) + dy d.

(* datetime._ord2ymd *)
Definition of_ordinal (n0 : Z) : date :=
  let n := n0 - 1 in
  let n400 := n / 146097 in let n := n mod 146097 in
  let n100 := n / 36524 in let n := n mod 36524 in
  let n4 := n / 1461 in let n := n mod 1461 in
  let n1 := n / 365 in let n := n mod 365 in
  let year := n400 * 400 + 1 + n100 * 100 + n4 * 4 + n1 in
  if (n1 =? 4) || (n100 =? 4) then mkDate (year - 1) 12 31
  else
    let leapyear := (n1 =? 3) && (negb (n4 =? 24) || (n100 =? 3)) in
    let month := (n + 50) / 32 in
    let preceding := dbm_table month + (if (2 <? month) && leapyear then 1 else 0) in
    if n <? preceding then
      let month' := month - 1 in
      let dimm := if (month' =? 2) && leapyear then 29 else dim 2001 month' in
      let preceding' := preceding - dimm in
      mkDate year month' (n - preceding' + 1)
    else mkDate year month (n - preceding + 1).

Definition add_days (d : date) (n : Z) : date := of_ordinal (ordinal d + n).

(* d + relativedelta(months=n): year/month normalised, day clamped *)
Definition add_months (d : date) (n : Z) : date :=
  let t := yr d * 12 + (mo d - 1) + n in
  let y := t / 12 in let m := t mod 12 + 1 in
  mkDate y m (Z.min (dy d) (dim y m)).

Definition add_years (d : date) (n : Z) : date :=
  let y := yr d + n in mkDate y (mo d) (Z.min (dy d) (dim y (mo d))).

Definition date_ltb (a b : date) : bool := ordinal a <? ordinal b.
Definition date_leb (a b : date) : bool := ordinal a <=? ordinal b.

(* strftime("%Y%m%d") for 1000 <= year <= 9999 *)
Definition fmt_ymd (d : date) : str :=
  pad0 4 (str_of_Z (yr d)) ++ pad0 2 (str_of_Z (mo d)) ++ pad0 2 (str_of_Z (dy d)).
Definition fmt_long (d : date) : str :=
  pad0 4 (str_of_Z (yr d)) ++ S "-" ++ pad0 2 (str_of_Z (mo d)) ++ S "-" ++ pad0 2 (str_of_Z (dy d)).
(* to_short_date_spec: YYMMDD *)
Definition fmt_short (d : date) : str := skipn 2 (fmt_ymd d).

(* strptime(s, "%Y%m%d") on exactly 8 digits; None = ValueError *)
Definition parse_ymd8 (s : str) : option date :=
  if (length s =? 8)%nat && all_digits s then
    let d := mkDate (Z_of_digits (firstn 4 s)) (Z_of_digits (firstn 2 (skipn 4 s)))
                    (Z_of_digits (skipn 6 s)) in
    if valid d then Some d else None
  else None.
(* strptime(s, "%Y-%m-%d") on DDDD-DD-DD *)
Definition parse_long (s : str) : option date :=
  match s with
  | [a;b;c;d;m1;e;f;m2;g;h] =>
      if ceqb m1 (ch "-") && ceqb m2 (ch "-") && all_digits [a;b;c;d;e;f;g;h] then
        let dt := mkDate (Z_of_digits [a;b;c;d]) (Z_of_digits [e;f]) (Z_of_digits [g;h]) in
        if valid dt then Some dt else None
      else None
  | _ => None
  end.
