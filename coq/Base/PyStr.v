(* Python [str] operations used by zorg, over ASCII strings as [list ascii].
   Definitions only (executable); lemmas live in Proofs/PyStrFacts.v. *)
From Coq Require Export String.
From Coq Require Export List Ascii Bool Arith ZArith Lia.
Export ListNotations.
Notation length := List.length.
Open Scope list_scope.

Definition str := list ascii.

Definition S (s : string) : str := list_ascii_of_string s.

Definition ch (s : string) : ascii :=
  match s with String c _ => c | EmptyString => "000"%char end.

Definition ceqb (a b : ascii) : bool := Ascii.eqb a b.
Arguments ceqb : simpl never.

Fixpoint eqb_str (a b : str) : bool :=
  match a, b with
  | [], [] => true
  | x :: a', y :: b' => ceqb x y && eqb_str a' b'
  | _, _ => false
  end.

Definition code (c : ascii) : nat := nat_of_ascii c.
Definition ncode (c : ascii) : N := N_of_ascii c.
Definition between (lo hi : N) (c : ascii) : bool := (N.leb lo (ncode c)) && (N.leb (ncode c) hi).

Definition is_digit (c : ascii) : bool := between 48 57 c.
Definition is_upper (c : ascii) : bool := between 65 90 c.
Definition is_lower (c : ascii) : bool := between 97 122 c.
Definition is_alpha (c : ascii) : bool := is_upper c || is_lower c.
Definition is_alnum (c : ascii) : bool := is_alpha c || is_digit c.
(* Python str.isspace for ASCII: \t \n \v \f \r, FS GS RS US, space *)
Definition is_space (c : ascii) : bool := between 9 13 c || between 28 32 c.

Definition all_digits (s : str) : bool := forallb is_digit s.
(* str.isdigit(): non-empty and all digits *)
Definition isdigit (s : str) : bool :=
  match s with [] => false | _ => forallb is_digit s end.

(* str.islower(): at least one cased character and no uppercase one *)
Definition islower (s : str) : bool :=
  existsb is_lower s && negb (existsb is_upper s).

Definition upper_c (c : ascii) : ascii :=
  if is_lower c then ascii_of_nat (code c - 32) else c.
Definition lower_c (c : ascii) : ascii :=
  if is_upper c then ascii_of_nat (code c + 32) else c.
Definition upper (s : str) : str := map upper_c s.
Definition lower (s : str) : str := map lower_c s.

Fixpoint startswith (p s : str) : bool :=
  match p, s with
  | [], _ => true
  | x :: p', y :: s' => ceqb x y && startswith p' s'
  | _ :: _, [] => false
  end.

Definition endswith (p s : str) : bool := startswith (rev p) (rev s).

(* [sub in s] *)
Fixpoint contains (sub s : str) : bool :=
  startswith sub s ||
  match s with [] => false | _ :: s' => contains sub s' end.

(* s.find(sub): index of first occurrence *)
Fixpoint find_from (sub s : str) (i : nat) : option nat :=
  if startswith sub s then Some i else
  match s with [] => None | _ :: s' => find_from sub s' (Datatypes.S i) end.
Definition find (sub s : str) : option nat := find_from sub s 0.

(* s.replace(old, new) for non-empty [old]: left to right, non overlapping.
   Recursion on fuel >= length s. *)
Fixpoint replace_fuel (fuel : nat) (old new s : str) : str :=
  match fuel with
  | O => s
  | Datatypes.S f =>
      match s with
      | [] => []
      | c :: s' =>
          if startswith old s then new ++ replace_fuel f old new (skipn (length old) s)
          else c :: replace_fuel f old new s'
      end
  end.
Definition replace (old new s : str) : str :=
  match old with [] => s | _ => replace_fuel (length s) old new s end.

(* s.split(c) for a one-character separator *)
Fixpoint split_on (c : ascii) (s : str) : list str :=
  match s with
  | [] => [[]]
  | x :: s' =>
      if ceqb x c then [] :: split_on c s'
      else match split_on c s' with
           | [] => [[x]]
           | w :: ws => (x :: w) :: ws
           end
  end.

(* s.split(sep) for a non-empty multi-character separator *)
Fixpoint split_str_go (sep s : str) (skip : nat) (cur : str) : list str :=
  match s with
  | [] => [rev cur]
  | c :: s' =>
      match skip with
      | Datatypes.S k => split_str_go sep s' k cur
      | O => if startswith sep s
             then rev cur :: split_str_go sep s' (length sep - 1) []
             else split_str_go sep s' 0 (c :: cur)
      end
  end.
Definition split_str (sep s : str) : list str := split_str_go sep s 0 [].

(* s.split(sep, 1) *)
Fixpoint split1_go (sep s : str) (cur : str) : list str :=
  match s with
  | [] => [rev cur]
  | c :: s' => if startswith sep s then [rev cur; skipn (length sep) s]
               else split1_go sep s' (c :: cur)
  end.
Definition split1 (sep s : str) : list str := split1_go sep s [].

(* s.split(): runs of whitespace separate, no empty strings *)
Fixpoint split_ws_go (s : str) (cur : str) : list str :=
  match s with
  | [] => match cur with [] => [] | _ => [rev cur] end
  | c :: s' =>
      if is_space c
      then match cur with [] => split_ws_go s' [] | _ => rev cur :: split_ws_go s' [] end
      else split_ws_go s' (c :: cur)
  end.
Definition split_ws (s : str) : list str := split_ws_go s [].

Fixpoint join (sep : str) (l : list str) : str :=
  match l with
  | [] => []
  | [x] => x
  | x :: l' => x ++ sep ++ join sep l'
  end.

Fixpoint dropwhile {A} (p : A -> bool) (l : list A) : list A :=
  match l with
  | [] => []
  | x :: l' => if p x then dropwhile p l' else l
  end.
Fixpoint takewhile {A} (p : A -> bool) (l : list A) : list A :=
  match l with
  | [] => []
  | x :: l' => if p x then x :: takewhile p l' else []
  end.

Definition lstrip (s : str) : str := dropwhile is_space s.
Definition rstrip (s : str) : str := rev (dropwhile is_space (rev s)).
Definition strip (s : str) : str := rstrip (lstrip s).

Definition mem_c (c : ascii) (cs : str) : bool := existsb (ceqb c) cs.
Definition lstrip_chars (cs s : str) : str := dropwhile (fun c => mem_c c cs) s.
Definition rstrip_chars (cs s : str) : str := rev (dropwhile (fun c => mem_c c cs) (rev s)).
Definition strip_chars (cs s : str) : str := rstrip_chars cs (lstrip_chars cs s).

(* slicing helpers *)
Definition slice_from (n : nat) (s : str) : str := skipn n s.          (* s[n:] *)
Definition slice_to (n : nat) (s : str) : str := firstn n s.           (* s[:n] *)
Definition drop_last (n : nat) (s : str) : str := firstn (length s - n) s. (* s[:-n], n>0 *)
Definition last_n (n : nat) (s : str) : str := skipn (length s - n) s.  (* s[-n:] *)

(* code point ordering *)
Fixpoint str_ltb (a b : str) : bool :=
  match a, b with
  | [], [] => false
  | [], _ :: _ => true
  | _ :: _, [] => false
  | x :: a', y :: b' =>
      if N.ltb (ncode x) (ncode y) then true
      else if N.ltb (ncode y) (ncode x) then false
      else str_ltb a' b'
  end.
Definition str_leb (a b : str) : bool := negb (str_ltb b a).

Definition mem_str (x : str) (l : list str) : bool := existsb (eqb_str x) l.

(* stable insertion sort *)
Section Sort.
  Context {A : Type} (leb : A -> A -> bool).
  Fixpoint insert (x : A) (l : list A) : list A :=
    match l with
    | [] => [x]
    | y :: l' => if leb x y then x :: l else y :: insert x l'
    end.
  (* stable: a later equal element is placed after earlier equal ones, so we
     insert from the right with a strict test *)
  Fixpoint isort (l : list A) : list A :=
    match l with
    | [] => []
    | x :: l' => insert x (isort l')
    end.
End Sort.

Definition sort_str (l : list str) : list str := isort str_leb l.

Fixpoint dedup (l : list str) : list str :=
  match l with
  | [] => []
  | x :: l' => if mem_str x l' then dedup l' else x :: dedup l'
  end.

(* sorted(set(l)) *)
Definition sorted_set (l : list str) : list str := sort_str (dedup l).

(* first-occurrence de-duplication (order preserving) *)
Fixpoint uniq_go (seen l : list str) : list str :=
  match l with
  | [] => []
  | x :: l' => if mem_str x seen then uniq_go seen l' else x :: uniq_go (x :: seen) l'
  end.
Definition uniq (l : list str) : list str := uniq_go [] l.

(* decimal *)
Definition digit_val (c : ascii) : nat := code c - 48.
Definition nat_of_digits (s : str) : nat :=
  fold_left (fun acc c => acc * 10 + digit_val c) s 0.
Definition Z_of_digits (s : str) : Z :=
  fold_left (fun acc c => (acc * 10 + Z.of_nat (digit_val c))%Z) s 0%Z.

Definition digit_c (n : nat) : ascii := ascii_of_nat (48 + n).
Fixpoint digits_of_Z_fuel (fuel : nat) (z : Z) (acc : str) : str :=
  match fuel with
  | O => acc
  | Datatypes.S f =>
      let acc' := digit_c (Z.to_nat (z mod 10)) :: acc in
      if (z / 10 =? 0)%Z then acc' else digits_of_Z_fuel f (z / 10)%Z acc'
  end.
(* up to 40 decimal digits *)
Definition str_of_Zpos (z : Z) : str := digits_of_Z_fuel 40 z [].
Definition str_of_Z (z : Z) : str :=
  match z with
  | Z0 => S "0"
  | Zpos _ => str_of_Zpos z
  | Zneg _ => ch "-" :: str_of_Zpos (Z.opp z)
  end.
Definition str_of_nat (n : nat) : str := str_of_Z (Z.of_nat n).

(* zero-padded to width w *)
Definition pad0 (w : nat) (s : str) : str := repeat (ch "0") (w - length s) ++ s.

Definition nth_str (n : nat) (l : list str) : option str := nth_error l n.
