(* S-expressions: the wire format between the Python harness and the
   extracted engine.  Encoders/decoders are Gallina so that the same
   dispatcher also runs under vm_compute. *)
From Zorg Require Import Base.PyStr.

Inductive sexp := SA (a : str) | SL (l : list sexp).
Notation L := SL.

Definition sA (s : string) : sexp := SA (S s).
Definition sN (n : nat) : sexp := SA (str_of_nat n).
Definition sZ (z : Z) : sexp := SA (str_of_Z z).
Definition sB (b : bool) : sexp := SA (S (if b then "t" else "f")).
Definition sStr (s : str) : sexp := SA s.
Definition sList {X} (f : X -> sexp) (l : list X) : sexp := L (map f l).
Definition sOpt {X} (f : X -> sexp) (o : option X) : sexp :=
  match o with None => L [] | Some x => L [f x] end.
Definition sPair {X Y} (f : X -> sexp) (g : Y -> sexp) (p : X * Y) : sexp :=
  L [f (fst p); g (snd p)].

Definition err (s : string) : sexp := L [sA "ERR"; sA s].

Definition getA (x : sexp) : option str := match x with SA a => Some a | _ => None end.
Definition getL (x : sexp) : option (list sexp) := match x with L l => Some l | _ => None end.

Definition dStr (x : sexp) : str := match x with SA a => a | _ => [] end.
Definition dList {X} (f : sexp -> X) (x : sexp) : list X :=
  match x with L l => map f l | _ => [] end.
Definition dNat (x : sexp) : nat := nat_of_digits (dStr x).
Definition dZ (x : sexp) : Z :=
  match dStr x with
  | c :: r => if ceqb c (ch "-") then Z.opp (Z_of_digits r) else Z_of_digits (c :: r)
  | [] => 0%Z
  end.
Definition dBool (x : sexp) : bool := eqb_str (dStr x) (S "t").
Definition dOpt {X} (f : sexp -> X) (x : sexp) : option X :=
  match x with L [y] => Some (f y) | _ => None end.
Definition dPair {X Y} (f : sexp -> X) (g : sexp -> Y) (x : sexp) (dx : X) (dy : Y) : X * Y :=
  match x with L [a; b] => (f a, g b) | _ => (dx, dy) end.
Definition nthS (n : nat) (x : sexp) : sexp :=
  match x with L l => nth n l (L []) | _ => L [] end.
