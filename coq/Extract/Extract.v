From Coq Require Import ExtrOcamlBasic ExtrOcamlString.
From Zorg Require Import Extract.Engine.
Extraction Language OCaml.
Extraction "engine.ml" dispatch.
