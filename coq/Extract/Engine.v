(* Command dispatcher of the extracted engine. *)
From Zorg Require Import Base.PyStr Base.Sexp Base.Res.
From Zorg Require Import Model.FileGroups Model.Zid Model.Rename Model.Templates Model.SavedQ Model.ActionOpen Model.FileListener Model.NoteText Model.Executor Model.Move Model.QueryListener Model.Where Model.WriteBack Model.WorldWire Model.PageSyntax Model.Whitelist Model.QuerySyntax Model.PageText Model.PageLines.

Definition commands : list (str * (list sexp -> sexp)) :=
  [ (S "expand", cmd_expand)
  ; (S "next_id", cmd_next_id)
  ; (S "next_ids", cmd_next_ids)
  ; (S "zid_hist", cmd_zid_hist)
  ; (S "is_zid", cmd_is_zid)
  ; (S "zid_chars", cmd_zid_chars)
  ; (S "rename_text", cmd_rename_text)
  ; (S "rename_dir", cmd_rename_dir)
  ; (S "tmpl_plan", cmd_tmpl_plan)
  ; (S "build_body", cmd_build_body)
  ; (S "expand_saved", cmd_expand_saved)
  ; (S "names_in", cmd_names_in)
  ; (S "action", cmd_action)
  ; (S "targets", cmd_targets)
  ; (S "listen", cmd_listen)
  ; (S "page_tree", cmd_page_tree)
  ; (S "page_spec", cmd_page_spec)
  ; (S "page_valid", cmd_page_valid)
  ; (S "create_wl", cmd_create_wl)
  ; (S "query_tree", cmd_query_tree)
  ; (S "item_text", cmd_item_text)
  ; (S "item_tidy", cmd_item_tidy)
  ; (S "item_emit", cmd_item_emit)
  ; (S "query_spec", cmd_query_spec)
  ; (S "reindex_wl", cmd_reindex_wl)
  ; (S "to_string", cmd_to_string)
  ; (S "execute", cmd_execute)
  ; (S "move", cmd_move)
  ; (S "qlisten", cmd_qlisten)
  ; (S "process_query", cmd_process_query)
  ; (S "eval_where", cmd_eval_where)
  ; (S "add_zid_to_line", cmd_add_zid_to_line)
  ; (S "add_mdate", cmd_add_mdate)
  ; (S "patch_body", cmd_patch_body)
  ; (S "update_zo", cmd_update_zo)
  ; (S "stamp", cmd_stamp)
  ; (S "world_run", cmd_world_run)
  ; (S "page_text", cmd_page_text)
  ; (S "page_zid_text", cmd_page_zid_text)
  ; (S "page_zid_lines", cmd_page_zid_lines)
  ; (S "page_zid_ready", cmd_page_zid_ready)
  ; (S "page_mdate_text", cmd_page_mdate_text)
  ; (S "page_mdate_ready", cmd_page_mdate_ready)
  ].

Fixpoint find_cmd (n : str) (l : list (str * (list sexp -> sexp))) : option (list sexp -> sexp) :=
  match l with
  | [] => None
  | (k, f) :: l' => if eqb_str n k then Some f else find_cmd n l'
  end.

Definition dispatch (x : sexp) : sexp :=
  match x with
  | SL (SA n :: args) =>
      match find_cmd n commands with
      | Some f => f args
      | None => err "unknown command"
      end
  | _ => err "bad request"
  end.
