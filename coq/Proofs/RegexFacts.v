From Zorg Require Import Base.PyStr Lex.Regex.

Lemma Matches_emp s : ~ Matches Emp s.
Proof. intros H; inversion H. Qed.

Lemma seq_inv a b s : Matches (Seq a b) s ->
  exists s1 s2, s = s1 ++ s2 /\ Matches a s1 /\ Matches b s2.
Proof. intros H; inversion H; subst; eauto. Qed.
Lemma alt_inv a b s : Matches (Alt a b) s -> Matches a s \/ Matches b s.
Proof. intros H; inversion H; subst; auto. Qed.
Lemma rng_inv lo hi s : Matches (Rng lo hi) s -> exists c, s = [c] /\ in_rng lo hi c = true.
Proof. intros H; inversion H; subst; eauto. Qed.
Lemma eps_inv s : Matches Eps s -> s = [].
Proof. intros H; inversion H; subst; auto. Qed.

Lemma mkSeq_iff a b s : Matches (mkSeq a b) s <-> Matches (Seq a b) s.
Proof.
  split.
  - unfold mkSeq. destruct a; destruct b; intros H; try exact H;
      try (exfalso; exact (Matches_emp _ H));
      (change s with ([] ++ s); constructor; [constructor|exact H]).
  - intros H. apply seq_inv in H. destruct H as (s1 & s2 & -> & H1 & H2).
    unfold mkSeq. destruct a; destruct b;
      try (exfalso; exact (Matches_emp _ H1)); try (exfalso; exact (Matches_emp _ H2));
      try (apply eps_inv in H1; subst; simpl; exact H2);
      (constructor; assumption).
Qed.

Lemma mkAlt_iff a b s : Matches (mkAlt a b) s <-> Matches (Alt a b) s.
Proof.
  split.
  - unfold mkAlt. destruct a; destruct b; intros H; try exact H;
      try (apply M_altr; exact H); try (apply M_altl; exact H).
  - intros H. apply alt_inv in H. unfold mkAlt.
    destruct H as [H|H]; destruct a; destruct b;
      try (exfalso; exact (Matches_emp _ H)); try exact H;
      try (apply M_altl; exact H); try (apply M_altr; exact H).
Qed.

Lemma nullable_iff r : nullable r = true <-> Matches r [].
Proof.
  induction r; simpl.
  - split; intros H; [discriminate|inversion H].
  - split; intros H; [constructor|reflexivity].
  - split; intros H; [discriminate|inversion H].
  - split; intros H.
    + apply andb_prop in H. destruct H as [H1 H2].
      change (@nil ascii) with (@nil ascii ++ []). constructor; [apply IHr1|apply IHr2]; assumption.
    + apply seq_inv in H. destruct H as (s1 & s2 & E & H1 & H2).
      symmetry in E. apply app_eq_nil in E. destruct E; subst.
      apply andb_true_intro. split; [apply IHr1|apply IHr2]; assumption.
  - split; intros H.
    + apply orb_prop in H. destruct H; [apply M_altl, IHr1|apply M_altr, IHr2]; assumption.
    + apply alt_inv in H. apply orb_true_intro.
      destruct H; [left; apply IHr1|right; apply IHr2]; assumption.
  - split; intros H; [constructor|reflexivity].
Qed.

Lemma star_cons_inv a c s :
  Matches (Star a) (c :: s) ->
  exists s1 s2, s = s1 ++ s2 /\ Matches a (c :: s1) /\ Matches (Star a) s2.
Proof.
  intros H. remember (Star a) as r eqn:Hr. remember (c :: s) as cs eqn:Hcs.
  revert a c s Hr Hcs.
  induction H as [| | | | | |a' s' t' H1 IH1 H2 IH2]; intros a0 c0 s0 Hr Hcs; try discriminate.
  inversion Hr; subst.
  destruct s' as [|x s'].
  - simpl in Hcs. eapply IH2; eauto.
  - simpl in Hcs. inversion Hcs; subst. exists s', t'. auto.
Qed.

Lemma deriv_iff r : forall c s, Matches (deriv r c) s <-> Matches r (c :: s).
Proof.
  induction r as [| |lo hi|r1 IH1 r2 IH2|r1 IH1 r2 IH2|r IH]; intros c s; simpl.
  - split; intros H; inversion H.
  - split; intros H; inversion H.
  - destruct (in_rng lo hi c) eqn:E; split; intros H.
    + apply eps_inv in H. subst. now constructor.
    + apply rng_inv in H. destruct H as (x & Hx & _). inversion Hx; subst. constructor.
    + inversion H.
    + apply rng_inv in H. destruct H as (x & Hx & Hr). inversion Hx; subst. congruence.
  - destruct (nullable r1) eqn:N.
    + rewrite mkAlt_iff. split; intros H.
      * apply alt_inv in H. destruct H as [H|H].
        -- apply mkSeq_iff in H. apply seq_inv in H. destruct H as (s1 & s2 & -> & H1 & H2).
           change (c :: s1 ++ s2) with ((c :: s1) ++ s2). constructor; [now apply IH1|assumption].
        -- change (c :: s) with ([] ++ c :: s). constructor; [now apply nullable_iff|now apply IH2].
      * apply seq_inv in H. destruct H as (s1 & s2 & E & H1 & H2).
        destruct s1 as [|x s1].
        -- simpl in E. subst. apply M_altr. now apply IH2.
        -- simpl in E. inversion E; subst. apply M_altl. apply mkSeq_iff.
           constructor; [now apply IH1|assumption].
    + rewrite mkSeq_iff. split; intros H.
      * apply seq_inv in H. destruct H as (s1 & s2 & -> & H1 & H2).
        change (c :: s1 ++ s2) with ((c :: s1) ++ s2). constructor; [now apply IH1|assumption].
      * apply seq_inv in H. destruct H as (s1 & s2 & E & H1 & H2).
        destruct s1 as [|x s1].
        -- apply nullable_iff in H1. congruence.
        -- simpl in E. inversion E; subst. constructor; [now apply IH1|assumption].
  - rewrite mkAlt_iff. split; intros H; apply alt_inv in H; destruct H as [H|H];
      try (apply M_altl; now apply IH1); try (apply M_altr; now apply IH2).
  - rewrite mkSeq_iff. split; intros H.
    + apply seq_inv in H. destruct H as (s1 & s2 & -> & H1 & H2).
      change (c :: s1 ++ s2) with ((c :: s1) ++ s2).
      apply M_star1; [now apply IH|assumption].
    + apply star_cons_inv in H. destruct H as (s1 & s2 & -> & H1 & H2).
      constructor; [now apply IH|assumption].
Qed.

Theorem matches_iff r s : matches r s = true <-> Matches r s.
Proof.
  revert r. induction s as [|c s IH]; intros r; simpl.
  - apply nullable_iff.
  - rewrite IH. apply deriv_iff.
Qed.

Lemma matches_emp s : matches Emp s = false.
Proof. induction s; simpl; auto. Qed.

(* a regex none of whose ranges contains code [k] matches no string containing it *)
Fixpoint avoids (k : N) (r : re) : bool :=
  match r with
  | Emp | Eps => true
  | Rng lo hi => negb ((N.leb lo k) && (N.leb k hi))
  | Seq a b | Alt a b => avoids k a && avoids k b
  | Star a => avoids k a
  end.

Lemma avoids_sound k r s : avoids k r = true -> Matches r s -> forall c, In c s -> ncode c <> k.
Proof.
  intros Ha Hm. induction Hm; simpl in Ha; intros x Hin;
    try (apply andb_prop in Ha; destruct Ha as [Ha1 Ha2]).
  - inversion Hin.
  - destruct Hin as [->|[]]. unfold in_rng, between in H. apply negb_true_iff in Ha.
    intros E. rewrite <- E in Ha. congruence.
  - apply in_app_or in Hin. destruct Hin; auto.
  - auto.
  - auto.
  - inversion Hin.
  - apply in_app_or in Hin. destruct Hin; auto.
Qed.
