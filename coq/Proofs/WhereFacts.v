From Zorg Require Import Base.PyStr Base.Sexp Base.Res Base.Dates Proofs.PyStrFacts Proofs.SortFacts
  Model.Zid Model.FileListener Model.QueryListener Model.Where.

(* ---- case-insensitive containment: the spec of smart-case text filters ---- *)
Fixpoint startswith_ci (p s : str) : bool :=
  match p, s with
  | [], _ => true
  | x :: p', y :: s' => ci_eq x y && startswith_ci p' s'
  | _ :: _, [] => false
  end.
Definition contains_ci (lit s : str) : bool := existsb (startswith_ci lit) (suffixes s).

Definition is_esc (esc : option ascii) (c : ascii) : bool :=
  match esc with Some e => ceqb c e | None => false end.
(* a literal character of a LIKE pattern *)
Definition plain_c (esc : option ascii) (c : ascii) : bool :=
  negb (ceqb c (ch "%")) && negb (ceqb c (ch "_")) && negb (is_esc esc c).

Lemma suffixes_has_nil s : In [] (suffixes s).
Proof. induction s as [|c s IH]; simpl; [now left|]. now right. Qed.

Lemma like_cons esc c p s :
  like esc (c :: p) s =
  if is_esc esc c then
    match p with
    | [] => false
    | lit :: p'' => match s with x :: s' => ci_eq lit x && like esc p'' s' | [] => false end
    end
  else if ceqb c (ch "%") then existsb (like esc p) (suffixes s)
  else if ceqb c (ch "_") then match s with _ :: s' => like esc p s' | [] => false end
  else match s with x :: s' => ci_eq c x && like esc p s' | [] => false end.
Proof. reflexivity. Qed.

Lemma like_lit_percent esc : is_esc esc (ch "%") = false ->
  forall lit, forallb (plain_c esc) lit = true -> forall t, like esc (lit ++ S "%") t = startswith_ci lit t.
Proof.
  intros He. induction lit as [|c l IH]; intros Hp t.
  - cbn [app]. change (S "%") with [ch "%"]. rewrite like_cons, He, ceqb_refl.
    cbn [startswith_ci]. apply existsb_exists. exists []. split; [apply suffixes_has_nil|reflexivity].
  - cbn [forallb] in Hp. apply andb_prop in Hp. destruct Hp as [Hc Hl].
    unfold plain_c in Hc. apply andb_prop in Hc. destruct Hc as [Hc H3]. apply andb_prop in Hc. destruct Hc as [H1 H2].
    apply negb_true_iff in H1, H2, H3.
    cbn [app]. rewrite like_cons, H3, H1, H2. destruct t as [|x t']; [reflexivity|].
    cbn [startswith_ci]. now rewrite IH.
Qed.

Theorem like_is_containment esc lit s : is_esc esc (ch "%") = false -> forallb (plain_c esc) lit = true ->
  like esc (S "%" ++ lit ++ S "%") s = contains_ci lit s.
Proof.
  intros He Hp. change (S "%" ++ lit ++ S "%") with (ch "%" :: (lit ++ S "%")).
  rewrite like_cons, He, ceqb_refl. unfold contains_ci.
  induction (suffixes s) as [|t r IH]; [reflexivity|]. cbn [existsb]. rewrite IH. f_equal.
  now apply like_lit_percent.
Qed.

(* ---- lower-casing does not disturb the pattern ---- *)
Lemma lower_c_idem c : lower_c (lower_c c) = lower_c c.
Proof. destruct c as [[] [] [] [] [] [] [] []]; reflexivity. Qed.
Lemma ci_eq_lower a b : ci_eq (lower_c a) (lower_c b) = ci_eq a b.
Proof. unfold ci_eq. now rewrite !lower_c_idem. Qed.
Lemma plain_lower c : plain_c (Some bslash) c = true -> plain_c (Some bslash) (lower_c c) = true.
Proof. destruct c as [[] [] [] [] [] [] [] []]; vm_compute; auto. Qed.

Lemma startswith_ci_lower p : forall s, startswith_ci (lower p) (lower s) = startswith_ci p s.
Proof.
  induction p as [|x p IH]; intros [|y s]; simpl; auto. now rewrite ci_eq_lower, IH.
Qed.
Lemma suffixes_lower s : suffixes (lower s) = map lower (suffixes s).
Proof. induction s as [|c s IH]; simpl; [reflexivity|]. now rewrite IH. Qed.
Lemma contains_ci_lower p s : contains_ci (lower p) (lower s) = contains_ci p s.
Proof.
  unfold contains_ci. rewrite suffixes_lower. induction (suffixes s) as [|t r IH]; [reflexivity|].
  cbn [map existsb]. now rewrite startswith_ci_lower, IH.
Qed.

(* ---- replace of a one-character pattern is a map ---- *)
Lemma replace_char a b s : replace [a] b s = concat (map (fun c => if ceqb a c then b else [c]) s).
Proof.
  induction s as [|c s IH]; [apply replace_nil|].
  rewrite replace_cons by discriminate. cbn [startswith length skipn map concat].
  destruct (ceqb a c); cbn [andb]; rewrite IH; reflexivity.
Qed.
Lemma replace_char_absent a b s : forallb (fun c => negb (ceqb a c)) s = true -> replace [a] b s = s.
Proof.
  intros H. rewrite replace_char. induction s as [|c s IH]; [reflexivity|].
  cbn [forallb] in H. apply andb_prop in H. destruct H as [H1 H2]. apply negb_true_iff in H1.
  cbn [map concat]. rewrite H1, IH by exact H2. reflexivity.
Qed.

(* ---- text filters: smart-case literal containment (clean values) ---- *)
Definition clean_text (v : str) : bool := forallb (plain_c (Some bslash)) v.

Lemma clean_no_underscore v : clean_text v = true -> forallb (fun c => negb (ceqb (ch "_") c)) v = true.
Proof.
  unfold clean_text. intros H. rewrite forallb_forall in *. intros c Hc. specialize (H c Hc).
  unfold plain_c in H. apply andb_prop in H. destruct H as [H _]. apply andb_prop in H. destruct H as [_ H].
  apply negb_true_iff in H. apply negb_true_iff.
  destruct (ceqb (ch "_") c) eqn:E; auto. apply ceqb_eq in E. subst. rewrite ceqb_refl in H. discriminate.
Qed.

Lemma clean_lower v : clean_text v = true -> forallb (plain_c (Some bslash)) (lower v) = true.
Proof.
  unfold clean_text, lower. intros H. rewrite forallb_forall in *. intros c Hc.
  apply in_map_iff in Hc. destruct Hc as (x & <- & Hx). apply plain_lower. now apply H.
Qed.

Lemma lower_app a b : lower (a ++ b) = lower a ++ lower b.
Proof. apply map_app. Qed.

Theorem desc_ci_is_containment n v neg :
  clean_text v = true -> islower v = true ->
  desc_ok n (mkDF v None neg) = xorb neg (contains_ci v (i_body n)).
Proof.
  intros Hc Hl. unfold desc_ok. cbn [df_case df_value df_neg]. rewrite Hl. cbn [negb].
  unfold like_arg. change (S "_") with [ch "_"]. rewrite (replace_char_absent _ _ _ (clean_no_underscore v Hc)).
  rewrite !lower_app. change (lower (S "%")) with (S "%").
  rewrite like_is_containment; [|reflexivity|now apply clean_lower].
  rewrite contains_ci_lower. destruct neg; destruct (contains_ci v (i_body n)); reflexivity.
Qed.

(* case-sensitive path: the LIKE pre-filter never loses a literal occurrence *)
Lemma startswith_ci_of p : forall s, startswith p s = true -> startswith_ci p s = true.
Proof.
  induction p as [|x p IH]; intros [|y s] H; simpl in *; try discriminate; auto.
  apply andb_prop in H. destruct H as [H1 H2]. apply ceqb_eq in H1. subst.
  unfold ci_eq. rewrite ceqb_refl. simpl. now apply IH.
Qed.
Lemma contains_suffixes p s : contains p s = existsb (startswith p) (suffixes s).
Proof.
  induction s as [|c s IH]; simpl.
  - now rewrite orb_false_r.
  - now rewrite IH.
Qed.
Lemma contains_ci_of p s : contains p s = true -> contains_ci p s = true.
Proof.
  rewrite contains_suffixes. unfold contains_ci. intros H. apply existsb_exists in H.
  destruct H as (t & Ht & Hs). apply existsb_exists. exists t. split; auto. now apply startswith_ci_of.
Qed.

Theorem desc_cs_is_containment n v neg :
  clean_text v = true ->
  desc_ok n (mkDF v (Some true) neg) = xorb neg (contains v (i_body n)).
Proof.
  intros Hc. unfold desc_ok. cbn [df_case df_value df_neg].
  unfold like_arg. change (S "_") with [ch "_"]. rewrite (replace_char_absent _ _ _ (clean_no_underscore v Hc)).
  assert (Hp : forallb (plain_c None) v = true).
  { unfold clean_text in Hc. rewrite forallb_forall in *. intros c H. specialize (Hc c H).
    unfold plain_c in *. apply andb_prop in Hc. destruct Hc as [Hc _]. now rewrite Hc. }
  rewrite like_is_containment by (try reflexivity; exact Hp).
  destruct (contains v (i_body n)) eqn:E.
  - rewrite (contains_ci_of _ _ E). destruct neg; reflexivity.
  - rewrite andb_false_r. destruct neg; reflexivity.
Qed.

(* ---- f= : a *-glob, every other character literal ---- *)
Fixpoint glob_ci (g s : str) : bool :=
  match g with
  | [] => match s with [] => true | _ => false end
  | c :: g' =>
      if ceqb c (ch "*") then existsb (glob_ci g') (suffixes s)
      else match s with x :: s' => ci_eq c x && glob_ci g' s' | [] => false end
  end.

Definition clean_glob (g : str) : bool := forallb (plain_c None) g.

Lemma glob_like : forall g, clean_glob g = true -> forall s,
  like None (concat (map (fun c => if ceqb (ch "*") c then S "%" else [c]) g)) s = glob_ci g s.
Proof.
  induction g as [|c g IH]; intros Hc s; [reflexivity|].
  unfold clean_glob in Hc. cbn [forallb] in Hc. apply andb_prop in Hc. destruct Hc as [H0 Hg].
  cbn [map concat glob_ci].
  destruct (ceqb (ch "*") c) eqn:E.
  - apply ceqb_eq in E. subst c. rewrite ceqb_refl.
    change (S "%" ++ ?x) with (ch "%" :: x). cbn [app]. rewrite like_cons. cbn [is_esc]. rewrite ceqb_refl.
    induction (suffixes s) as [|t r IHr]; [reflexivity|]. cbn [existsb]. rewrite IHr. f_equal. now apply IH.
  - assert (E' : ceqb c (ch "*") = false).
    { destruct (ceqb c (ch "*")) eqn:X; auto. apply ceqb_eq in X. subst. rewrite ceqb_refl in E. discriminate. }
    rewrite E'. cbn [app]. rewrite like_cons. cbn [is_esc].
    unfold plain_c in H0. apply andb_prop in H0. destruct H0 as [H0 _]. apply andb_prop in H0. destruct H0 as [H1 H2].
    apply negb_true_iff in H1, H2. rewrite H1, H2.
    destruct s as [|x s']; [reflexivity|]. now rewrite IH.
Qed.

Theorem file_filter_is_glob n g neg : clean_glob g = true ->
  file_ok n (g, neg) = xorb neg (glob_ci g (i_page n)).
Proof.
  intros Hc. unfold file_ok. cbn [fst snd]. change (S "*") with [ch "*"]. rewrite replace_char.
  rewrite glob_like by exact Hc. destruct neg; destruct (glob_ci g (i_page n)); reflexivity.
Qed.

(* ---- negated comparisons keep the existence requirement ---- *)
Lemma flipped_str op a b : op <> PExists -> cmp_flipped_str op true a b = negb (cmp_str op a b).
Proof.
  intros H. destruct op; try congruence; cbn; unfold str_leb; rewrite ?negb_involutive; reflexivity.
Qed.
Lemma flipped_Z op a b : op <> PExists -> cmp_flipped_Z op true a b = negb (cmp_Z op a b).
Proof.
  intros H. destruct op; try congruence; cbn; try reflexivity;
    rewrite ?Z.ltb_antisym, ?Z.leb_antisym, ?negb_involutive; reflexivity.
Qed.

Theorem negated_comparison_requires_property today n key v op :
  op <> PExists ->
  forall val, map snd (filter (fun kv => eqb_str (fst kv) key) (i_props n)) = [val] ->
  prop_ok today n (mkPF key v op VStrT true) = Ok (negb (cmp_str op val v)) /\
  prop_ok today n (mkPF key v op VStrT false) = Ok (cmp_str op val v).
Proof.
  intros Hop val Hv. unfold prop_ok. cbn [pf_key pf_op pf_vt pf_neg pf_value]. rewrite Hv.
  destruct op; try congruence; cbn [existsb]; rewrite ?orb_false_r;
    (split; [f_equal; apply (flipped_str _ val v); discriminate|reflexivity]).
Qed.

Theorem missing_property_never_matches_comparison today n key v op vt neg :
  op <> PExists -> vt <> VDateT ->
  map snd (filter (fun kv => eqb_str (fst kv) key) (i_props n)) = [] ->
  prop_ok today n (mkPF key v op vt neg) = Ok false.
Proof.
  intros Hop Hvt Hv. unfold prop_ok. cbn [pf_key pf_op pf_vt pf_neg pf_value]. rewrite Hv.
  destruct op; try congruence; destruct vt; try congruence; reflexivity.
Qed.

(* existence filters: exact complement *)
Theorem exists_filter_complement today n key v vt :
  exists b, prop_ok today n (mkPF key v PExists vt false) = Ok b /\
            prop_ok today n (mkPF key v PExists vt true) = Ok (negb b).
Proof.
  unfold prop_ok. cbn [pf_key pf_op pf_neg].
  destruct (map snd (filter (fun kv => eqb_str (fst kv) key) (i_props n))); eexists; split; reflexivity.
Qed.

(* tags: presence, and a negated tag is the exact complement *)
Theorem tag_complement tags name :
  has_tag tags (S "-" ++ name) = negb (has_tag tags name) \/ startswith (S "-") name = true.
Proof.
  destruct (startswith (S "-") name) eqn:E; [now right|left].
  unfold has_tag. rewrite E. change (startswith (S "-") (S "-" ++ name)) with true. reflexivity.
Qed.

(* date ranges are inclusive; a missing end is the start day *)
Theorem range_inclusive d s e : in_range d (s, e) =
  date_leb s d && date_leb d (match e with Some x => x | None => s end).
Proof. reflexivity. Qed.

(* REFUTED clauses (known findings), on a two-note index *)
Definition w_note (id : nat) (zid body : string) (links : list str) : inote :=
  {| i_id := id; i_zid := S zid; i_page := S "a.zo"; i_body := S body; i_create := mkDate 2024 1 1; i_modify := mkDate 2024 1 1;
     i_prio := None; i_status := None; i_areas := []; i_contexts := []; i_people := []; i_projects := [];
     i_links := links; i_props := [] |}.
Lemma cs_underscore_refuted :
  desc_ok (w_note 1 "240101#00" "has a_b inside" []) (mkDF (S "a_b") (Some true) false) = false.
Proof. vm_compute. reflexivity. Qed.
Lemma negated_link_refuted :
  link_ok [] (w_note 1 "240101#00" "links elsewhere" [S "c"]) (S "b", true) = false /\
  link_ok [] (w_note 1 "240101#00" "links elsewhere" [S "c"]) (S "b", false) = false.
Proof. vm_compute. auto. Qed.
