(* C05 / C11 on abstract items: the write-back of a ZID (or of a modify date) into the canonical text of an item
   yields the canonical text of the item with that identity; with the page theorem, the rewritten file compiles
   to the note that carries the ZID, and the body the index stores is that note's body. *)
From Zorg Require Import Base.PyStr Base.Sexp Base.Res Base.Dates Gen.Params Proofs.PyStrFacts Model.Zid Model.FileListener
  Model.QueryListener Model.PageSyntax Model.PageText Model.WriteBack Proofs.WriteBackFacts Proofs.PageFacts Model.PageLines.


Lemma words_text_join ws : forall x, x ++ words_text ws = join [sp] (x :: map word_text ws).
Proof.
  unfold words_text. induction ws as [|w ws IH]; intros x; cbn [map concat join]; [apply app_nil_r|].
  rewrite <- app_assoc. rewrite (IH (word_text w)).
  destruct (map word_text ws); reflexivity.
Qed.

Lemma render_item_join it : render_item it = join [sp] (line_words it).
Proof.
  unfold render_item, line_words, prio_words. destruct (i_prio it) as [p|]; cbn [app].
  - rewrite <- app_assoc. rewrite (words_text_join (item_words it) p).
    cbn [join]. destruct (map word_text (item_words it)); reflexivity.
  - apply words_text_join.
Qed.

(* the item after its ZID has been written: identity = the ZID; an ordinary first word stays a word, a long
   creation date is replaced *)

Definition zidless_ok (it : item) : Prop :=
  match i_ident it with
  | IPlain s | IMod s => is_prio_word s = false /\ datelike10 s = false
  | ILong d => is_prio_word d = false /\ datelike10 d = true /\ i_words it <> []
  | _ => False
  end.
Definition prio_ok (it : item) : Prop :=
  match i_prio it with Some p => is_prio_word p = true | None => True end.

Lemma join_cons2 x y l : join [sp] (x :: y :: l) = x ++ [sp] ++ join [sp] (y :: l).
Proof. reflexivity. Qed.

Lemma add_zid_priority_date zid sym p d r :
  sym <> [] -> forallb no_space (sym :: p :: d :: r) = true -> is_prio_word p = true -> datelike10 d = true ->
  add_zid_to_line zid (join [sp] (sym :: p :: d :: r)) = Ok (sym ++ S " " ++ p ++ S " " ++ zid ++ S " " ++ join [sp] r).
Proof.
  intros Hs Hn Hp Hd. unfold add_zid_to_line.
  change (ch " ") with sp. rewrite split_join by (try discriminate; exact Hn).
  rewrite pop_regular by exact Hs. rewrite Hp. cbn [bind]. rewrite Hd. now rewrite <- !app_assoc.
Qed.

Theorem add_zid_item z it :
  zidless_ok it -> prio_ok it -> forallb no_space (z :: line_words it) = true ->
  add_zid_to_line z (render_item it) = Ok (render_item (with_zid z it)).
Proof.
  destruct it as [k pr idn ws]. unfold zidless_ok, prio_ok. cbn [i_ident i_prio i_words].
  intros Hz Hp Hs. rewrite !render_item_join. unfold line_words, prio_words, with_zid, item_words.
  cbn [i_kind i_prio i_ident i_words] in *.
  cbn [forallb] in Hs. apply andb_prop in Hs. destruct Hs as [Hsz Hs].
  unfold line_words, prio_words, item_words in Hs. cbn [i_kind i_prio i_ident i_words] in Hs.
  assert (Hk : kind_text k <> []) by (destruct k as [[]|]; discriminate).
  destruct idn as [s|z0|m z0|d|s]; try contradiction; cbn [ident_words app map word_text] in *; destruct pr as [p|]; cbn [app] in *.
  - destruct Hz as (H1 & H2). rewrite add_zid_priority by assumption. rewrite !join_cons2. reflexivity.
  - destruct Hz as (H1 & H2). rewrite add_zid_plain by assumption. rewrite !join_cons2. reflexivity.
  - destruct Hz as (H1 & H2 & H3). destruct ws as [|w ws']; [congruence|]. cbn [map] in *.
    assert (E : join [sp] (kind_text k :: p :: d :: word_text w :: map word_text ws') =
                join [sp] (kind_text k :: p :: d :: (word_text w :: map word_text ws'))) by reflexivity.
    rewrite add_zid_priority_date; try assumption. rewrite !join_cons2. reflexivity.
  - destruct Hz as (H1 & H2 & H3). destruct ws as [|w ws']; [congruence|]. cbn [map] in *.
    rewrite add_zid_replaces_long_date by assumption. rewrite !join_cons2. reflexivity.
  - destruct Hz as (H1 & H2). rewrite add_zid_priority by assumption. rewrite !join_cons2. reflexivity.
  - destruct Hz as (H1 & H2). rewrite add_zid_plain by assumption. rewrite !join_cons2. reflexivity.
Qed.

(* ---- the body the index stores ---- *)
Definition clean_words (ts : list str) : Prop := ts <> [] /\ Forall (fun t => t <> [] /\ no_ws t = true) ts.

Lemma join_snoc a w : a <> [] -> join [sp] (a ++ [w]) = join [sp] a ++ [sp] ++ w.
Proof.
  induction a as [|x a IH]; intros H; [congruence|]. destruct a as [|y a']; [reflexivity|].
  change ((x :: y :: a') ++ [w]) with (x :: (y :: a') ++ [w]).
  change (join [sp] (x :: (y :: a') ++ [w])) with (x ++ [sp] ++ join [sp] ((y :: a') ++ [w])).
  rewrite IH by discriminate. rewrite join_cons2. now rewrite <- !app_assoc.
Qed.

Lemma rstrip_ends_nonspace s c : is_space c = false -> rstrip (s ++ [c]) = s ++ [c].
Proof.
  intros H. unfold rstrip. rewrite rev_app_distr. cbn [rev app dropwhile]. rewrite H.
  change (c :: rev s) with (rev [c] ++ rev s). rewrite <- (rev_app_distr s [c]). apply rev_involutive.
Qed.

Lemma no_ws_last w : w <> [] -> no_ws w = true -> exists s c, w = s ++ [c] /\ is_space c = false.
Proof.
  intros Hne H. destruct (exists_last Hne) as (s & c & ->). exists s, c. split; [reflexivity|].
  unfold no_ws in H. rewrite forallb_app in H. apply andb_prop in H. destruct H as [_ H]. cbn in H.
  rewrite andb_true_r in H. now apply negb_true_iff in H.
Qed.

Lemma strip_join ts : clean_words ts -> strip (S " " ++ join [sp] ts) = join [sp] ts.
Proof.
  intros (Hne & Hall). unfold strip.
  assert (L : lstrip (S " " ++ join [sp] ts) = join [sp] ts).
  { destruct ts as [|w r]; [congruence|]. inversion Hall as [|? ? (Hw & Hws) _]; subst.
    change (S " " ++ join [sp] (w :: r)) with (ch " " :: join [sp] (w :: r)). unfold lstrip. cbn [dropwhile].
    replace (is_space (ch " ")) with true by reflexivity. apply (lstrip_word_first w r Hw Hws). }
  rewrite L. destruct (exists_last Hne) as (a & w & ->).
  apply Forall_app in Hall. destruct Hall as [_ Hw]. inversion Hw as [|? ? (Hw1 & Hw2) _]; subst.
  destruct (no_ws_last w Hw1 Hw2) as (s & c & -> & Hc).
  destruct a as [|x a'].
  - cbn [app join]. apply rstrip_ends_nonspace. exact Hc.
  - rewrite join_snoc by discriminate. rewrite !app_assoc. apply rstrip_ends_nonspace. exact Hc.
Qed.

Lemma words_text_nil_join ws : words_text ws = match map word_text ws with [] => [] | ts => S " " ++ join [sp] ts end.
Proof.
  pose proof (words_text_join ws []) as H. cbn [app] in H. rewrite H.
  destruct (map word_text ws) as [|t ts]; [reflexivity|]. reflexivity.
Qed.

Lemma body_is_join it :
  clean_words (map word_text (item_words it)) ->
  strip (words_text (item_words it)) = join [sp] (map word_text (item_words it)).
Proof.
  intros H. rewrite words_text_nil_join. destruct (map word_text (item_words it)) as [|t ts] eqn:E; [destruct H; congruence|].
  apply strip_join. exact H.
Qed.

(* the body _add_zids stores in the index for the note of a ZID-less item = the body of the note the rewritten
   line compiles to *)
Theorem index_body_is_file_body today ot op od key line z it :
  zidless_ok it -> z <> [] -> no_ws z = true -> no_space z = true ->
  clean_words (map word_text (item_words it)) -> forallb no_space (map word_text (item_words it)) = true ->
  (match i_ident it with ILong d => is_long_date_spec d = true | IPlain s | IMod s => is_long_date_spec s = false | _ => True end) ->
  patch_body z (n_body (spec_note today ot op od key line it)) =
  n_body (spec_note today ot op od key line (with_zid z it)).
Proof.
  destruct it as [k pr idn ws]. unfold zidless_ok. cbn [i_ident i_words].
  intros Hz Hzn Hzw Hzs Hc Hs Hd. unfold spec_note. cbn [n_body].
  rewrite body_is_join by exact Hc.
  assert (Hc' : clean_words (map word_text (item_words (with_zid z (mkItem k pr idn ws))))).
  { unfold with_zid, item_words in *. cbn [i_kind i_prio i_ident i_words ident_words app map word_text] in *.
    destruct Hc as (Hne & Hall). destruct idn as [s|z0|m z0|d|s]; try contradiction; cbn [ident_words app map word_text] in *.
    - split; [discriminate|]. constructor; [split; assumption|exact Hall].
    - split; [discriminate|]. inversion Hall; subst. constructor; [split; assumption|assumption].
    - split; [discriminate|]. constructor; [split; assumption|exact Hall]. }
  rewrite (body_is_join _ Hc').
  unfold with_zid, item_words in *. cbn [i_kind i_prio i_ident i_words] in *.
  unfold patch_body.
  destruct idn as [s|z0|m z0|d|s]; try contradiction; cbn [ident_words app map word_text] in *.
  - destruct Hc as (_ & Hall). inversion Hall as [|? ? (Hs1 & Hs2) _]; subst.
    rewrite lstrip_word_first by assumption. change (ch " ") with sp. rewrite split_join by (try discriminate; exact Hs).
    rewrite Hd. rewrite join_cons2. reflexivity.
  - destruct Hz as (_ & _ & Hw). destruct ws as [|w ws']; [congruence|]. cbn [map] in *.
    destruct Hc as (_ & Hall). inversion Hall as [|? ? (Hs1 & Hs2) _]; subst.
    rewrite lstrip_word_first by assumption. change (ch " ") with sp. rewrite split_join by (try discriminate; exact Hs).
    rewrite Hd. rewrite join_cons2. reflexivity.
  - destruct Hc as (_ & Hall). inversion Hall as [|? ? (Hs1 & Hs2) _]; subst.
    rewrite lstrip_word_first by assumption. change (ch " ") with sp. rewrite split_join by (try discriminate; exact Hs).
    rewrite Hd. rewrite join_cons2. reflexivity.
Qed.

(* ---- C11: the modify date written in front of the ZID ---- *)
Definition stampable (it : item) : Prop :=
  match i_ident it with
  | IZid z => is_prio_word z = false /\ six_digits z = false
  | IModZid m z => is_prio_word m = false /\ six_digits m = true
  | _ => False
  end.

Lemma mdate_prio d sym p w r :
  sym <> [] -> forallb no_space (sym :: p :: w :: r) = true -> is_prio_word p = true ->
  add_or_update_modify_date d (join [sp] (sym :: p :: w :: r)) =
  Ok (sym ++ S " " ++ p ++ S " " ++ d ++ S " " ++ join [sp] (if six_digits w then r else w :: r)).
Proof.
  intros Hs Hn Hp. unfold add_or_update_modify_date.
  change (ch " ") with sp. rewrite split_join by (try discriminate; exact Hn).
  rewrite pop_regular by exact Hs. rewrite Hp. cbn [bind]. fold (six_digits w).
  destruct (six_digits w); now rewrite <- !app_assoc.
Qed.

Theorem add_mdate_item d it :
  stampable it -> prio_ok it -> forallb no_space (d :: line_words it) = true ->
  add_or_update_modify_date d (render_item it) = Ok (render_item (with_mdate d it)).
Proof.
  destruct it as [k pr idn ws]. unfold stampable, prio_ok. cbn [i_ident i_prio i_words].
  intros Hz Hp Hs. rewrite !render_item_join. unfold line_words, prio_words, with_mdate, item_words.
  cbn [i_kind i_prio i_ident i_words] in *.
  cbn [forallb] in Hs. apply andb_prop in Hs. destruct Hs as [Hsd Hs].
  unfold line_words, prio_words, item_words in Hs. cbn [i_kind i_prio i_ident i_words] in Hs.
  assert (Hk : kind_text k <> []) by (destruct k as [[]|]; discriminate).
  destruct idn as [s|z|m z|dd|s]; try contradiction; cbn [ident_words app map word_text] in *; destruct pr as [p|]; cbn [app] in *;
    destruct Hz as (H1 & H2).
  - rewrite mdate_prio by assumption. rewrite H2. rewrite !join_cons2. reflexivity.
  - rewrite mdate_inserted by assumption. rewrite !join_cons2. reflexivity.
  - rewrite mdate_prio by assumption. rewrite H2. rewrite !join_cons2. reflexivity.
  - rewrite mdate_replaced by assumption. rewrite !join_cons2. reflexivity.
Qed.

(* non-vacuity *)
Example write_back_example :
  let it := mkItem (Some TOpen) (Some (S "P2")) (IPlain (S "call")) [WId (S "bob"); WTag KContext (S "home")] in
  zidless_ok it /\ prio_ok it /\
  add_zid_to_line (S "240601#0A") (render_item it) = Ok (S "o P2 240601#0A call bob @home") /\
  add_or_update_modify_date (S "240603") (render_item (with_zid (S "240601#0A") it)) = Ok (S "o P2 240603 240601#0A call bob @home").
Proof. cbv zeta. repeat split; vm_compute; reflexivity. Qed.
