(* C12, second sentence: an ungrouped rendered note selection placed under a page header is a valid page whose notes
   are exactly the selected notes. *)
From Zorg Require Import Base.PyStr Base.Sexp Base.Res Base.Dates Gen.Params Proofs.PyStrFacts Model.Zid Model.FileListener
  Model.PageSyntax Model.NoteText Proofs.NoteTextFacts Proofs.PageFacts Model.PageText Proofs.PageTextFacts Model.WriteBack
  Model.PageLines.
From Coq Require Import Lia.

(* the page: a header line, a blank line, the text forms of the selected items one per line, a blank line *)
Definition results_page (title : list word) (its : list item) : apage := mkPg title [map (fun it => BItem (emit_form it)) its] [] [].

Definition e5 : list (list (str * str)) := [[]; []; []; []; []].
Definition n5 : list (option date) := [None; None; None; None; None].

Lemma lines_text_cons l ls : lines_text (l :: ls) = l ++ [nlc10] ++ lines_text ls.
Proof. unfold lines_text. cbn [app]. destruct ls; reflexivity. Qed.
Lemma lines_text_nil : lines_text [] = [].
Proof. reflexivity. Qed.
Lemma lines_text_app a b : lines_text (a ++ b) = concat (map (fun l => l ++ [nlc10]) a) ++ lines_text b.
Proof.
  induction a as [|l a IH]; [reflexivity|]. cbn [app map concat]. rewrite lines_text_cons, IH. now rewrite <- !app_assoc.
Qed.

(* the text of the page = header, blank line, each item's text form followed by a newline, blank line *)
Theorem results_page_text title its :
  page_text (results_page title its) =
  (S "#" ++ words_text title) ++ [nlc10] ++ [nlc10] ++
  concat (map (fun it => render_item (emit_form it) ++ [nlc10]) its) ++ [nlc10].
Proof.
  unfold page_text, results_page, page_rows. cbn [pg_title pg_blocks pg_h2s pg_h1s blocks_rows secs_rows].
  rewrite !app_nil_r. cbn [app map row_text]. rewrite !lines_text_cons. unfold block_rows.
  rewrite map_app, !map_map. cbn [map row_text elem_row].
  rewrite lines_text_app, lines_text_cons, lines_text_nil. rewrite map_map. cbn [app].
  rewrite <- !app_assoc. cbn [app]. reflexivity.
Qed.

(* ... and, a title without metadata, it compiles to exactly one note per selected item, in order *)
Theorem results_page_compiles today title its :
  Forall valid_mword title -> Forall valid_item its ->
  exists secs, listen today false (tree_of_page (results_page title its)) =
               Ok (mkPage false (spec_page today (results_page title its)) secs).
Proof.
  intros Ht Hv. apply page_correct. unfold valid_page, results_page. cbn [pg_title pg_blocks pg_h2s pg_h1s].
  split; [exact Ht|]. split; [|split; exact I].
  constructor; [|constructor]. apply Forall_forall. intros x Hx. apply in_map_iff in Hx. destruct Hx as (it & <- & Hi).
  cbn [valid_elem]. apply emit_form_valid. rewrite Forall_forall in Hv. now apply Hv.
Qed.

Lemma results_spec today title its :
  spec_page today (results_page title its) =
  spec_items today [words_tags title; []; []; []; []] [words_props title []; []; []; []; []]
             [words_date today title None; None; None; None; None] [0; 0; 0] 3 (map (fun it => BItem (emit_form it)) its).
Proof. unfold spec_page, results_page. cbn. now rewrite !app_nil_r. Qed.

(* one note per selected item, on consecutive lines from line 3, each with the ZID and the body of its item *)
Lemma spec_items_keys today ot op od key (g : item -> item) : forall its l,
  map (fun n => (n_line n, n_zid n, n_body n)) (spec_items today ot op od key l (map (fun it => BItem (g it)) its)) =
  map (fun li => (fst li, ident_zid (i_ident (g (snd li))), strip (words_text (item_words (g (snd li))))))
      (combine (seq l (length its)) its).
Proof. induction its as [|it r IH]; intros l; [reflexivity|]. cbn [spec_items map length seq combine fst snd]. now rewrite IH. Qed.

Theorem results_page_notes today title its :
  map (fun n => (n_line n, n_zid n, n_body n)) (spec_page today (results_page title its)) =
  map (fun li => (fst li, ident_zid (i_ident (snd li)), strip (words_text (item_words (snd li)))))
      (combine (seq 3 (length its)) its).
Proof.
  (* emit_form changes neither identity nor words *)
  rewrite results_spec, (spec_items_keys today _ _ _ _ emit_form). reflexivity.
Qed.
