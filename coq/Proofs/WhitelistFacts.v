From Zorg Require Import Base.PyStr Base.Sexp Base.Res Proofs.PyStrFacts.
From Zorg Require Import Model.Whitelist.

(* ---- db create ---- *)
Lemma create_go_refuses update old pages : forall acc p,
  In (p, true) pages -> mem_str p old = false -> update = false ->
  create_go update old pages acc = Exn (S "RuntimeError").
Proof.
  induction pages as [|[q e] r IH]; intros acc p Hin Hm Hu; [inversion Hin|].
  cbn [create_go]. destruct Hin as [E|Hin].
  - inversion E; subst. rewrite Hm. reflexivity.
  - subst update. rewrite orb_false_r. destruct e; cbn [andb].
    + destruct (mem_str q old); [eapply IH; eauto|reflexivity].
    + eapply IH; eauto.
Qed.

Lemma create_go_accepts update old pages : forall acc,
  (forall p, In (p, true) pages -> mem_str p old = true \/ update = true) ->
  create_go update old pages acc = Ok (acc ++ map fst (filter snd pages)).
Proof.
  induction pages as [|[q e] r IH]; intros acc H; cbn [create_go filter map]; [now rewrite app_nil_r|].
  destruct e; cbn [andb snd].
  - assert (E : mem_str q old || update = true).
    { destruct (H q (or_introl eq_refl)) as [-> | ->]; [reflexivity|apply orb_true_r]. }
    rewrite E. rewrite IH by (intros p Hp; apply H; right; exact Hp). cbn [map fst]. now rewrite <- app_assoc.
  - apply IH. intros p Hp. apply H. right. exact Hp.
Qed.

(* a page with syntax errors is refused unless it is whitelisted BY NAME (or the whitelist is being updated);
   otherwise the directory is accepted and the new whitelist lists exactly the flagged pages *)
Theorem create_decision update old_text pages :
  (exists p, In (p, true) pages /\ mem_str p (wl_lines old_text) = false /\ update = false) ->
  create_wl update old_text pages = Exn (S "RuntimeError").
Proof.
  intros (p & Hin & Hm & Hu). unfold create_wl. erewrite create_go_refuses; eauto.
Qed.
Theorem create_accepts update old_text pages :
  (forall p, In (p, true) pages -> mem_str p (wl_lines old_text) = true \/ update = true) ->
  create_wl update old_text pages = Ok (wl_text (map fst (filter snd pages))).
Proof. intros H. unfold create_wl. rewrite create_go_accepts by exact H. reflexivity. Qed.

(* ---- db reindex ---- *)
Lemma mem_remove1_other x y l : eqb_str x y = false -> mem_str x (remove1 y l) = mem_str x l.
Proof.
  intros H. unfold mem_str in *. induction l as [|z l IH]; [reflexivity|]. cbn [remove1]. destruct (eqb_str y z) eqn:E.
  - apply eqb_str_eq in E. subst z. cbn [existsb]. now rewrite H.
  - cbn [existsb]. now rewrite IH.
Qed.

Theorem reindex_refuses old_text pages : forall p,
  In (p, true) pages -> mem_str p (wl_lines old_text) = false ->
  reindex_wl old_text pages = Exn (S "RuntimeError").
Proof.
  intros p Hin Hm. unfold reindex_wl. generalize dependent (wl_lines old_text). clear old_text.
  induction pages as [|[q e] r IH]; intros ef Hm; [inversion Hin|].
  cbn [reindex_go]. destruct Hin as [E|Hin].
  - inversion E; subst. cbn [negb andb]. rewrite Hm. reflexivity.
  - destruct e; cbn [negb andb].
    + destruct (mem_str q ef) eqn:Eq; cbn [negb]; [|reflexivity]. apply (IH Hin ef Hm).
    + destruct (mem_str q ef) eqn:Eq; [|apply (IH Hin ef Hm)].
      apply (IH Hin). destruct (eqb_str p q) eqn:Epq.
      * apply eqb_str_eq in Epq. subst q. congruence.
      * now rewrite mem_remove1_other.
Qed.

Theorem reindex_accepts old_text pages :
  (forall p, In (p, true) pages -> mem_str p (wl_lines old_text) = true) ->
  NoDup (map fst pages) ->
  exists l, reindex_wl old_text pages = Ok (wl_text l).
Proof.
  intros H Hnd. unfold reindex_wl. generalize dependent (wl_lines old_text). clear old_text.
  induction pages as [|[q e] r IH]; intros ef H; [eexists; reflexivity|].
  inversion Hnd as [|? ? Hnq Hnd']; subst. cbn [reindex_go]. destruct e; cbn [negb andb].
  - rewrite (H q (or_introl eq_refl)). cbn [negb]. apply IH; [exact Hnd'|]. intros p Hp. apply H. right. exact Hp.
  - destruct (mem_str q ef) eqn:Eq.
    + apply IH; [exact Hnd'|]. intros p Hp. rewrite mem_remove1_other; [apply H; right; exact Hp|].
      destruct (eqb_str p q) eqn:Epq; [|reflexivity]. apply eqb_str_eq in Epq. subst p. exfalso. apply Hnq.
      change q with (fst (q, true)). apply in_map. exact Hp.
    + apply IH; [exact Hnd'|]. intros p Hp. apply H. right. exact Hp.
Qed.
