From Zorg Require Import Base.PyStr Base.Sexp Base.Res Base.Dates Proofs.PyStrFacts Model.Templates.

Lemma fs_lookup_write_same p c fs : fs_lookup p (fs_write p c fs) = Some c.
Proof.
  induction fs as [|[k v] r IH]; simpl.
  - now rewrite eqb_str_refl.
  - destruct (eqb_str p k) eqn:E; simpl; rewrite ?eqb_str_refl, ?E; auto.
Qed.
Lemma fs_lookup_write_other p q c fs : q <> p -> fs_lookup q (fs_write p c fs) = fs_lookup q fs.
Proof.
  intros Hne. induction fs as [|[k v] r IH]; simpl.
  - apply eqb_str_neq in Hne. now rewrite Hne.
  - destruct (eqb_str p k) eqn:E; simpl.
    + apply eqb_str_eq in E. subst k. apply eqb_str_neq in Hne. now rewrite Hne.
    + destruct (eqb_str q k); auto.
Qed.
Lemma fs_exists_write p c fs : fs_exists p (fs_write p c fs) = true.
Proof. unfold fs_exists. now rewrite fs_lookup_write_same. Qed.

Section Facts.
  Variable pmatch : str -> str -> option varmap.
  Variable render : str -> list (str * var) -> res str.
  Notation init := (init pmatch render).
  Notation plan_of := (plan_of pmatch).
  Notation first_match := (first_match pmatch).

  (* an existing file is left byte-identical unless overwriting was requested *)
  Lemma no_clobber fs pats path template vars :
    fs_exists (norm_path path) fs = true -> init fs pats path template vars false = Ok fs.
  Proof. intros H. unfold Templates.init, Templates.plan_of. rewrite H. reflexivity. Qed.

  (* nothing is written when no pattern matches and no template was named *)
  Lemma no_match_no_write fs pats path vars ow :
    first_match pats (norm_path path) = None -> init fs pats path None vars ow = Ok fs.
  Proof.
    intros H. unfold Templates.init, Templates.plan_of. rewrite H.
    destruct (fs_exists (norm_path path) fs && negb ow); reflexivity.
  Qed.

  (* the first matching pattern decides *)
  Lemma first_match_split pats path tmpl g :
    first_match pats path = Some (tmpl, g) <->
    exists l1 pat l2, pats = l1 ++ (pat, tmpl) :: l2 /\ pmatch pat path = Some g /\
                      forall p t, In (p, t) l1 -> pmatch p path = None.
  Proof.
    split.
    - induction pats as [|[pat t] r IH]; simpl; intros H; [discriminate|].
      destruct (pmatch pat path) as [g'|] eqn:E.
      + inversion H; subst. exists [], pat, r. repeat split; auto. intros p t0 [].
      + destruct (IH H) as (l1 & pat' & l2 & -> & Hm & Hn).
        exists ((pat, t) :: l1), pat', l2. repeat split; auto.
        intros p t0 [Hin|Hin]; [inversion Hin; subst; exact E|eauto].
    - intros (l1 & pat & l2 & -> & Hm & Hn).
      induction l1 as [|[p t] l1 IH]; simpl.
      + now rewrite Hm.
      + rewrite (Hn p t) by now left. apply IH. intros p' t' Hin. apply (Hn p' t'). now right.
  Qed.

  Lemma writes_first_match fs pats path template vars tmpl g text pv out :
    fs_exists (norm_path path) fs = false ->
    first_match pats (norm_path path) = Some (tmpl, g) ->
    fs_lookup (norm_path tmpl) fs = Some text ->
    process_vars (vm_union vars g) = Ok pv ->
    render (build_body text) pv = Ok out ->
    init fs pats path template vars false = Ok (fs_write (norm_path path) out fs).
  Proof.
    intros He Hf Hl Hp Hr. unfold Templates.init, Templates.plan_of.
    rewrite He, Hf, Hl. simpl. rewrite Hp. simpl. rewrite Hr. reflexivity.
  Qed.

  (* doing it twice equals doing it once *)
  Lemma idempotent fs pats path template vars fs' :
    init fs pats path template vars false = Ok fs' ->
    init fs' pats path template vars false = Ok fs'.
  Proof.
    intros H. unfold Templates.init in H.
    destruct (plan_of fs pats path template vars false) as [p| | |] eqn:Ep; simpl in H; try discriminate.
    destruct p as [|wp tp body pv].
    - inversion H; subst. unfold Templates.init. rewrite Ep. reflexivity.
    - destruct (render body pv) as [c| | |] eqn:Er; simpl in H; try discriminate.
      inversion H; subst.
      assert (wp = norm_path path).
      { unfold Templates.plan_of in Ep.
        destruct (fs_exists (norm_path path) fs && negb false); [discriminate|].
        destruct (first_match pats (norm_path path)) as [[t g]|];
          [|destruct template as [t|]; [|discriminate]];
          (destruct (fs_lookup (norm_path t) fs); [|discriminate]);
          (match type of Ep with context [process_vars ?m] => destruct (process_vars m) end);
          simpl in Ep; try discriminate; now inversion Ep. }
      subst wp. apply no_clobber. apply fs_exists_write.
  Qed.
End Facts.

(* ---- the body handed to jinja2 ---- *)
Lemma body_lines_found ls : body_lines ls true = map fix_line ls.
Proof. induction ls; simpl; auto. now f_equal. Qed.

Lemma body_lines_header hdr blank rest :
  forallb (fun l => negb (is_blank l)) hdr = true -> is_blank blank = true ->
  body_lines (hdr ++ blank :: rest) false = map fix_line rest.
Proof.
  intros Hh Hb. induction hdr as [|l hdr IH]; simpl.
  - rewrite Hb. apply body_lines_found.
  - simpl in Hh. apply andb_prop in Hh. destruct Hh as [H1 H2].
    apply negb_true_iff in H1. rewrite H1. now apply IH.
Qed.

Lemma body_lines_no_blank ls :
  forallb (fun l => negb (is_blank l)) ls = true -> body_lines ls false = [].
Proof.
  induction ls as [|l ls IH]; simpl; auto. intros H. apply andb_prop in H. destruct H as [H1 H2].
  apply negb_true_iff in H1. rewrite H1. now apply IH.
Qed.
