From Zorg Require Import Base.PyStr Base.Sexp Base.Res Base.Dates Proofs.PyStrFacts Model.Zid Model.QueryListener Model.WriteBack.

Definition sp := ch " ".
Definition no_space (w : str) : bool := forallb (fun c => negb (ceqb c sp)) w.

(* ---- "a b c".split(" ") gives back the words ---- *)
Lemma split_on_no_sep w : no_space w = true -> split_on sp w = [w].
Proof.
  induction w as [|c w IH]; intros H; [reflexivity|].
  cbn [no_space forallb] in H. apply andb_prop in H. destruct H as [Hc Hw]. apply negb_true_iff in Hc.
  cbn [split_on]. rewrite Hc. rewrite (IH Hw). reflexivity.
Qed.

Lemma split_on_app_sep w r : no_space w = true -> split_on sp (w ++ sp :: r) = w :: split_on sp r.
Proof.
  induction w as [|c w IH]; intros H.
  - cbn [app split_on]. unfold sp at 1. now rewrite ceqb_refl.
  - cbn [no_space forallb] in H. apply andb_prop in H. destruct H as [Hc Hw]. apply negb_true_iff in Hc.
    cbn [app split_on]. rewrite Hc. rewrite (IH Hw). reflexivity.
Qed.

Theorem split_join ws : ws <> [] -> forallb no_space ws = true -> split_on sp (join [sp] ws) = ws.
Proof.
  induction ws as [|w r IH]; intros Hne H; [congruence|].
  cbn [forallb] in H. apply andb_prop in H. destruct H as [Hw Hr].
  destruct r as [|w2 r'].
  - cbn [join]. now apply split_on_no_sep.
  - change (join [sp] (w :: w2 :: r')) with (w ++ [sp] ++ join [sp] (w2 :: r')).
    change (w ++ [sp] ++ join [sp] (w2 :: r')) with (w ++ sp :: join [sp] (w2 :: r')).
    rewrite split_on_app_sep by exact Hw. f_equal. apply IH; [discriminate|exact Hr].
Qed.

(* ---- the prefix kept in front of the ZID / modify date ---- *)
Lemma pop_regular sym w r : sym <> [] ->
  pop_before_zid (sym :: w :: r) =
  if is_prio_word w then Ok (sym ++ S " " ++ w ++ S " ", r) else Ok (sym ++ S " ", w :: r).
Proof. intros H. unfold pop_before_zid. destruct sym as [|c s]; [congruence|]. reflexivity. Qed.

Definition regular (ws : list str) : Prop := ws <> [] /\ forallb no_space ws = true.

(* C05: the new ZID is inserted after the kind / priority prefix, taking the place of a leading long date *)
Theorem add_zid_plain zid sym w r :
  sym <> [] -> forallb no_space (sym :: w :: r) = true -> is_prio_word w = false -> datelike10 w = false ->
  add_zid_to_line zid (join [sp] (sym :: w :: r)) = Ok (sym ++ S " " ++ zid ++ S " " ++ join [sp] (w :: r)).
Proof.
  intros Hs Hn Hp Hd. unfold add_zid_to_line.
  change (ch " ") with sp. rewrite split_join by (try discriminate; exact Hn).
  rewrite pop_regular by exact Hs. rewrite Hp. cbn [bind]. rewrite Hd. now rewrite <- !app_assoc.
Qed.

Theorem add_zid_priority zid sym p w r :
  sym <> [] -> forallb no_space (sym :: p :: w :: r) = true -> is_prio_word p = true -> datelike10 w = false ->
  add_zid_to_line zid (join [sp] (sym :: p :: w :: r)) =
  Ok (sym ++ S " " ++ p ++ S " " ++ zid ++ S " " ++ join [sp] (w :: r)).
Proof.
  intros Hs Hn Hp Hd. unfold add_zid_to_line.
  change (ch " ") with sp. rewrite split_join by (try discriminate; exact Hn).
  rewrite pop_regular by exact Hs. rewrite Hp. cbn [bind]. rewrite Hd. now rewrite <- !app_assoc.
Qed.

Theorem add_zid_replaces_long_date zid sym d r :
  sym <> [] -> forallb no_space (sym :: d :: r) = true -> is_prio_word d = false -> datelike10 d = true ->
  add_zid_to_line zid (join [sp] (sym :: d :: r)) = Ok (sym ++ S " " ++ zid ++ S " " ++ join [sp] r).
Proof.
  intros Hs Hn Hp Hd. unfold add_zid_to_line.
  change (ch " ") with sp. rewrite split_join by (try discriminate; exact Hn).
  rewrite pop_regular by exact Hs. rewrite Hp. cbn [bind]. rewrite Hd. now rewrite <- !app_assoc.
Qed.

(* the in-memory body the index stores is the rest of the rewritten line *)
Definition no_ws (w : str) : bool := forallb (fun c => negb (is_space c)) w.

Lemma lstrip_word_first w r : w <> [] -> no_ws w = true -> lstrip (join [sp] (w :: r)) = join [sp] (w :: r).
Proof.
  intros Hne H. destruct w as [|c w']; [congruence|].
  cbn [no_ws forallb] in H. apply andb_prop in H. destruct H as [Hc _]. apply negb_true_iff in Hc.
  unfold lstrip. destruct r as [|w2 r']; cbn [join app dropwhile]; now rewrite Hc.
Qed.

Theorem body_agrees_with_line zid sym w r :
  sym <> [] -> w <> [] -> no_ws w = true -> forallb no_space (sym :: w :: r) = true ->
  is_prio_word w = false -> datelike10 w = is_long_date_spec w ->
  add_zid_to_line zid (join [sp] (sym :: w :: r)) = Ok (sym ++ S " " ++ patch_body zid (join [sp] (w :: r))).
Proof.
  intros Hs Hw Hws Hn Hp Hagree.
  assert (Hn' : forallb no_space (w :: r) = true) by (cbn [forallb] in Hn |- *; apply andb_prop in Hn; tauto).
  unfold patch_body. rewrite lstrip_word_first by assumption.
  change (ch " ") with sp. rewrite split_join by (try discriminate; exact Hn').
  destruct (is_long_date_spec w) eqn:E.
  - rewrite add_zid_replaces_long_date; auto.
  - rewrite add_zid_plain; auto.
Qed.

(* REFUTED: irregular spacing after the prefix - file and index bodies differ by a space *)
Lemma irregular_spacing_refuted :
  add_zid_to_line (S "240601#00") (S "o  P1   foo") = Ok (S "o 240601#00  P1   foo") /\
  patch_body (S "240601#00") (S "P1   foo") = S "240601#00 P1   foo".
Proof. vm_compute. auto. Qed.

(* ---- _update_zo_file touches only the first line of each listed note ---- *)
Lemma set_nth_length {A} n (x : A) l : length (set_nth n x l) = length l.
Proof. revert n. induction l as [|y r IH]; intros [|n]; simpl; auto. Qed.
Lemma set_nth_other {A} n j (x d : A) l : n <> j -> nth j (set_nth n x l) d = nth j l d.
Proof.
  revert n j. induction l as [|y r IH]; intros [|n] [|j] H; simpl; auto; try congruence.
Qed.

Theorem update_touches_only_listed f : forall notes ls ls',
  update_lines f notes ls = Ok ls' ->
  length ls' = length ls /\
  forall j, (forall n, In n notes -> fst n - 1 <> j) -> nth j ls' [] = nth j ls [].
Proof.
  induction notes as [|[ln thing] r IH]; intros ls ls' H; simpl in H.
  - inversion H; subst. auto.
  - destruct (nth_error ls (ln - 1)) as [l|]; [|discriminate].
    destruct (f thing l) as [l'| | |]; simpl in H; try discriminate.
    destruct (IH _ _ H) as [Hl Hn]. split.
    + rewrite Hl. apply set_nth_length.
    + intros j Hj. rewrite Hn.
      * apply set_nth_other. apply (Hj (ln, thing)). now left.
      * intros n Hin. apply Hj. now right.
Qed.

(* ---- C11: the modify-date line and the stamping decision ---- *)
Definition six_digits (w : str) : bool := (length w =? 6)%nat && forallb is_digit w.

Theorem mdate_inserted d sym w r :
  sym <> [] -> forallb no_space (sym :: w :: r) = true -> is_prio_word w = false -> six_digits w = false ->
  add_or_update_modify_date d (join [sp] (sym :: w :: r)) = Ok (sym ++ S " " ++ d ++ S " " ++ join [sp] (w :: r)).
Proof.
  intros Hs Hn Hp Hd. unfold add_or_update_modify_date.
  change (ch " ") with sp. rewrite split_join by (try discriminate; exact Hn).
  rewrite pop_regular by exact Hs. rewrite Hp. cbn [bind]. fold (six_digits w). rewrite Hd. now rewrite <- !app_assoc.
Qed.

Theorem mdate_replaced d sym old r :
  sym <> [] -> forallb no_space (sym :: old :: r) = true -> is_prio_word old = false -> six_digits old = true ->
  add_or_update_modify_date d (join [sp] (sym :: old :: r)) = Ok (sym ++ S " " ++ d ++ S " " ++ join [sp] r).
Proof.
  intros Hs Hn Hp Hd. unfold add_or_update_modify_date.
  change (ch " ") with sp. rewrite split_join by (try discriminate; exact Hn).
  rewrite pop_regular by exact Hs. rewrite Hp. cbn [bind]. fold (six_digits old). rewrite Hd. now rewrite <- !app_assoc.
Qed.

(* a note is stamped iff it had that ZID in the previous index state, its text or
   todo state differs from that state, and it is not already dated today *)
Theorem stamp_iff today old n :
  (exists b, stamp today old n = Some b) <->
  (exists z o, m_zid n = Some z /\ find_zid z old = Some o /\ date_eqb (m_modify n) today = false /\ changed n o = true).
Proof.
  unfold stamp. split.
  - intros (b & H). destruct (m_zid n) as [z|]; [|discriminate].
    destruct (find_zid z old) as [o|] eqn:Ef; [|discriminate].
    destruct (date_eqb (m_modify n) today) eqn:Ed; cbn [negb andb] in H; [discriminate|].
    destruct (changed n o) eqn:Ec; [|discriminate]. exists z, o. auto.
  - intros (z & o & Hz & Hf & Hd & Hc). rewrite Hz, Hf, Hd, Hc. cbn. eauto.
Qed.

(* an immediately following reindex stamps nothing: stamped notes are dated today *)
Theorem stamped_today_not_restamped today old n : date_eqb (m_modify n) today = true -> stamp today old n = None.
Proof.
  intros H. unfold stamp. destruct (m_zid n); [|reflexivity]. destruct (find_zid _ old); [|reflexivity].
  now rewrite H.
Qed.

(* an unchanged note is never stamped *)
Theorem unchanged_not_stamped today old n z o :
  m_zid n = Some z -> find_zid z old = Some o -> changed n o = false -> stamp today old n = None.
Proof. intros Hz Hf Hc. unfold stamp. rewrite Hz, Hf, Hc. now rewrite andb_false_r. Qed.

(* REFUTED: the modify-date word is assumed present iff old modify <> create *)
Lemma stamp_heuristic_refuted :
  (* explicit modify date equal to the create date: the indexed body gets two date words *)
  stamp (mkDate 2024 6 2)
        [mkM (Some (S "240101#00")) (S "240101 240101#00 old") None (mkDate 2024 1 1) (mkDate 2024 1 1)]
        (mkM (Some (S "240101#00")) (S "240101 240101#00 new") None (mkDate 2024 1 1) (mkDate 2024 1 1))
  = Some (S "240602 240101 240101#00 new") /\
  (* modify-date word removed by hand: the ZID word is dropped from the indexed body *)
  stamp (mkDate 2024 6 2)
        [mkM (Some (S "240101#00")) (S "240301 240101#00 old") None (mkDate 2024 3 1) (mkDate 2024 1 1)]
        (mkM (Some (S "240101#00")) (S "240101#00 second") None (mkDate 2024 1 1) (mkDate 2024 1 1))
  = Some (S "240602 second").
Proof. vm_compute. auto. Qed.
