(* The SOURCE of the ZID helpers, as translated on this run (Gen/PySrc.v), agrees with the hand-written model. *)
From Zorg Require Import Base.PyStr Base.Res Base.Dates Gen.Params Proofs.PyStrFacts Model.Zid Proofs.ZidFacts.
From Zorg Require Import Lex.PyLite Gen.PySrc.
From Coq Require Import ZArith Lia.

Definition py_next (s : str) : res value := call src_fns 300 (S "_get_next_id") [VStr s].
Definition agreeb (p : res value) (m : res str) : bool :=
  match p, m with
  | Ok (VStr a), Ok b => eqb_str a b
  | Exn a, Exn b => eqb_str a b
  | _, _ => false
  end.

(* _get_next_id, run by the interpreter on its translated source, is the model's successor on every one of the
   135 252 valid suffixes (and raises where the model does) *)
Lemma source_successor_all : forallb (fun s => agreeb (py_next s) (next_id s)) all_suffixes = true.
Proof. vm_cast_no_check (eq_refl true). Qed.

Lemma agree_inv (p : res value) (m : res str) :
  agreeb p m = true -> match m with Ok t => p = Ok (VStr t) | Exn e => p = Exn e | _ => False end.
Proof.
  unfold agreeb. destruct p as [[a|z0|b0| |l0]|e1| |]; destruct m as [b|e2| |]; intros A; try discriminate A.
  - apply eqb_str_eq in A. now subst.
  - apply eqb_str_eq in A. now subst.
Qed.

Theorem source_successor_is_model s :
  valid_suffix s = true ->
  match next_id s with
  | Ok t => py_next s = Ok (VStr t)
  | Exn e => py_next s = Exn e
  | _ => False
  end.
Proof.
  intros H. apply agree_inv.
  exact (proj1 (forallb_forall (fun s => agreeb (py_next s) (next_id s)) all_suffixes) source_successor_all s (valid_in_all s H)).
Qed.

(* is_zid, run on its translated source, accepts every allocatable ZID shape: date key + '#' + any valid suffix
   (the date digits only matter through "six digits", which the two keys below exercise at both ends) *)
Definition py_is_zid (z : str) : res value := call src_fns 60 (S "is_zid") [VStr z].
Definition acceptb (p : res value) : bool := match p with Ok (VBool true) => true | _ => false end.
Lemma source_is_zid_lo : forallb (fun s => acceptb (py_is_zid (S "000101" ++ S "#" ++ s))) all_suffixes = true.
Proof. vm_cast_no_check (eq_refl true). Qed.
Lemma source_is_zid_hi : forallb (fun s => acceptb (py_is_zid (S "991231" ++ S "#" ++ s))) all_suffixes = true.
Proof. vm_cast_no_check (eq_refl true). Qed.
Lemma accept_inv (p : res value) : acceptb p = true -> p = Ok (VBool true).
Proof. unfold acceptb. destruct p as [[| |[]| |]| | |]; intros A; try discriminate A; reflexivity. Qed.

Theorem source_is_zid_accepts s :
  valid_suffix s = true ->
  py_is_zid (S "000101" ++ S "#" ++ s) = Ok (VBool true) /\ py_is_zid (S "991231" ++ S "#" ++ s) = Ok (VBool true).
Proof.
  intros H. split; apply accept_inv.
  - exact (proj1 (forallb_forall (fun s => acceptb (py_is_zid (S "000101" ++ S "#" ++ s))) all_suffixes) source_is_zid_lo s (valid_in_all s H)).
  - exact (proj1 (forallb_forall (fun s => acceptb (py_is_zid (S "991231" ++ S "#" ++ s))) all_suffixes) source_is_zid_hi s (valid_in_all s H)).
Qed.

Example source_is_zid_rejects :
  py_is_zid (S "240101#0") = Ok (VBool false) /\ py_is_zid (S "240101#0000") = Ok (VBool false) /\
  py_is_zid (S "24010a#00") = Ok (VBool false) /\ py_is_zid (S "240101-00") = Ok (VBool false).
Proof. vm_compute. repeat split. Qed.
