From Zorg Require Import Base.PyStr Base.Sexp Base.Res Proofs.PyStrFacts Model.Zid Model.ActionOpen.

(* choosing option k opens the k-th target; -1 the last *)
Lemma action_option_k e z line lno (k : nat) t1 t2 ts :
  is_query_line z line = false -> targets z line = t1 :: t2 :: ts ->
  (1 <= k <= length (t1 :: t2 :: ts))%nat ->
  action e z line lno (Some (Z.of_nat k)) = open_link e (nth (k - 1) (t1 :: t2 :: ts) []).
Proof.
  intros Hq Ht Hk. unfold action. rewrite Hq, Ht.
  assert (E1 : (Z.of_nat k =? -1)%Z = false) by (apply Z.eqb_neq; lia). rewrite E1.
  assert (E2 : ((1 <=? Z.of_nat k)%Z && (Z.of_nat k <=? Z.of_nat (length (t1 :: t2 :: ts)))%Z) = true).
  { apply andb_true_intro. split; apply Z.leb_le; lia. }
  rewrite E2. rewrite Nat2Z.id. reflexivity.
Qed.

Lemma action_option_last e z line lno t1 t2 ts :
  is_query_line z line = false -> targets z line = t1 :: t2 :: ts ->
  action e z line lno (Some (-1)%Z) = open_link e (last (t1 :: t2 :: ts) []).
Proof. intros Hq Ht. unfold action. rewrite Hq, Ht. reflexivity. Qed.

Lemma action_prompt e z line lno t1 t2 ts :
  is_query_line z line = false -> targets z line = t1 :: t2 :: ts ->
  action e z line lno None = Ok ([PROMPT (join (S " ") (t1 :: t2 :: ts))], 0%Z).
Proof. intros Hq Ht. unfold action. rewrite Hq, Ht. reflexivity. Qed.

Lemma action_single e z line lno t opt :
  is_query_line z line = false -> targets z line = [t] -> action e z line lno opt = open_link e t.
Proof. intros Hq Ht. unfold action. rewrite Hq, Ht. reflexivity. Qed.

Lemma action_none e z line lno opt :
  is_query_line z line = false -> targets z line = [] ->
  action e z line lno opt = Ok ([nothing_msg lno], 0%Z).
Proof. intros Hq Ht. unfold action. rewrite Hq, Ht. reflexivity. Qed.

(* a line that consists of one link-like target (already free of outer
   punctuation) offers exactly that target: "a line containing only the k-th target" *)
Lemma scan_single_linkish z t :
  strip_chars punct t = t -> is_linkish t = true -> mem_c (ch " ") t = false ->
  targets z t = [t].
Proof.
  intros Hs Hl Hsp. unfold targets.
  assert (E : split_on (ch " ") t = [t]).
  { clear Hs Hl. induction t as [|c t IH]; [reflexivity|].
    unfold mem_c in Hsp. cbn [existsb] in Hsp. apply orb_false_elim in Hsp. destruct Hsp as [H1 H2].
    cbn [split_on]. assert (Ec : ceqb c (ch " ") = false).
    { destruct (ceqb c (ch " ")) eqn:E; auto. apply ceqb_eq in E. subst. rewrite ceqb_refl in H1. discriminate. }
    rewrite Ec. rewrite (IH H2). reflexivity. }
  rewrite E. cbn [scan]. rewrite Hs, Hl. reflexivity.
Qed.

(* a ZID alone on a line is offered (index 0) *)
Lemma scan_single_zid z t :
  strip_chars punct t = t -> strip_chars (S "[]") t = t -> is_linkish t = false -> is_zid t = true ->
  split_on (ch " ") t = [t] -> targets z t = [t].
Proof.
  intros H1 H2 Hl Hz Hsp. unfold targets. rewrite Hsp. cbn [scan].
  rewrite H1, Hl, H2, Hz. cbn [andb orb]. rewrite orb_true_r. reflexivity.
Qed.

(* REFUTED: a non-primary ZID is not offered when the first body word looks like a prefix *)
Lemma primary_flag_refuted :
  targets false (S "- 240101#05 x [240101#02]") = [] /\
  targets false (S "- 240101#05 y [240101#02]") = [S "240101#02"].
Proof. vm_compute. auto. Qed.
