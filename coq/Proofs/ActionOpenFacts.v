From Zorg Require Import Base.PyStr Base.Sexp Base.Res Proofs.PyStrFacts Model.Zid Model.ActionOpen.

(* choosing option k opens the k-th target; -1 the last *)
Lemma action_option_k e z line lno (k : nat) t1 t2 ts :
  is_query_line z line = false -> targets z line = t1 :: t2 :: ts ->
  (1 <= k <= length (t1 :: t2 :: ts))%nat ->
  action e z line lno (Some (Z.of_nat k)) = open_link e (nth (k - 1) (t1 :: t2 :: ts) []).
Proof.
  intros Hq Ht Hk. unfold action. rewrite Hq, Ht.
  assert (E1 : (Z.of_nat k =? -1)%Z = false) by (apply Z.eqb_neq; lia). rewrite E1.
  assert (E2 : ((1 <=? Z.of_nat k)%Z && (Z.of_nat k <=? Z.of_nat (length (t1 :: t2 :: ts)))%Z) = true).
  { apply andb_true_intro. split; apply Z.leb_le; lia. }
  rewrite E2. rewrite Nat2Z.id. reflexivity.
Qed.

Lemma action_option_last e z line lno t1 t2 ts :
  is_query_line z line = false -> targets z line = t1 :: t2 :: ts ->
  action e z line lno (Some (-1)%Z) = open_link e (last (t1 :: t2 :: ts) []).
Proof. intros Hq Ht. unfold action. rewrite Hq, Ht. reflexivity. Qed.

Lemma action_prompt e z line lno t1 t2 ts :
  is_query_line z line = false -> targets z line = t1 :: t2 :: ts ->
  action e z line lno None = Ok ([PROMPT (join (S " ") (t1 :: t2 :: ts))], 0%Z).
Proof. intros Hq Ht. unfold action. rewrite Hq, Ht. reflexivity. Qed.

Lemma action_single e z line lno t opt :
  is_query_line z line = false -> targets z line = [t] -> action e z line lno opt = open_link e t.
Proof. intros Hq Ht. unfold action. rewrite Hq, Ht. reflexivity. Qed.

Lemma action_none e z line lno opt :
  is_query_line z line = false -> targets z line = [] ->
  action e z line lno opt = Ok ([nothing_msg lno], 0%Z).
Proof. intros Hq Ht. unfold action. rewrite Hq, Ht. reflexivity. Qed.

(* a line that consists of one link-like target (already free of outer
   punctuation) offers exactly that target: "a line containing only the k-th target" *)
Lemma scan_single_linkish z t :
  strip_chars punct t = t -> is_linkish t = true -> mem_c (ch " ") t = false ->
  targets z t = [t].
Proof.
  intros Hs Hl Hsp. unfold targets.
  assert (E : split_on (ch " ") t = [t]).
  { clear Hs Hl. induction t as [|c t IH]; [reflexivity|].
    unfold mem_c in Hsp. cbn [existsb] in Hsp. apply orb_false_elim in Hsp. destruct Hsp as [H1 H2].
    cbn [split_on]. assert (Ec : ceqb c (ch " ") = false).
    { destruct (ceqb c (ch " ")) eqn:E; auto. apply ceqb_eq in E. subst. rewrite ceqb_refl in H1. discriminate. }
    rewrite Ec. rewrite (IH H2). reflexivity. }
  rewrite E. cbn [scan]. rewrite Hs, Hl. reflexivity.
Qed.

(* a ZID alone on a line is offered (index 0) *)
Lemma scan_single_zid z t :
  strip_chars punct t = t -> strip_chars (S "[]") t = t -> is_linkish t = false -> is_zid t = true ->
  split_on (ch " ") t = [t] -> targets z t = [t].
Proof.
  intros H1 H2 Hl Hz Hsp. unfold targets. rewrite Hsp. cbn [scan].
  rewrite H1, Hl, H2, Hz. cbn [andb orb]. rewrite orb_true_r. reflexivity.
Qed.

(* REFUTED: a non-primary ZID is not offered when the first body word looks like a prefix *)
Lemma primary_flag_refuted :
  targets false (S "- 240101#05 x [240101#02]") = [] /\
  targets false (S "- 240101#05 y [240101#02]") = [S "240101#02"].
Proof. vm_compute. auto. Qed.

(* ---------------- the property-level reading of the word scan ---------------- *)
(* what a word offers once the line's own identity is behind: itself when link-like, the ZID it holds (bare or
   bracketed) otherwise *)
Definition target_of (w0 : str) : option str :=
  let w := strip_chars punct w0 in
  let zw := strip_chars (S "[]") w in
  if is_linkish w then Some w else if is_zid zw then Some zw else None.
Fixpoint all_targets (ws : list str) : list str :=
  match ws with
  | [] => []
  | w :: r => match target_of w with Some t => t :: all_targets r | None => all_targets r end
  end.

Lemma scan_found z : forall ws first, scan z first true ws = all_targets ws.
Proof.
  induction ws as [|w0 r IH]; intros first; [reflexivity|].
  cbn [scan all_targets]. unfold target_of.
  destruct (is_linkish (strip_chars punct w0)); [now rewrite IH|].
  destruct (is_zid (strip_chars (S "[]") (strip_chars punct w0))); cbn [andb orb negb]; now rewrite IH.
Qed.

(* on query pages (.zoq files) every ZID is a target, whatever precedes it *)
Lemma scan_zoq : forall ws first found, scan true first found ws = all_targets ws.
Proof.
  induction ws as [|w0 r IH]; intros first found; [reflexivity|].
  cbn [scan all_targets]. unfold target_of.
  destruct (is_linkish (strip_chars punct w0)); [now rewrite IH|].
  destruct (is_zid (strip_chars (S "[]") (strip_chars punct w0))).
  - cbn [andb]. rewrite orb_true_r. cbn [orb]. now rewrite IH.
  - cbn [andb]. destruct (negb found && _ && _ && _ && _); now rewrite IH.
Qed.

(* the words of the identity prefix of an item line: kind character, priority, six-digit date, the line's own ZID *)
Definition prefix_like (w0 : str) : Prop :=
  let w := strip_chars punct w0 in
  is_linkish w = false /\
  (is_prefix_symbol w || is_priority_word w || is_short_date_spec w || is_zid w = true).
(* an ordinary word: none of the above, no link, holds no ZID *)
Definition ordinary (w0 : str) : Prop :=
  let w := strip_chars punct w0 in
  is_linkish w = false /\ is_zid (strip_chars (S "[]") w) = false /\ is_prefix_symbol w = false /\
  is_priority_word w = false /\ is_short_date_spec w = false /\ is_zid w = false.

Lemma scan_prefix : forall pre rest,
  Forall prefix_like pre -> scan false false false (pre ++ rest) = scan false false false rest.
Proof.
  induction pre as [|w0 pre IH]; intros rest H; [reflexivity|].
  inversion H as [|? ? (Hl & Hp) Hr]; subst. cbn [app scan]. rewrite Hl. cbn [orb]. rewrite andb_false_r.
  replace (negb false && negb (is_prefix_symbol (strip_chars punct w0)) && negb (is_priority_word (strip_chars punct w0))
           && negb (is_short_date_spec (strip_chars punct w0)) && negb (is_zid (strip_chars punct w0))) with false.
  - apply IH. exact Hr.
  - symmetry. cbn [negb andb].
    destruct (is_prefix_symbol (strip_chars punct w0)); [reflexivity|].
    destruct (is_priority_word (strip_chars punct w0)); [reflexivity|].
    destruct (is_short_date_spec (strip_chars punct w0)); [reflexivity|].
    cbn [orb] in Hp. rewrite Hp. reflexivity.
Qed.

(* An item line: kind character, the rest of the identity prefix (priority, modify date, the note's own ZID - in
   any combination), an ordinary word, then anything. The targets are exactly the link-like words and the ZIDs
   (bare or bracketed) AFTER that word, in line order; nothing of the prefix is offered. *)
Theorem scan_item_line kind pre w1 rest :
  prefix_like kind -> is_zid (strip_chars (S "[]") (strip_chars punct kind)) = false ->
  Forall prefix_like pre -> ordinary w1 ->
  scan false true false (kind :: pre ++ w1 :: rest) = all_targets rest.
Proof.
  intros (Kl & Kp) Kz Hpre (O1 & O2 & O3 & O4 & O5 & O6).
  cbn [scan]. rewrite Kl, Kz. cbn [andb].
  replace (negb false && negb (is_prefix_symbol (strip_chars punct kind)) && negb (is_priority_word (strip_chars punct kind))
           && negb (is_short_date_spec (strip_chars punct kind)) && negb (is_zid (strip_chars punct kind))) with false.
  2:{ symmetry. cbn [negb andb].
      destruct (is_prefix_symbol (strip_chars punct kind)); [reflexivity|].
      destruct (is_priority_word (strip_chars punct kind)); [reflexivity|].
      destruct (is_short_date_spec (strip_chars punct kind)); [reflexivity|].
      cbn [orb] in Kp. rewrite Kp. reflexivity. }
  rewrite scan_prefix by exact Hpre. cbn [scan]. rewrite O1, O2, O3, O4, O5, O6. cbn [andb negb].
  apply scan_found.
Qed.

Example scan_item_line_example :
  let ws := split_on (ch " ") (S "o P1 240601 240101#05 see [[foo]], ([[bar#sec]]) [240101#02] 240102#03.") in
  ws = S "o" :: [S "P1"; S "240601"; S "240101#05"] ++ S "see" :: [S "[[foo]],"; S "([[bar#sec]])"; S "[240101#02]"; S "240102#03."] /\
  prefix_like (S "o") /\ Forall prefix_like [S "P1"; S "240601"; S "240101#05"] /\ ordinary (S "see") /\
  all_targets [S "[[foo]],"; S "([[bar#sec]])"; S "[240101#02]"; S "240102#03."] =
  [S "[[foo]]"; S "[[bar#sec]]"; S "240101#02"; S "240102#03"].
Proof.
  cbv zeta. split; [vm_compute; reflexivity|]. split; [split; vm_compute; reflexivity|].
  split; [repeat constructor; vm_compute; reflexivity|]. split; [repeat split; vm_compute; reflexivity|].
  vm_compute. reflexivity.
Qed.
