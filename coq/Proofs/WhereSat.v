(* C03: the SQL evaluation of a whole filter = the property-level reading, for filters whose text / file atoms
   avoid the LIKE metacharacters (the known findings), by induction over the filter structure. *)
From Zorg Require Import Base.PyStr Base.Sexp Base.Res Base.Dates Proofs.PyStrFacts Model.Zid Model.FileListener
  Model.QueryListener Model.Where Proofs.WhereFacts.

Definition desc_cs (d : desc_filter) : bool :=
  match df_case d with Some b => b | None => negb (islower (df_value d)) end.
(* the property's reading of a text atom: literal containment, case-insensitive unless the case-sensitive flag is
   given or the text has an upper-case letter; negation complements *)
Definition sat_desc (n : inote) (d : desc_filter) : bool :=
  xorb (df_neg d) (if desc_cs d then contains (df_value d) (i_body n) else contains_ci (df_value d) (i_body n)).
(* f=: a *-glob over the page path, every other character literal (ASCII case-insensitive as SQLite's LIKE) *)
Definition sat_file (n : inote) (f : str * bool) : bool := xorb (snd f) (glob_ci (fst f) (i_page n)).

Lemma desc_ok_sat n d : clean_text (df_value d) = true -> desc_ok n d = sat_desc n d.
Proof.
  intros Hc. destruct d as [v c neg]. cbn [df_value] in Hc. unfold sat_desc, desc_cs. cbn [df_case df_value df_neg].
  assert (CS : forall c0, (match c0 with Some b => b | None => negb (islower v) end) = true ->
                          desc_ok n (mkDF v c0 neg) = xorb neg (contains v (i_body n))).
  { intros c0 H. unfold desc_ok. cbn [df_case df_value df_neg]. rewrite H.
    unfold like_arg. change (S "_") with [ch "_"]. rewrite (replace_char_absent _ _ _ (clean_no_underscore v Hc)).
    assert (Hp : forallb (plain_c None) v = true).
    { unfold clean_text in Hc. rewrite forallb_forall in *. intros x Hx. specialize (Hc x Hx).
      unfold plain_c in *. apply andb_prop in Hc. destruct Hc as [Hc _]. now rewrite Hc. }
    rewrite like_is_containment by (try reflexivity; exact Hp).
    destruct (contains v (i_body n)) eqn:E.
    - rewrite (contains_ci_of _ _ E). destruct neg; reflexivity.
    - rewrite andb_false_r. destruct neg; reflexivity. }
  assert (CI : forall c0, (match c0 with Some b => b | None => negb (islower v) end) = false ->
                          desc_ok n (mkDF v c0 neg) = xorb neg (contains_ci v (i_body n))).
  { intros c0 H. unfold desc_ok. cbn [df_case df_value df_neg]. rewrite H.
    unfold like_arg. change (S "_") with [ch "_"]. rewrite (replace_char_absent _ _ _ (clean_no_underscore v Hc)).
    rewrite !lower_app. change (lower (S "%")) with (S "%").
    rewrite like_is_containment; [|reflexivity|now apply clean_lower].
    rewrite contains_ci_lower. destruct neg; destruct (contains_ci v (i_body n)); reflexivity. }
  destruct (match c with Some b => b | None => negb (islower v) end) eqn:E; [apply CS|apply CI]; exact E.
Qed.

Lemma file_ok_sat n f : clean_glob (fst f) = true -> file_ok n f = sat_file n f.
Proof. destruct f as [g neg]. intros H. apply file_filter_is_glob. exact H. Qed.

Section Sat.
  Variable today : date.
  Variable ix : index.

  (* the filter evaluation with the property-level reading of the text and file atoms *)
  Fixpoint and_sat (fuel : nat) (n : inote) (f : and_filter) : res (option bool) :=
    match fuel with
    | O => OutOfFuel
    | Datatypes.S fu =>
        match f with AF ki ar cx pe pj cr mo pr de fi li ps ors =>
          let c1 := match ki with [] => None | _ => Some (existsb (kind_ok n) ki) end in
          let c2 := match ps with [] => None
                    | _ => Some (match i_prio n with Some p => mem_str p ps | None => false end) end in
          let tags := map (has_tag (i_areas n)) ar ++ map (has_tag (i_contexts n)) cx ++
                      map (has_tag (i_people n)) pe ++ map (has_tag (i_projects n)) pj in
          let c3 := match tags with [] => None | _ => Some (forallb (fun b => b) tags) end in
          c4 <- match ors with
                | [] => Ok None
                | _ => b <- all_res (fun o => any_res (fun g => x <- and_sat fu n g ;;
                                                                match x with Some v => Ok v | None => Exn (S "IndexError") end) o) ors ;;
                       Ok (Some b)
                end ;;
          let rngs := map (in_range (i_create n)) cr ++ map (in_range (i_modify n)) mo in
          let c5 := match rngs with [] => None | _ => Some (forallb (fun b => b) rngs) end in
          c6 <- match pr with [] => Ok None | _ => b <- all_res (prop_ok today n) pr ;; Ok (Some b) end ;;
          let c7 := match de with [] => None | _ => Some (forallb (sat_desc n) de) end in
          let c8 := match fi with [] => None | _ => Some (forallb (sat_file n) fi) end in
          let c9 := match li with [] => None | _ => Some (forallb (link_ok ix n) li) end in
          let cs := flat_map (fun c => match c with Some b => [b] | None => [] end) [c1; c2; c3; c4; c5; c6; c7; c8; c9] in
          Ok (match cs with [] => None | _ => Some (forallb (fun b => b) cs) end)
        end
    end.

  Fixpoint clean_af (fuel : nat) (f : and_filter) : bool :=
    match fuel with
    | O => true
    | Datatypes.S fu =>
        match f with AF ki ar cx pe pj cr mo pr de fi li ps ors =>
          forallb (fun d => clean_text (df_value d)) de && forallb (fun x => clean_glob (fst x)) fi &&
          forallb (forallb (clean_af fu)) ors
        end
    end.

  Lemma forallb_ext_in {A} (p q : A -> bool) l : (forall x, In x l -> p x = q x) -> forallb p l = forallb q l.
  Proof.
    induction l as [|x l IH]; intros H; [reflexivity|]. cbn. rewrite H by (left; reflexivity).
    rewrite IH; [reflexivity|]. intros y Hy. apply H. right. exact Hy.
  Qed.
  Lemma any_res_ext {A} (p q : A -> res bool) l : (forall x, In x l -> p x = q x) -> any_res p l = any_res q l.
  Proof.
    unfold any_res. induction l as [|x l IH]; intros H; [reflexivity|]. cbn [fold_right]. rewrite H by (left; reflexivity).
    rewrite IH; [reflexivity|]. intros y Hy. apply H. right. exact Hy.
  Qed.
  Lemma all_res_ext {A} (p q : A -> res bool) l : (forall x, In x l -> p x = q x) -> all_res p l = all_res q l.
  Proof.
    unfold all_res. induction l as [|x l IH]; intros H; [reflexivity|]. cbn [fold_right]. rewrite H by (left; reflexivity).
    rewrite IH; [reflexivity|]. intros y Hy. apply H. right. exact Hy.
  Qed.

  Theorem and_ok_is_sat : forall fuel n f, clean_af fuel f = true -> and_ok today ix fuel n f = and_sat fuel n f.
  Proof.
    induction fuel as [|fu IH]; intros n f Hc; [reflexivity|].
    destruct f as [ki ar cx pe pj cr mo pr de fi li ps ors]. cbn [clean_af] in Hc.
    apply andb_prop in Hc. destruct Hc as [Hc Hors]. apply andb_prop in Hc. destruct Hc as [Hde Hfi].
    cbn [and_ok and_sat].
    assert (E4 : all_res (fun o => any_res (fun g => x <- and_ok today ix fu n g ;;
                                                     match x with Some v => Ok v | None => Exn (S "IndexError") end) o) ors =
                 all_res (fun o => any_res (fun g => x <- and_sat fu n g ;;
                                                     match x with Some v => Ok v | None => Exn (S "IndexError") end) o) ors).
    { apply all_res_ext. intros o Ho. apply any_res_ext. intros g Hg.
      rewrite IH; [reflexivity|]. rewrite forallb_forall in Hors. specialize (Hors o Ho).
      rewrite forallb_forall in Hors. apply Hors. exact Hg. }
    rewrite E4.
    rewrite (forallb_ext_in (desc_ok n) (sat_desc n) de)
      by (intros d Hd; apply desc_ok_sat; rewrite forallb_forall in Hde; apply Hde; exact Hd).
    rewrite (forallb_ext_in (file_ok n) (sat_file n) fi)
      by (intros x Hx; apply file_ok_sat; rewrite forallb_forall in Hfi; apply Hfi; exact Hx).
    reflexivity.
  Qed.

  Definition or_sat (n : inote) (o : list and_filter) : res bool :=
    any_res (fun g => x <- and_sat 40 n g ;; match x with Some v => Ok v | None => Exn (S "IndexError") end) o.

  (* WHERE returns exactly the notes that satisfy the filter (in ZID order) *)
  Theorem eval_where_is_filter_sat o :
    o <> [] -> forallb (clean_af 40) o = true ->
    eval_where today ix (Some o) =
    (sel <- seq_res (map (fun n => b <- or_sat n o ;; Ok (n, b)) ix) ;;
     Ok (sort_str (map (fun nb => i_zid (fst nb)) (filter (fun nb => snd nb) sel)))).
  Proof.
    intros Hne Hc. unfold eval_where. destruct o as [|g o]; [congruence|].
    f_equal. f_equal. apply map_ext_in. intros n _. unfold or_ok, or_sat.
    rewrite (any_res_ext _ (fun g0 => x <- and_sat 40 n g0 ;; match x with Some v => Ok v | None => Exn (S "IndexError") end)); [reflexivity|].
    intros g0 Hg. rewrite and_ok_is_sat; [reflexivity|]. rewrite forallb_forall in Hc. apply Hc. exact Hg.
  Qed.
End Sat.
