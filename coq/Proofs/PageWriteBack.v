(* C05 / C11 at PAGE level: the write-back (_update_zo_file with _add_zid_to_line / _add_or_update_modify_date),
   run on the canonical text of ANY abstract page with the (line, thing) pairs zorg hands it, yields exactly the
   canonical text of the same page with the things written into identity position of the items on those lines -
   every other line, and every other word of the rewritten lines, untouched. *)
From Zorg Require Import Base.PyStr Base.Sexp Base.Res Base.Dates Gen.Params Proofs.PyStrFacts Model.Zid Model.FileListener
  Model.QueryListener Model.PageSyntax Model.PageText Model.WriteBack Proofs.WriteBackFacts Proofs.PageFacts
  Proofs.ItemWriteBack Model.PageLines.
From Coq Require Import Lia.

(* ---------------- lists ---------------- *)
Lemma nth_error_app_len {A} (pre : list A) y r : nth_error (pre ++ y :: r) (length pre) = Some y.
Proof. induction pre as [|x pre IH]; [reflexivity|exact IH]. Qed.
Lemma set_nth_app_len {A} (pre : list A) x y r : set_nth (length pre) x (pre ++ y :: r) = pre ++ x :: r.
Proof. induction pre as [|z pre IH]; [reflexivity|]. cbn [length app set_nth]. now rewrite IH. Qed.

Lemma targets_of_cons pick l it r :
  targets_of pick ((l, it) :: r) = match pick l it with Some x => [(l, x)] | None => [] end ++ targets_of pick r.
Proof. reflexivity. Qed.

(* ---------------- the flat lemma: a write-back over rows ---------------- *)
Section Flat.
  Variables (f : str -> str -> res str) (g : str -> item -> item) (pick : nat -> item -> option str).

  Definition good_rows (l : nat) (rows : list row) : Prop :=
    forall l' it x, In (l', it) (row_items l rows) -> pick l' it = Some x ->
                    f x (render_item it) = Ok (render_item (g x it)).

  Lemma good_tail l r rows : good_rows l (r :: rows) -> good_rows (Datatypes.S l) rows.
  Proof.
    intros H l' it x Hin Hp. apply (H l' it x); [|exact Hp].
    destruct r as [s|it0]; cbn [row_items]; [exact Hin|right; exact Hin].
  Qed.

  Lemma update_rows : forall rows pre post,
    good_rows (Datatypes.S (length pre)) rows ->
    update_lines f (targets_of pick (row_items (Datatypes.S (length pre)) rows)) (pre ++ map row_text rows ++ post) =
    Ok (pre ++ map row_text (lmap_rows (apply_pick pick g) (Datatypes.S (length pre)) rows) ++ post).
  Proof.
    induction rows as [|r rows IH]; intros pre post Hg; [reflexivity|].
    assert (Hg' := good_tail _ _ _ Hg).
    assert (Elen : forall y, Datatypes.S (Datatypes.S (length pre)) = Datatypes.S (length (pre ++ [y])))
      by (intros y; rewrite app_length; cbn [length]; lia).
    destruct r as [s|it].
    - cbn [row_items lmap_rows map row_text app].
      rewrite (Elen s) in *.
      replace (pre ++ s :: map row_text rows ++ post) with ((pre ++ [s]) ++ map row_text rows ++ post)
        by (now rewrite <- app_assoc).
      rewrite (IH (pre ++ [s]) post Hg'). now rewrite <- app_assoc.
    - cbn [row_items lmap_rows map row_text app]. rewrite targets_of_cons.
      unfold apply_pick at 1.
      destruct (pick (Datatypes.S (length pre)) it) as [x|] eqn:Ep.
      + cbn [app update_lines]. replace (Datatypes.S (length pre) - 1) with (length pre) by lia.
        rewrite nth_error_app_len.
        rewrite (Hg (Datatypes.S (length pre)) it x (or_introl eq_refl) Ep). cbn [bind].
        rewrite set_nth_app_len.
        rewrite (Elen (render_item (g x it))) in *.
        replace (pre ++ render_item (g x it) :: map row_text rows ++ post)
          with ((pre ++ [render_item (g x it)]) ++ map row_text rows ++ post) by (now rewrite <- app_assoc).
        rewrite (IH (pre ++ [render_item (g x it)]) post Hg'). now rewrite <- app_assoc.
      + cbn [app]. rewrite (Elen (render_item it)) in *.
        replace (pre ++ render_item it :: map row_text rows ++ post)
          with ((pre ++ [render_item it]) ++ map row_text rows ++ post) by (now rewrite <- app_assoc).
        rewrite (IH (pre ++ [render_item it]) post Hg'). now rewrite <- app_assoc.
  Qed.
End Flat.

(* ---------------- rows of a rewritten page = rewritten rows ---------------- *)
Lemma lmap_rows_app h : forall a l b, lmap_rows h l (a ++ b) = lmap_rows h l a ++ lmap_rows h (l + length a) b.
Proof.
  induction a as [|r a IH]; intros l b; cbn [app length lmap_rows]; [now rewrite Nat.add_0_r|].
  replace (l + Datatypes.S (length a)) with (Datatypes.S l + length a) by lia.
  destruct r; cbn [lmap_rows app]; rewrite IH; reflexivity.
Qed.
Lemma row_items_app : forall a l b, row_items l (a ++ b) = row_items l a ++ row_items (l + length a) b.
Proof.
  induction a as [|r a IH]; intros l b; cbn [app length row_items]; [now rewrite Nat.add_0_r|].
  replace (l + Datatypes.S (length a)) with (Datatypes.S l + length a) by lia.
  destruct r; cbn [row_items app]; rewrite IH; reflexivity.
Qed.

Lemma secs_lines_fix subs :
  (fix go (ss : list gsec) : nat := match ss with [] => 0 | s' :: r => sec_lines s' + go r end) subs = secs_lines subs.
Proof. induction subs as [|s r IH]; [reflexivity|]. cbn [secs_lines]. now rewrite IH. Qed.
Lemma sec_lines_eq t bs subs : sec_lines (GSec t bs subs) = 2 + blocks_lines bs + secs_lines subs.
Proof. cbn [sec_lines]. now rewrite secs_lines_fix. Qed.
Lemma sec_rows_eq lvl t bs subs :
  sec_rows lvl (GSec t bs subs) =
  [RText (ruler_text lvl ++ words_text t); RText []] ++ blocks_rows bs ++ secs_rows (Datatypes.S lvl) subs.
Proof.
  cbn [sec_rows]. do 2 f_equal. induction subs as [|s r IH]; [reflexivity|]. cbn [secs_rows]. now rewrite IH.
Qed.
Lemma lmap_sec_eq h l t bs subs :
  lmap_sec h l (GSec t bs subs) = GSec t (lmap_blocks h (l + 2) bs) (lmap_secs h (l + 2 + blocks_lines bs) subs).
Proof.
  cbn [lmap_sec]. f_equal. generalize (l + 2 + blocks_lines bs). induction subs as [|s r IH]; intros l'; [reflexivity|].
  cbn [lmap_secs]. now rewrite IH.
Qed.

Lemma block_rows_length b : length (block_rows b) = Datatypes.S (length b).
Proof. unfold block_rows. rewrite app_length, map_length. cbn [length]. lia. Qed.
Lemma blocks_rows_length bs : length (blocks_rows bs) = blocks_lines bs.
Proof. induction bs as [|b r IH]; [reflexivity|]. cbn [blocks_rows blocks_lines]. rewrite app_length, block_rows_length, IH. lia. Qed.
Lemma secs_rows_length_of (P : gsec -> Prop) :
  forall ss, Forall (fun s => forall lvl, length (sec_rows lvl s) = sec_lines s) ss ->
  forall lvl, length (secs_rows lvl ss) = secs_lines ss.
Proof.
  induction ss as [|s r IH]; intros H lvl; [reflexivity|]. inversion H as [|? ? Hs Hr]; subst.
  cbn [secs_rows secs_lines]. rewrite app_length, Hs, (IH Hr). reflexivity.
Qed.
Lemma sec_rows_length : forall s lvl, length (sec_rows lvl s) = sec_lines s.
Proof.
  induction s as [t bs subs IH] using gsec_ind2. intros lvl. rewrite sec_rows_eq, sec_lines_eq.
  rewrite !app_length, blocks_rows_length, (secs_rows_length_of (fun _ => True) subs IH). cbn [length]. lia.
Qed.
Lemma secs_rows_length ss lvl : length (secs_rows lvl ss) = secs_lines ss.
Proof. apply (secs_rows_length_of (fun _ => True)). apply Forall_forall. intros s _. apply sec_rows_length. Qed.

(* rewriting keeps the number of lines *)
Lemma lmap_items_length h : forall its l, length (lmap_items h l its) = length its.
Proof. induction its as [|i r IH]; intros l; [reflexivity|]. cbn [lmap_items length]. now rewrite IH. Qed.
Lemma lmap_blocks_lines h : forall bs l, blocks_lines (lmap_blocks h l bs) = blocks_lines bs.
Proof. induction bs as [|b r IH]; intros l; [reflexivity|]. cbn [lmap_blocks blocks_lines]. now rewrite lmap_items_length, IH. Qed.
Lemma lmap_secs_lines_of h :
  forall ss, Forall (fun s => forall l, sec_lines (lmap_sec h l s) = sec_lines s) ss ->
  forall l, secs_lines (lmap_secs h l ss) = secs_lines ss.
Proof.
  induction ss as [|s r IH]; intros H l; [reflexivity|]. inversion H as [|? ? Hs Hr]; subst.
  cbn [lmap_secs secs_lines]. now rewrite Hs, (IH Hr).
Qed.
Lemma lmap_sec_lines h : forall s l, sec_lines (lmap_sec h l s) = sec_lines s.
Proof.
  induction s as [t bs subs IH] using gsec_ind2. intros l. rewrite lmap_sec_eq, !sec_lines_eq.
  now rewrite lmap_blocks_lines, (lmap_secs_lines_of h subs IH).
Qed.
Lemma lmap_secs_lines h ss l : secs_lines (lmap_secs h l ss) = secs_lines ss.
Proof. apply lmap_secs_lines_of. apply Forall_forall. intros s _. apply lmap_sec_lines. Qed.

Lemma items_rows_lmap h : forall its l, map elem_row (lmap_items h l its) = lmap_rows h l (map elem_row its).
Proof.
  induction its as [|[i|ws] r IH]; intros l; [reflexivity| |]; cbn [lmap_items lmap_elem map elem_row lmap_rows]; now rewrite IH.
Qed.
Lemma block_rows_lmap h b l : block_rows (lmap_items h l b) = lmap_rows h l (block_rows b).
Proof.
  unfold block_rows. rewrite lmap_rows_app, items_rows_lmap. reflexivity.
Qed.
Lemma blocks_rows_lmap h : forall bs l, blocks_rows (lmap_blocks h l bs) = lmap_rows h l (blocks_rows bs).
Proof.
  induction bs as [|b r IH]; intros l; [reflexivity|]. cbn [lmap_blocks blocks_rows].
  rewrite lmap_rows_app, block_rows_lmap, IH, block_rows_length. reflexivity.
Qed.
Lemma secs_rows_lmap_of h :
  forall ss, Forall (fun s => forall lvl l, sec_rows lvl (lmap_sec h l s) = lmap_rows h l (sec_rows lvl s)) ss ->
  forall lvl l, secs_rows lvl (lmap_secs h l ss) = lmap_rows h l (secs_rows lvl ss).
Proof.
  induction ss as [|s r IH]; intros H lvl l; [reflexivity|]. inversion H as [|? ? Hs Hr]; subst.
  cbn [lmap_secs secs_rows]. rewrite lmap_rows_app, Hs, (IH Hr), sec_rows_length. reflexivity.
Qed.
Lemma sec_rows_lmap h : forall s lvl l, sec_rows lvl (lmap_sec h l s) = lmap_rows h l (sec_rows lvl s).
Proof.
  induction s as [t bs subs IH] using gsec_ind2. intros lvl l. rewrite lmap_sec_eq, !sec_rows_eq.
  rewrite blocks_rows_lmap, (secs_rows_lmap_of h subs IH).
  rewrite (lmap_rows_app h [RText (ruler_text lvl ++ words_text t); RText []]).
  rewrite (lmap_rows_app h (blocks_rows bs)). rewrite blocks_rows_length. cbn [length lmap_rows app].
  repeat f_equal; lia.
Qed.
Lemma secs_rows_lmap h ss lvl l : secs_rows lvl (lmap_secs h l ss) = lmap_rows h l (secs_rows lvl ss).
Proof. apply secs_rows_lmap_of. apply Forall_forall. intros s _. apply sec_rows_lmap. Qed.

Theorem page_rows_lmap h pg : page_rows (lmap_page h pg) = lmap_rows h 1 (page_rows pg).
Proof.
  unfold page_rows, lmap_page. cbn [pg_title pg_blocks pg_h2s pg_h1s].
  rewrite blocks_rows_lmap, !secs_rows_lmap.
  rewrite (lmap_rows_app h [RText (S "#" ++ words_text (pg_title pg)); RText []]).
  rewrite (lmap_rows_app h (blocks_rows (pg_blocks pg))).
  rewrite (lmap_rows_app h (secs_rows 1 (pg_h2s pg))).
  rewrite blocks_rows_length, secs_rows_length. cbn [length lmap_rows app].
  repeat f_equal; lia.
Qed.

Lemma row_items_lmap h : forall rows l,
  row_items l (lmap_rows h l rows) = map (fun li => (fst li, h (fst li) (snd li))) (row_items l rows).
Proof.
  induction rows as [|r rows IH]; intros l; [reflexivity|].
  destruct r; cbn [lmap_rows row_items map fst snd]; now rewrite IH.
Qed.

(* ---------------- the notes of a page sit on the item rows, in order ---------------- *)
Definition note_key (n : note) : nat * option str := (n_line n, n_zid n).
Definition item_key (li : nat * item) : nat * option str := (fst li, ident_zid (i_ident (snd li))).

Section Keys.
  Variable today : date.
  Lemma items_keys ot op od key : forall its l,
    map note_key (spec_items today ot op od key l its) = map item_key (row_items l (map elem_row its)).
  Proof.
    induction its as [|[i|ws] r IH]; intros l; [reflexivity| |]; cbn [spec_items map elem_row row_items]; now rewrite IH.
  Qed.
  Lemma block_keys ot op od key b l :
    map note_key (spec_items today ot op od key l b) = map item_key (row_items l (block_rows b)).
  Proof.
    unfold block_rows. rewrite row_items_app. cbn [row_items]. rewrite app_nil_r. apply items_keys.
  Qed.
  Lemma blocks_keys_rows ot op od parent : forall bs b0 l,
    map note_key (spec_blocks today ot op od parent b0 l bs) = map item_key (row_items l (blocks_rows bs)).
  Proof.
    induction bs as [|b r IH]; intros b0 l; [reflexivity|]. cbn [spec_blocks blocks_rows].
    rewrite map_app, row_items_app, map_app, block_keys, IH, block_rows_length. reflexivity.
  Qed.
  Definition SecKeyRows (s : gsec) : Prop := forall lvl ot op od path l,
    map note_key (spec_sec today lvl ot op od path l s) = map item_key (row_items l (sec_rows lvl s)).
  Lemma secs_keys_rows_of :
    forall ss, Forall SecKeyRows ss -> forall lvl ot op od parent j l,
    map note_key (spec_secs today lvl ot op od parent j l ss) = map item_key (row_items l (secs_rows lvl ss)).
  Proof.
    induction ss as [|s r IH]; intros H lvl ot op od parent j l; [reflexivity|]. inversion H as [|? ? Hs Hr]; subst.
    cbn [spec_secs secs_rows]. rewrite map_app, row_items_app, map_app, Hs, (IH Hr), sec_rows_length. reflexivity.
  Qed.
  Lemma sec_keys_rows : forall s, SecKeyRows s.
  Proof.
    induction s as [t bs subs IH] using gsec_ind2. intros lvl ot op od path l.
    rewrite section_scope, sec_rows_eq. cbv zeta.
    rewrite map_app, blocks_keys_rows, (secs_keys_rows_of subs IH).
    rewrite (row_items_app [RText (ruler_text lvl ++ words_text t); RText []]).
    rewrite (row_items_app (blocks_rows bs)). rewrite blocks_rows_length. cbn [row_items length app].
    rewrite map_app. repeat f_equal; lia.
  Qed.
  Lemma secs_keys_rows ss lvl ot op od parent j l :
    map note_key (spec_secs today lvl ot op od parent j l ss) = map item_key (row_items l (secs_rows lvl ss)).
  Proof. apply secs_keys_rows_of. apply Forall_forall. intros s _. apply sec_keys_rows. Qed.

  Theorem page_keys pg : map note_key (spec_page today pg) = map item_key (row_items 1 (page_rows pg)).
  Proof.
    unfold spec_page, page_rows. cbv zeta.
    rewrite !map_app, blocks_keys_rows, !secs_keys_rows.
    rewrite (row_items_app [RText (S "#" ++ words_text (pg_title pg)); RText []]).
    rewrite (row_items_app (blocks_rows (pg_blocks pg))).
    rewrite (row_items_app (secs_rows 1 (pg_h2s pg))).
    rewrite blocks_rows_length, secs_rows_length. cbn [row_items length app]. rewrite !map_app.
    repeat f_equal; lia.
  Qed.
End Keys.

(* what zorg hands the write-back, read off the notes of the page *)
Definition zid_targets (zf : nat -> str) (notes : list note) : list (nat * str) :=
  flat_map (fun n => match n_zid n with None => [(n_line n, zf (n_line n))] | Some _ => [] end) notes.
Definition mdate_targets (d : str) (chosen : nat -> bool) (notes : list note) : list (nat * str) :=
  flat_map (fun n => match n_zid n with Some _ => if chosen (n_line n) then [(n_line n, d)] else [] | None => [] end) notes.

Lemma flat_map_keys {A B K C} (ka : A -> K) (kb : B -> K) (F : K -> list C) fa fb la lb :
  map ka la = map kb lb -> (forall a, fa a = F (ka a)) -> (forall b, fb b = F (kb b)) ->
  flat_map fa la = flat_map fb lb.
Proof.
  intros H Ha Hb. revert lb H. induction la as [|a la IH]; intros [|b lb] H; try discriminate; [reflexivity|].
  cbn [map] in H. injection H as H1 H2. cbn [flat_map]. now rewrite Ha, Hb, H1, (IH lb H2).
Qed.

Lemma zid_targets_rows today zf pg :
  zid_targets zf (spec_page today pg) = targets_of (pick_zid zf) (row_items 1 (page_rows pg)).
Proof.
  unfold zid_targets, targets_of.
  apply (flat_map_keys note_key item_key
           (fun k : nat * option str => match snd k with None => [(fst k, zf (fst k))] | Some _ => [] end));
    [apply page_keys|reflexivity|].
  intros [l it]. unfold item_key, pick_zid, needs_zid. cbn [fst snd]. destruct (i_ident it); reflexivity.
Qed.
Lemma mdate_targets_rows today d chosen pg :
  mdate_targets d chosen (spec_page today pg) = targets_of (pick_mdate d chosen) (row_items 1 (page_rows pg)).
Proof.
  unfold mdate_targets, targets_of.
  apply (flat_map_keys note_key item_key
           (fun k : nat * option str => match snd k with Some _ => if chosen (fst k) then [(fst k, d)] else [] | None => [] end));
    [apply page_keys|reflexivity|].
  intros [l it]. unfold item_key, pick_mdate, has_zid. cbn [fst snd].
  destruct (i_ident it); cbn [ident_zid]; destruct (chosen l); reflexivity.
Qed.

(* ---------------- text level: split / join on newlines ---------------- *)
Lemma split_lacks c w : lacks c w = true -> split_on c w = [w].
Proof.
  induction w as [|x w IH]; intros H; [reflexivity|].
  cbn [lacks forallb] in H. apply andb_prop in H. destruct H as [Hc Hw]. apply negb_true_iff in Hc.
  cbn [split_on]. rewrite Hc. rewrite (IH Hw). reflexivity.
Qed.
Lemma split_app_sep c w r : lacks c w = true -> split_on c (w ++ c :: r) = w :: split_on c r.
Proof.
  induction w as [|x w IH]; intros H.
  - cbn [app split_on]. now rewrite ceqb_refl.
  - cbn [lacks forallb] in H. apply andb_prop in H. destruct H as [Hc Hw]. apply negb_true_iff in Hc.
    cbn [app split_on]. rewrite Hc. rewrite (IH Hw). reflexivity.
Qed.
Lemma split_join_gen c ws : ws <> [] -> forallb (lacks c) ws = true -> split_on c (join [c] ws) = ws.
Proof.
  induction ws as [|w r IH]; intros Hne H; [congruence|].
  cbn [forallb] in H. apply andb_prop in H. destruct H as [Hw Hr].
  destruct r as [|w2 r'].
  - cbn [join]. now apply split_lacks.
  - change (join [c] (w :: w2 :: r')) with (w ++ c :: join [c] (w2 :: r')).
    rewrite split_app_sep by exact Hw. f_equal. apply IH; [discriminate|exact Hr].
Qed.
Lemma split_lines_text ls : forallb (lacks nlc10) ls = true -> split_on nlc10 (lines_text ls) = ls ++ [[]].
Proof.
  intros H. unfold lines_text. apply split_join_gen; [destruct ls; discriminate|].
  rewrite forallb_app, H. reflexivity.
Qed.

(* ---------------- the page-level write-back theorem ---------------- *)
Section PageWB.
  Variables (f : str -> str -> res str) (g : str -> item -> item) (pick : nat -> item -> option str).

  Theorem write_back_page pg :
    good_rows f g pick 1 (page_rows pg) ->
    forallb (lacks nlc10) (map row_text (page_rows pg)) = true ->
    update_zo_file f (targets_of pick (row_items 1 (page_rows pg))) (page_text pg) =
    Ok (page_text (lmap_page (apply_pick pick g) pg)).
  Proof.
    intros Hg Hnl. unfold update_zo_file, page_text. rewrite split_lines_text by exact Hnl.
    pose proof (update_rows f g pick (page_rows pg) [] [[]] Hg) as U. cbn [app length] in U.
    rewrite U. cbn [bind]. rewrite page_rows_lmap. reflexivity.
  Qed.
End PageWB.

(* per-item side conditions, collected over the page *)
Definition zid_ready (zf : nat -> str) (pg : apage) : Prop :=
  forall l it, In (l, it) (row_items 1 (page_rows pg)) -> needs_zid it = true ->
               zidless_ok it /\ prio_ok it /\ forallb no_space (zf l :: line_words it) = true.
Definition mdate_ready (d : str) (chosen : nat -> bool) (pg : apage) : Prop :=
  forall l it, In (l, it) (row_items 1 (page_rows pg)) -> chosen l = true -> has_zid it = true ->
               stampable it /\ prio_ok it /\ forallb no_space (d :: line_words it) = true.
Definition zidded (zf : nat -> str) (pg : apage) : apage := lmap_page (apply_pick (pick_zid zf) with_zid) pg.
Definition stamped (d : str) (chosen : nat -> bool) (pg : apage) : apage :=
  lmap_page (apply_pick (pick_mdate d chosen) with_mdate) pg.

(* the side conditions are decidable (Model/PageLines.v); the harness evaluates them on every generated page *)
Lemma no_sp_is_no_space ws : forallb no_sp ws = forallb no_space ws.
Proof. reflexivity. Qed.
Lemma zidless_okb_sound it : zidless_okb it = true -> zidless_ok it.
Proof.
  unfold zidless_okb, zidless_ok. destruct (i_ident it) as [s|z|m z|d|s]; try discriminate.
  - intros H. apply andb_prop in H. destruct H as [H1 H2]. apply negb_true_iff in H1, H2. now split.
  - intros H. apply andb_prop in H. destruct H as [H H3]. apply andb_prop in H. destruct H as [H1 H2].
    apply negb_true_iff in H1. repeat split; try assumption. destruct (i_words it); [discriminate|discriminate].
  - intros H. apply andb_prop in H. destruct H as [H1 H2]. apply negb_true_iff in H1, H2. now split.
Qed.
Lemma prio_okb_sound it : prio_okb it = true -> prio_ok it.
Proof. unfold prio_okb, prio_ok. destruct (i_prio it); [auto|trivial]. Qed.
Lemma stampableb_sound it : stampableb it = true -> stampable it.
Proof.
  unfold stampableb, stampable. destruct (i_ident it) as [s|z|m z|d|s]; try discriminate;
    intros H; apply andb_prop in H; destruct H as [H1 H2]; apply negb_true_iff in H1.
  - apply negb_true_iff in H2. now split.
  - now split.
Qed.
Lemma zid_readyb_sound zf pg : zid_readyb zf pg = true -> zid_ready zf pg.
Proof.
  unfold zid_readyb, zid_ready. intros H l it Hin En. rewrite forallb_forall in H.
  specialize (H (l, it) Hin). cbn [fst snd] in H. rewrite En in H.
  apply andb_prop in H. destruct H as [H H3]. apply andb_prop in H. destruct H as [H1 H2].
  repeat split; [now apply zidless_okb_sound|now apply prio_okb_sound|exact H3].
Qed.
Lemma mdate_readyb_sound d chosen pg : mdate_readyb d chosen pg = true -> mdate_ready d chosen pg.
Proof.
  unfold mdate_readyb, mdate_ready. intros H l it Hin Ec Ez. rewrite forallb_forall in H.
  specialize (H (l, it) Hin). cbn [fst snd] in H. rewrite Ec, Ez in H. cbn [andb] in H.
  apply andb_prop in H. destruct H as [H H3]. apply andb_prop in H. destruct H as [H1 H2].
  repeat split; [now apply stampableb_sound|now apply prio_okb_sound|exact H3].
Qed.

Theorem zids_written_into_page today zf pg :
  zid_ready zf pg -> forallb (lacks nlc10) (map row_text (page_rows pg)) = true ->
  update_zo_file add_zid_to_line (zid_targets zf (spec_page today pg)) (page_text pg) = Ok (page_text (zidded zf pg)).
Proof.
  intros Hr Hnl. rewrite (zid_targets_rows today). apply write_back_page; [|exact Hnl].
  intros l it x Hin Hp. unfold pick_zid in Hp. destruct (needs_zid it) eqn:En; [|discriminate].
  injection Hp as <-. destruct (Hr l it Hin En) as (H1 & H2 & H3).
  exact (add_zid_item (zf l) it H1 H2 H3).
Qed.

Theorem mdates_written_into_page today d chosen pg :
  mdate_ready d chosen pg -> forallb (lacks nlc10) (map row_text (page_rows pg)) = true ->
  update_zo_file add_or_update_modify_date (mdate_targets d chosen (spec_page today pg)) (page_text pg) =
  Ok (page_text (stamped d chosen pg)).
Proof.
  intros Hr Hnl. rewrite (mdate_targets_rows today). apply write_back_page; [|exact Hnl].
  intros l it x Hin Hp. unfold pick_mdate in Hp.
  destruct (chosen l) eqn:Ec; [|discriminate]. destruct (has_zid it) eqn:Ez; [|discriminate].
  cbn [andb] in Hp. injection Hp as <-. destruct (Hr l it Hin Ec Ez) as (H1 & H2 & H3).
  exact (add_mdate_item d it H1 H2 H3).
Qed.

(* the notes of the rewritten page: same lines, in the same order; every note now has a ZID - its old one, or the
   one chosen for its line *)
Lemma map_keys {A B K C} (ka : A -> K) (kb : B -> K) (F : K -> C) fa fb la lb :
  map ka la = map kb lb -> (forall a, fa a = F (ka a)) -> (forall b, fb b = F (kb b)) -> map fa la = map fb lb.
Proof.
  intros H Ha Hb. revert lb H. induction la as [|a la IH]; intros [|b lb] H; try discriminate; [reflexivity|].
  cbn [map] in H. injection H as H1 H2. cbn [map]. now rewrite Ha, Hb, H1, (IH lb H2).
Qed.
Theorem zidded_notes today zf pg :
  map note_key (spec_page today (zidded zf pg)) =
  map (fun n => (n_line n, match n_zid n with Some z => Some z | None => Some (zf (n_line n)) end)) (spec_page today pg).
Proof.
  unfold zidded. rewrite page_keys, page_rows_lmap, row_items_lmap, map_map. symmetry.
  apply (map_keys note_key item_key
           (fun k : nat * option str => (fst k, match snd k with Some z => Some z | None => Some (zf (fst k)) end)));
    [apply page_keys|reflexivity|].
  intros [l [k p idn ws]]. unfold item_key, apply_pick, pick_zid, needs_zid. cbn [fst snd i_ident].
  destruct idn; reflexivity.
Qed.

(* non-vacuity *)
Definition wb_page : apage :=
  mkPg [WId (S "Title")]
       [[BItem (mkItem None None (IPlain (S "foo")) [WTag KProject (S "p1")]);
         BItem (mkItem (Some TOpen) (Some (S "P2")) (IZid (S "240105#0A")) [WId (S "bar")])]] []
       [GSec [WId (S "One")] [[BItem (mkItem (Some TOpen) None (ILong (S "2024-02-02")) [WId (S "x1")])]] []].
Definition wb_zf (l : nat) : str := if Nat.eqb l 3 then S "240601#00" else S "240202#00".
Example wb_page_example :
  zid_targets wb_zf (spec_page (mkDate 2024 6 1) wb_page) = [(3, S "240601#00"); (8, S "240202#00")] /\
  update_zo_file add_zid_to_line (zid_targets wb_zf (spec_page (mkDate 2024 6 1) wb_page)) (page_text wb_page) =
  Ok (page_text (zidded wb_zf wb_page)) /\
  nth 2 (split_on nlc10 (page_text (zidded wb_zf wb_page))) [] = S "- 240601#00 foo +p1" /\
  nth 7 (split_on nlc10 (page_text (zidded wb_zf wb_page))) [] = S "o 240202#00 x1".
Proof. repeat split; vm_compute; reflexivity. Qed.
