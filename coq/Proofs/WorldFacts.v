From Coq Require Import List Arith Bool Lia.
Import ListNotations.
From Zorg Require Import Model.World.

(* ---- decidable equality of contents ---- *)
Lemma opt_nat_eqb_eq a b : opt_eqb Nat.eqb a b = true <-> a = b.
Proof.
  destruct a, b; simpl; split; intros H; try discriminate; auto.
  - apply Nat.eqb_eq in H. now subst.
  - inversion H. apply Nat.eqb_refl.
Qed.
Lemma anote_eqb_eq a b : anote_eqb a b = true <-> a = b.
Proof.
  unfold anote_eqb. destruct a as [z1 r1 m1], b as [z2 r2 m2]. simpl. split.
  - intros H. apply andb_prop in H. destruct H as [H H3]. apply andb_prop in H. destruct H as [H1 H2].
    apply opt_nat_eqb_eq in H1. apply Nat.eqb_eq in H2, H3. now subst.
  - intros H. inversion H; subst. rewrite (proj2 (opt_nat_eqb_eq z2 z2) eq_refl), !Nat.eqb_refl. reflexivity.
Qed.
Lemma list_eqb_eq {A} (eqb : A -> A -> bool) (H : forall a b, eqb a b = true <-> a = b) l1 :
  forall l2, list_eqb eqb l1 l2 = true <-> l1 = l2.
Proof.
  induction l1 as [|x r IH]; intros [|y s]; simpl; split; intros E; try discriminate; auto.
  - apply andb_prop in E. destruct E as [E1 E2]. apply H in E1. apply IH in E2. now subst.
  - inversion E; subst. apply andb_true_intro. split; [now apply H|now apply IH].
Qed.
Lemma content_eqb_eq a b : content_eqb a b = true <-> a = b.
Proof.
  unfold content_eqb. destruct a as [v1 n1], b as [v2 n2]. simpl. split.
  - intros H. apply andb_prop in H. destruct H as [H1 H2]. apply Nat.eqb_eq in H1.
    apply (list_eqb_eq anote_eqb anote_eqb_eq) in H2. now subst.
  - intros H. inversion H; subst. rewrite Nat.eqb_refl. simpl. now apply (list_eqb_eq anote_eqb anote_eqb_eq).
Qed.

Lemma In_firstn {A} (x : A) k : forall l, In x (firstn k l) -> In x l.
Proof.
  induction k as [|k IH]; intros [|y l] H; simpl in *; try contradiction.
  destruct H as [H|H]; [now left|right; now apply IH].
Qed.

Lemma add_path_in p u : In p (add_path p u).
Proof.
  unfold add_path. destruct (existsb (Nat.eqb p) u) eqn:E; [|now left].
  apply existsb_exists in E. destruct E as (x & Hx & Hp). apply Nat.eqb_eq in Hp. now subst.
Qed.
Lemma add_path_incl p q u : In q u -> In q (add_path p u).
Proof. unfold add_path. destruct (existsb (Nat.eqb p) u); [auto|now right]. Qed.

Section Facts.
  Variable alloc : path -> nat -> nat -> nat.
  Notation index_page := (index_page alloc).
  Notation index_notes := (index_notes alloc).
  Notation index_note := (index_note alloc).
  Notation reindex := (reindex alloc).
  Notation create := (create alloc).
  Notation processed := (processed alloc).
  Notation any_wb := (any_wb alloc).
  Notation step := (step alloc).
  Notation run := (run alloc).

  (* ---- one page ---- *)
  Lemma index_note_zid p old t e i n : a_zid (fst (index_note p old t e i n)) <> None.
  Proof.
    unfold World.index_note. destruct (a_zid n) as [z|] eqn:E; simpl; [|discriminate].
    destruct (old_rev old z); [|simpl; now rewrite E].
    destruct (negb _ && negb _); simpl; [discriminate|now rewrite E].
  Qed.

  Lemma index_page_all_zids p old t e c : all_zids (fst (index_page p old t e c)) = true.
  Proof.
    unfold World.index_page, all_zids. simpl. generalize 0. induction (snd c) as [|n r IH]; intros i; simpl; [reflexivity|].
    rewrite IH. pose proof (index_note_zid p old t e i n) as H.
    destruct (a_zid (fst (index_note p old t e i n))); [reflexivity|congruence].
  Qed.

  Lemma index_note_nowb p old t e i n : snd (index_note p old t e i n) = false -> fst (index_note p old t e i n) = n.
  Proof.
    unfold World.index_note. destruct (a_zid n); simpl; [|discriminate].
    destruct (old_rev old n0); [|reflexivity]. destruct (negb _ && negb _); simpl; [discriminate|reflexivity].
  Qed.

  Lemma index_page_nowb p old t e c : snd (index_page p old t e c) = false -> fst (index_page p old t e c) = c.
  Proof.
    unfold World.index_page. destruct c as [v ns]. simpl. intros H. f_equal. revert H. generalize 0.
    induction ns as [|n r IH]; intros i H; simpl in *; [reflexivity|].
    apply orb_false_elim in H. destruct H as [H1 H2]. rewrite (index_note_nowb _ _ _ _ _ _ H1). f_equal. now apply IH.
  Qed.

  (* ---- invariants ---- *)
  Definition covers (w : world) : Prop := forall p, files w p <> None -> In p (universe w).
  (* the index reflects exactly the contents whose hashes are stored *)
  Definition Inv (w : world) : Prop :=
    covers w /\
    (forall p c, hashes w p = Some c -> all_zids c = true /\ db w p = Some (index_of c)) /\
    (forall p, files w p = None -> db w p = None).
  (* weaker: only for pages whose file still is the hashed content (what a killed reindex leaves) *)
  Definition Inv_weak (w : world) : Prop :=
    covers w /\
    (forall p c, hashes w p = Some c -> files w p = Some c -> all_zids c = true /\ db w p = Some (index_of c)) /\
    (forall p, files w p = None -> db w p = None).

  Lemma Inv_weaken w : Inv w -> Inv_weak w.
  Proof. intros (H0 & H1 & H2). split; [exact H0|split; [|exact H2]]. intros p c Hh _. now apply H1. Qed.

  Lemma changed_none w p c : files w p = Some c -> changed w p = None -> hashes w p = Some c.
  Proof.
    unfold changed. intros Hf. rewrite Hf. destruct (hashes w p) as [h|] eqn:Eh; simpl; [|discriminate].
    destruct (content_eqb h c) eqn:E; [|discriminate]. apply content_eqb_eq in E. now subst.
  Qed.
  Lemma changed_some w p c : changed w p = Some c -> files w p = Some c.
  Proof.
    unfold changed. destruct (files w p) as [c'|]; [|discriminate].
    destruct (opt_eqb content_eqb (hashes w p) (Some c')); [discriminate|]. now intros H; inversion H.
  Qed.

  Lemma processed_all w p : processed None w p =
    match changed w p with Some c => Some (index_page p (db w p) (today w) (epoch w) c) | None => None end.
  Proof. reflexivity. Qed.

  Lemma no_wb_page w p c : covers w -> any_wb None w = false -> changed w p = Some c ->
    snd (index_page p (db w p) (today w) (epoch w) c) = false.
  Proof.
    intros Hc Hw Hch. unfold World.any_wb in Hw.
    assert (Hin : In p (universe w)).
    { apply Hc. rewrite (changed_some _ _ _ Hch). discriminate. }
    destruct (snd (index_page p (db w p) (today w) (epoch w) c)) eqn:E; [|reflexivity].
    exfalso. rewrite <- not_true_iff_false in Hw. apply Hw. apply existsb_exists. exists p. split; [exact Hin|].
    rewrite processed_all, Hch. destruct (index_page p (db w p) (today w) (epoch w) c). exact E.
  Qed.

  (* ---- a plain reindex brings the index in sync, from any weakly consistent world ---- *)
  Theorem reindex_all_in_sync w : Inv_weak w -> in_sync (reindex None w).
  Proof.
    intros (H0 & H1 & H2) p. cbn [World.reindex files db]. rewrite processed_all.
    destruct (changed w p) as [c|] eqn:Ec.
    - destruct (index_page p (db w p) (today w) (epoch w) c) as [c' b] eqn:E.
      split; [|reflexivity]. change c' with (fst (c', b)). rewrite <- E. apply index_page_all_zids.
    - destruct (files w p) as [c|] eqn:Ef; [|now apply H2].
      apply (H1 p c); [now apply changed_none|exact Ef].
  Qed.

  (* ---- a plain reindex re-establishes the strong invariant ---- *)
  Theorem reindex_all_inv w : Inv_weak w -> Inv (reindex None w).
  Proof.
    intros (H0 & H1 & H2). split; [|split].
    - intros p. cbn [World.reindex files universe]. rewrite processed_all.
      destruct (changed w p) as [c|] eqn:Ec.
      + destruct (index_page p (db w p) (today w) (epoch w) c). intros _. apply H0. rewrite (changed_some _ _ _ Ec). discriminate.
      + apply H0.
    - intros p c. cbn [World.reindex hashes db]. cbn [is_target]. rewrite processed_all.
      destruct (any_wb None w) eqn:Ew.
      + destruct (changed w p) as [c0|] eqn:Ec.
        * destruct (index_page p (db w p) (today w) (epoch w) c0) as [c' b] eqn:E.
          intros H. inversion H; subst. split; [|reflexivity].
          change c with (fst (c, b)). rewrite <- E. apply index_page_all_zids.
        * intros Hf. apply (H1 p c); [now apply changed_none|exact Hf].
      + intros Hf. destruct (changed w p) as [c0|] eqn:Ec.
        * pose proof (changed_some _ _ _ Ec) as Hc0. rewrite Hf in Hc0. inversion Hc0; subst c0.
          pose proof (no_wb_page w p c H0 Ew Ec) as Hnw.
          pose proof (index_page_nowb _ _ _ _ _ Hnw) as Hid.
          destruct (index_page p (db w p) (today w) (epoch w) c) as [c' b] eqn:E. cbn [fst] in Hid. subst c'.
          split; [|reflexivity]. change c with (fst (c, b)). rewrite <- E. apply index_page_all_zids.
        * apply (H1 p c); [now apply changed_none|exact Hf].
    - intros p. cbn [World.reindex files db]. rewrite processed_all.
      destruct (changed w p) as [c|] eqn:Ec.
      + destruct (index_page _ _ _ _ _). discriminate.
      + apply H2.
  Qed.

  (* ---- db create: from ANY world ---- *)
  Theorem create_inv w : covers w -> Inv (create w) /\ in_sync (create w).
  Proof.
    intros H0. split; [split; [|split]|].
    - intros p. cbn [World.create files universe]. destruct (files w p) eqn:E; [|congruence]. intros _. apply H0. congruence.
    - intros p c. cbn [World.create hashes db]. destruct (files w p) as [c0|]; [|discriminate].
      intros H. inversion H; subst. split; [apply index_page_all_zids|reflexivity].
    - intros p. cbn [World.create files db]. now destruct (files w p).
    - intros p. cbn [World.create files db]. destruct (files w p) as [c0|]; [|reflexivity].
      split; [apply index_page_all_zids|reflexivity].
  Qed.

  (* ---- user edits and the calendar keep the strong invariant ---- *)
  Definition plain_op (o : op) : bool :=
    match o with Edit _ _ | NextDay | Reindex None | Create => true | _ => false end.

  Lemma step_inv w o : plain_op o = true -> Inv w -> Inv (step w o).
  Proof.
    intros Hp HI. destruct o as [p c|p|p q| |t|]; try discriminate.
    - destruct HI as (H0 & H1 & H2). split; [|split].
      + intros q. cbn [World.step files universe]. unfold upd. destruct (q =? p) eqn:E.
        * apply Nat.eqb_eq in E. subst. intros _. apply add_path_in.
        * intros H. apply add_path_incl. now apply H0.
      + exact H1.
      + intros q. cbn [World.step files db]. unfold upd. destruct (q =? p); [discriminate|apply H2].
    - exact HI.
    - destruct t; [discriminate|]. apply reindex_all_inv. now apply Inv_weaken.
    - apply create_inv. apply HI.
  Qed.

  Lemma run_inv ops : forall w, forallb plain_op ops = true -> Inv w -> Inv (run w ops).
  Proof.
    induction ops as [|o r IH]; intros w Hp HI; [exact HI|].
    cbn [forallb] in Hp. apply andb_prop in Hp. destruct Hp as [Ho Hr].
    unfold World.run. cbn [fold_left]. apply IH; [exact Hr|]. now apply step_inv.
  Qed.

  (* C06: after any history of edits (day changes allowed) and plain reindexes that ends with a plain
     reindex, the index is exactly what the final files compile to *)
  Theorem incremental_equals_rebuild w0 ops :
    covers w0 -> forallb plain_op ops = true -> in_sync (reindex None (run (create w0) ops)).
  Proof.
    intros H0 Hp. apply reindex_all_in_sync. apply Inv_weaken. apply run_inv; [exact Hp|].
    now apply create_inv.
  Qed.

  (* ---- C13: killed before the hash map is written, the re-run converges ---- *)
  Lemma fold_commits_world w0 : forall (cs : list (path * ipage)) w,
    let w' := fold_left (apply_effect w0) (map (fun x => CommitPage (fst x) (snd x)) cs) w in
    files w' = files w /\ hashes w' = hashes w /\ universe w' = universe w /\ today w' = today w /\
    forall p, db w' p = db w p \/ In p (map fst cs).
  Proof.
    induction cs as [|[q ip] r IH]; intros w; cbn [map fold_left]; [repeat split; auto|].
    destruct (IH (apply_effect w0 w (CommitPage q ip))) as (Hf & Hh & Hu & Ht & Hd).
    cbn [apply_effect files hashes universe today] in *. repeat split; auto.
    intros p. destruct (Hd p) as [H|H]; [|right; now right].
    cbn [db] in H. unfold upd in H. destruct (p =? q) eqn:E.
    - apply Nat.eqb_eq in E. subst. right. now left.
    - left. exact H.
  Qed.

  Lemma commits_are_changed targets w p : In p (map fst (commits alloc targets w)) ->
    exists c, changed w p = Some c.
  Proof.
    unfold commits, processed_list. rewrite map_map. intros H. apply in_map_iff in H.
    destruct H as ([[q c'] b] & Hq & Hin). simpl in Hq. subst q.
    apply in_flat_map in Hin. destruct Hin as (x & _ & Hx).
    unfold World.processed in Hx. destruct (is_target targets x); [|destruct Hx].
    destruct (changed w x) as [c|] eqn:Ec; [|destruct Hx].
    destruct (index_page x (db w x) (today w) (epoch w) c). destruct Hx as [Hx|[]]. inversion Hx; subst. eauto.
  Qed.

  Lemma commit_pages_have_files targets w p : In p (map fst (commits alloc targets w)) -> files w p <> None.
  Proof. intros H. destruct (commits_are_changed _ _ _ H) as (c & Hc). rewrite (changed_some _ _ _ Hc). discriminate. Qed.

  (* the world a reindex leaves when it is killed after any k of its per-page commits
     (i.e. at any effect boundary before the hash map is written) *)
  Theorem crash_before_hashes_weak targets k w : Inv w ->
    k <= length (commits alloc targets w) -> Inv_weak (crash_reindex alloc targets k w).
  Proof.
    intros (H0 & H1 & H2) Hk. unfold crash_reindex, effects_of_reindex.
    rewrite firstn_app, map_length. replace (k - length (commits alloc targets w)) with 0 by lia.
    cbn [firstn]. rewrite app_nil_r, firstn_map.
    destruct (fold_commits_world w (firstn k (commits alloc targets w)) w) as (Hf & Hh & Hu & _ & Hd).
    set (w' := fold_left _ _ w) in *.
    split; [|split]; cbn [files hashes db universe].
    - intros p. rewrite Hf, Hu. apply H0.
    - intros p c. rewrite Hh, Hf. intros Hhp Hfp.
      destruct (Hd p) as [E|Hin].
      + rewrite E. now apply H1.
      + (* p was committed, hence changed: its file differs from the hashed content *)
        exfalso. assert (Hin' : In p (map fst (commits alloc targets w))).
        { apply in_map_iff in Hin. destruct Hin as (x & Hx & Hi). apply in_map_iff. exists x. split; auto.
          eapply In_firstn; eauto. }
        destruct (commits_are_changed _ _ _ Hin') as (c0 & Hc0). unfold changed in Hc0. rewrite Hfp, Hhp in Hc0.
        cbn [opt_eqb] in Hc0. rewrite (proj2 (content_eqb_eq c c) eq_refl) in Hc0. discriminate.
    - intros p. rewrite Hf. intros Hfp. destruct (Hd p) as [E|Hin]; [rewrite E; now apply H2|].
      exfalso. assert (Hin' : In p (map fst (commits alloc targets w))).
      { apply in_map_iff in Hin. destruct Hin as (x & Hx & Hi). apply in_map_iff. exists x. split; auto.
        eapply In_firstn; eauto. }
      now apply (commit_pages_have_files _ _ _ Hin').
  Qed.

  Theorem rerun_after_crash_converges targets k w : Inv w ->
    k <= length (commits alloc targets w) -> in_sync (reindex None (crash_reindex alloc targets k w)).
  Proof. intros HI Hk. apply reindex_all_in_sync. now apply crash_before_hashes_weak. Qed.
End Facts.

(* ---- refutations, with a concrete ZID supply ---- *)
Definition alloc0 (p i e : nat) : nat := 1000 * e + 10 * p + i.
Definition note_new (r : nat) : anote := mkA None r 0.

(* a page deleted after indexing stays in the index *)
Lemma deleted_page_survives :
  let w := run alloc0 (w_init [(1, (0, [note_new 1])); (2, (0, [note_new 2]))]) [Create; Delete 2; Reindex None] in
  files w 2 = None /\ db w 2 <> None.
Proof. vm_compute. split; [reflexivity|discriminate]. Qed.

(* reindex of page 1 alone (with a write-back) marks the edited page 2 as up to date: its edit is never indexed *)
Lemma explicit_path_hides_edit :
  let w := run alloc0 (w_init [(1, (0, [note_new 1])); (2, (0, [note_new 2]))])
               [Create; Edit 2 (0, [mkA (Some 20) 7 0]); Edit 1 (0, [mkA (Some 10) 1 0; note_new 5]);
                Reindex (Some [1]); Reindex None] in
  files w 2 = Some (0, [mkA (Some 20) 7 0]) /\ db w 2 = Some (0, [(20, 2, 0)]).
Proof. vm_compute. auto. Qed.

(* killed between the hash-map write and the file write-back: the re-run does nothing, the file never gets its ZID *)
Lemma crash_after_hash_write :
  let w0 := run alloc0 (w_init [(1, (0, [note_new 1]))]) [Create; Edit 1 (0, [mkA (Some 10) 1 0; note_new 5])] in
  let k := 2 in     (* CommitPage 1, WriteHashesStart *)
  let w := reindex alloc0 None (crash_reindex alloc0 None k w0) in
  files w 1 = Some (0, [mkA (Some 10) 1 0; note_new 5]) /\ db w 1 = Some (0, [(10, 1, 0); (1011, 5, 0)]).
Proof. vm_compute. auto. Qed.

(* REFUTED (known finding partial_removal_commit): the note edited on a later day is stamped by an uninterrupted
   reindex; after a kill inside remove_file_by_name that made its removal durable, the re-run finds no previous
   state for it and leaves it unstamped - index and file agree with each other, but not with the uninterrupted run *)
Lemma partial_removal_not_stamped :
  let w0 := run alloc0 (w_init [(1, (0, [mkA (Some 10) 0 0; mkA (Some 11) 0 0]))]) [Create; NextDay; Edit 1 (0, [mkA (Some 10) 1 0; mkA (Some 11) 0 0])] in
  files (reindex alloc0 None w0) 1 = Some (0, [mkA (Some 10) 1 1; mkA (Some 11) 0 0]) /\
  files (reindex alloc0 None (partial_removal 1 1 w0)) 1 = Some (0, [mkA (Some 10) 1 0; mkA (Some 11) 0 0]) /\
  db (reindex alloc0 None (partial_removal 1 1 w0)) 1 = Some (0, [(10, 1, 0); (11, 0, 0)]).
Proof. vm_compute. repeat split. Qed.
