From Zorg Require Import Base.PyStr Base.Sexp Base.Res Base.Dates Gen.Params Proofs.PyStrFacts Model.Zid Model.FileListener
  Model.PageSyntax Model.NoteText Proofs.NoteTextFacts Proofs.PageFacts.
From Zorg Require Import Model.PageText.

Lemma strip_strip s : strip (strip s) = strip s.
Proof. pose proof (to_string_strip None s) as H. unfold to_string in H. cbn [NoteText.kind_char prio_part app] in H.
       apply app_inv_head in H. apply app_inv_head in H. apply app_inv_tail in H. exact H. Qed.

(* the text zorg emits for the note an item denotes is the canonical text of [emit_form it] *)
Theorem emitted_text_is_an_item today ot op od key line it :
  tidy it ->
  let n := spec_note today ot op od key line it in
  to_string (n_todo n) (n_body n) = render_item (emit_form it) ++ [ascii_of_nat 10].
Proof.
  intros (c & r & Hw & Hs). cbv zeta. unfold spec_note. cbn [n_todo n_body]. unfold to_string, render_item, emit_form.
  cbn [i_kind i_prio i_ident i_words]. rewrite strip_strip.
  assert (E : item_words (mkItem (i_kind it)
                (match i_kind it with
                 | Some k => if done_kind k then None else Some (match i_prio it with Some p => upper p | None => default_priority end)
                 | None => None end) (i_ident it) (i_words it)) = item_words it) by reflexivity.
  rewrite E, Hs, Hw.
  destruct (i_kind it) as [k|]; cbn [NoteText.kind_char prio_part kind_text].
  - replace (is_done [PageSyntax.kind_char k]) with (done_kind k) by (destruct k; reflexivity).
    destruct (done_kind k); cbn [app]; [reflexivity|]. rewrite <- !app_assoc. reflexivity.
  - reflexivity.
Qed.

Lemma upper_c_idem c : upper_c (upper_c c) = upper_c c.
Proof. destruct c as [[] [] [] [] [] [] [] []]; vm_compute; reflexivity. Qed.
Lemma upper_idem s : upper (upper s) = upper s.
Proof. unfold upper. rewrite map_map. apply map_ext. intros c. apply upper_c_idem. Qed.

(* ... [emit_form it] is again a valid item, and reads as the same note: kind, ZID, body, tags, links, properties
   and dates are those of [it]; so is the priority unless the todo is done or cancelled *)
Theorem emit_form_valid it : valid_item it -> valid_item (emit_form it).
Proof. intros H. exact H. Qed.

Theorem emit_form_reading today ot op od key line it :
  let n := spec_note today ot op od key line it in
  let n' := spec_note today ot op od key line (emit_form it) in
  n_body n' = n_body n /\ n_zid n' = n_zid n /\ n_create n' = n_create n /\ n_modify n' = n_modify n /\
  n_areas n' = n_areas n /\ n_contexts n' = n_contexts n /\ n_people n' = n_people n /\ n_projects n' = n_projects n /\
  n_links n' = n_links n /\ n_props n' = n_props n /\
  match n_todo n, n_todo n' with
  | None, None => True
  | Some (p, k), Some (p', k') => k' = k /\ (is_done k = false -> p' = p)
  | _, _ => False
  end.
Proof.
  cbv zeta. unfold spec_note, emit_form. cbn [i_kind i_prio i_ident i_words n_body n_zid n_create n_modify n_areas
    n_contexts n_people n_projects n_links n_props n_todo].
  repeat (split; [reflexivity|]).
  destruct (i_kind it) as [k|]; [|exact I]. split; [reflexivity|].
  destruct k; cbn [done_kind]; intros H; try discriminate H; destruct (i_prio it); rewrite ?upper_idem; try reflexivity;
    vm_compute; reflexivity.
Qed.

Lemma tidyb_sound it : tidyb it = true -> tidy it.
Proof.
  unfold tidyb, tidy. destruct (words_text (item_words it)) as [|s0 [|c r]] eqn:E; try discriminate.
  intros H. apply andb_prop in H. destruct H as [H1 H2]. apply ceqb_eq in H1. apply eqb_str_eq in H2. subst s0.
  exists c, r. split; [reflexivity|exact H2].
Qed.
