From Zorg Require Import Base.PyStr Base.Sexp Base.Res Base.Dates Gen.Params Gen.LexRules
  Lex.Regex Proofs.PyStrFacts Proofs.RegexFacts Model.Zid.
Local Open Scope Z_scope.

(* ------------------------------------------------------------------ *)
(* 1. The successor chain, decided on the finite domain of suffixes    *)
(* ------------------------------------------------------------------ *)
Definition succ_check (s : str) : bool :=
  match next_id s with
  | Ok s' => valid_suffix s' && (rank s' =? rank s + 1)
  | Exn _ => eqb_str s (S "zzz")
  | _ => false
  end.

Lemma succ_all : forallb succ_check all_suffixes = true.
Proof. vm_cast_no_check (eq_refl true). Qed.

Lemma in_chars_In c : in_chars c = true -> In c chars.
Proof. apply mem_c_In. Qed.

Lemma valid_in_all s : valid_suffix s = true -> In s all_suffixes.
Proof.
  unfold valid_suffix, all_suffixes. intros H.
  destruct s as [|a [|b [|c [|d s]]]]; try discriminate.
  - apply andb_prop in H. destruct H as [Ha Hb].
    apply in_or_app. left. apply in_flat_map. exists a. split; [now apply in_chars_In|].
    apply (in_map (fun b => [a; b])). now apply in_chars_In.
  - apply andb_prop in H. destruct H as [H Hc]. apply andb_prop in H. destruct H as [Ha Hb].
    apply in_or_app. right. apply in_flat_map. exists a. split; [now apply in_chars_In|].
    apply in_flat_map. exists b. split; [now apply in_chars_In|].
    apply (in_map (fun c => [a; b; c])). now apply in_chars_In.
Qed.

Lemma succ_spec s : valid_suffix s = true ->
  match next_id s with
  | Ok s' => valid_suffix s' = true /\ rank s' = rank s + 1
  | Exn _ => s = S "zzz"
  | _ => False
  end.
Proof.
  intros Hv. pose proof (proj1 (forallb_forall _ _) succ_all s (valid_in_all s Hv)) as H.
  unfold succ_check in H. destruct (next_id s) as [s'| | |]; try discriminate.
  - apply andb_prop in H. destruct H as [H1 H2]. split; auto. now apply Z.eqb_eq.
  - now apply eqb_str_eq.
Qed.

Lemma next_id_exhausted : next_id (S "zzz") = Exn (S "RuntimeError").
Proof. vm_compute. reflexivity. Qed.

Lemma rank_zzz : rank (S "zzz") = 135251.
Proof. vm_compute. reflexivity. Qed.
Lemma rank_00 : rank (S "00") = 0.
Proof. vm_compute. reflexivity. Qed.
Lemma valid_00 : valid_suffix (S "00") = true.
Proof. vm_compute. reflexivity. Qed.
Lemma count_suffixes : Z.of_nat (length all_suffixes) = 135252.
Proof. vm_cast_no_check (eq_refl 135252). Qed.

Fixpoint zrange (lo : Z) (n : nat) : list Z :=
  match n with O => [] | Datatypes.S n' => lo :: zrange (lo + 1) n' end.
(* no excluded character in any valid suffix *)
Lemma chars_supported : forallb (fun c => negb (is_unsup c)) chars = true.
Proof. vm_compute. reflexivity. Qed.

Lemma valid_no_unsup s : valid_suffix s = true -> forall c, In c s -> is_unsup c = false.
Proof.
  intros Hv c Hin.
  assert (Hc : In c chars).
  { unfold valid_suffix in Hv. destruct s as [|a [|b [|d [|e s]]]]; try discriminate.
    - apply andb_prop in Hv. destruct Hv as [Ha Hb].
      destruct Hin as [<-|[<-|[]]]; now apply in_chars_In.
    - apply andb_prop in Hv. destruct Hv as [Hv Hd]. apply andb_prop in Hv. destruct Hv as [Ha Hb].
      destruct Hin as [<-|[<-|[<-|[]]]]; now apply in_chars_In. }
  pose proof (proj1 (forallb_forall _ _) chars_supported c Hc) as H.
  now apply negb_true_iff in H.
Qed.

Lemma valid_length s : valid_suffix s = true -> (length s = 2 \/ length s = 3)%nat.
Proof.
  unfold valid_suffix. destruct s as [|a [|b [|c [|d s]]]]; try discriminate; auto.
Qed.

(* ------------------------------------------------------------------ *)
(* 2. Store lemmas                                                     *)
(* ------------------------------------------------------------------ *)
Lemma lookup_update_same k v st : lookup_s k (update_s k v st) = Some v.
Proof.
  induction st as [|[k' v'] st IH]; simpl.
  - now rewrite eqb_str_refl.
  - destruct (eqb_str k k') eqn:E; simpl; rewrite ?eqb_str_refl, ?E; auto.
Qed.
Lemma lookup_update_other k k' v st : k' <> k -> lookup_s k' (update_s k v st) = lookup_s k' st.
Proof.
  intros Hne. induction st as [|[k2 v2] st IH]; simpl.
  - apply eqb_str_neq in Hne. now rewrite Hne.
  - destruct (eqb_str k k2) eqn:E; simpl.
    + apply eqb_str_eq in E. subst k2. apply eqb_str_neq in Hne. now rewrite Hne.
    + destruct (eqb_str k' k2); auto.
Qed.
Lemma cur_update_same k v st : cur (update_s k v st) k = v.
Proof. unfold cur. now rewrite lookup_update_same. Qed.
Lemma cur_update_other k k' v st : k' <> k -> cur (update_s k v st) k' = cur st k'.
Proof. intros H. unfold cur. now rewrite lookup_update_other. Qed.

(* ------------------------------------------------------------------ *)
(* 3. Uniqueness over every history of allocations                     *)
(* ------------------------------------------------------------------ *)
Definition store_valid (st : store) : Prop := forall k, valid_suffix (cur st k) = true.

Lemma store_valid_nil : store_valid [].
Proof. intros k. apply valid_00. Qed.

Lemma get_next_spec st k : store_valid st ->
  match get_next st k with
  | Ok (z, st') => z = (k, cur st k) /\ store_valid st' /\
                   rank (cur st' k) = rank (cur st k) + 1 /\
                   (forall k', k' <> k -> cur st' k' = cur st k')
  | Exn _ => cur st k = S "zzz"
  | _ => False
  end.
Proof.
  intros Hv. unfold get_next. pose proof (succ_spec _ (Hv k)) as Hs.
  destruct (next_id (cur st k)) as [n| | |]; simpl; auto.
  destruct Hs as [Hn Hr]. repeat split.
  - intros k'. destruct (eqb_str k' k) eqn:E.
    + apply eqb_str_eq in E. subst. now rewrite cur_update_same.
    + apply eqb_str_neq in E. now rewrite cur_update_other.
  - now rewrite cur_update_same.
  - intros k' Hne. now apply cur_update_other.
Qed.

Lemma run_lower_bound : forall keys st, store_valid st ->
  forall z, In z (run st keys) ->
    valid_suffix (snd z) = true /\ rank (cur st (fst z)) <= rank (snd z).
Proof.
  induction keys as [|k ks IH]; intros st Hv z Hin; simpl in Hin; [contradiction|].
  pose proof (get_next_spec st k Hv) as Hs.
  destruct (get_next st k) as [[z0 st']| | |]; try (now apply IH).
  destruct Hs as (-> & Hv' & Hr & Ho).
  destruct Hin as [<-|Hin].
  - simpl. split; [apply Hv|lia].
  - destruct (IH st' Hv' z Hin) as [H1 H2]. split; auto.
    destruct (eqb_str (fst z) k) eqn:E.
    + apply eqb_str_eq in E. rewrite E in *. lia.
    + apply eqb_str_neq in E. rewrite Ho in H2 by exact E. exact H2.
Qed.

Theorem run_NoDup : forall keys st, store_valid st -> NoDup (run st keys).
Proof.
  induction keys as [|k ks IH]; intros st Hv; simpl; [constructor|].
  pose proof (get_next_spec st k Hv) as Hs.
  destruct (get_next st k) as [[z0 st']| | |]; try (now apply IH).
  destruct Hs as (-> & Hv' & Hr & Ho).
  constructor; [|now apply IH].
  intros Hin. destruct (run_lower_bound ks st' Hv' _ Hin) as [_ Hb]. simpl in Hb. lia.
Qed.

(* the rendered strings are distinct too *)
Lemma render_inj k1 s1 k2 s2 : length k1 = length k2 ->
  render_zid (k1, s1) = render_zid (k2, s2) -> (k1, s1) = (k2, s2).
Proof.
  unfold render_zid. simpl. revert k2.
  induction k1 as [|a k1 IH]; intros [|b k2] Hl H; simpl in *; try discriminate.
  - inversion H; subst. reflexivity.
  - inversion H; subst. inversion Hl as [Hl'].
    specialize (IH k2 Hl' H2). inversion IH; subst. reflexivity.
Qed.

(* the k-th allocation of a key is the suffix of rank k *)
Lemma run_same_key_ranks : forall n st k, store_valid st ->
  rank (cur st k) + Z.of_nat n <= 135251 ->
  map (fun z => rank (snd z)) (run st (repeat k n)) =
  map (fun i => rank (cur st k) + Z.of_nat i) (seq 0 n) /\
  length (run st (repeat k n)) = n.
Proof.
  induction n as [|n IH]; intros st k Hv Hb; simpl; [auto|].
  pose proof (get_next_spec st k Hv) as Hs.
  destruct (get_next st k) as [[z0 st']| | |]; try contradiction.
  - destruct Hs as (-> & Hv' & Hr & Ho). simpl.
    destruct (IH st' k Hv') as [IH1 IH2]; [lia|].
    rewrite IH1, IH2. split; auto. f_equal; [lia|].
    rewrite <- seq_shift, map_map. apply map_ext. intros i. lia.
  - rewrite Hs, rank_zzz in Hb. lia.
Qed.

(* ------------------------------------------------------------------ *)
(* 4. Well-formedness of the date part and recognition by is_zid       *)
(* ------------------------------------------------------------------ *)
Lemma In_zrange n : forall lo x, lo <= x < lo + Z.of_nat n -> In x (zrange lo n).
Proof.
  induction n as [|n IH]; intros lo x H; simpl.
  - lia.
  - destruct (Z.eq_dec lo x); [now left|right]. apply IH. lia.
Qed.

Definition all_dates : list date :=
  flat_map (fun y => flat_map (fun m => map (fun d => mkDate y m d) (zrange 1 (Z.to_nat (dim y m))))
                              (zrange 1 12)) (zrange 2000 100).

Definition in_century (d : date) : Prop := valid d = true /\ 2000 <= yr d <= 2099.

Lemma in_dates_gen (ys ms : list Z) y m dd : In y ys -> In m ms -> 1 <= dd <= dim y m ->
  In (mkDate y m dd)
     (flat_map (fun y => flat_map (fun m => map (fun d => mkDate y m d) (zrange 1 (Z.to_nat (dim y m)))) ms) ys).
Proof.
  intros Hy Hm Hd. apply in_flat_map. exists y. split; [exact Hy|].
  apply in_flat_map. exists m. split; [exact Hm|].
  apply (in_map (fun d => mkDate y m d)). apply In_zrange.
  rewrite Z2Nat.id by lia. lia.
Qed.

Lemma in_all_dates d : in_century d -> In d all_dates.
Proof.
  intros [Hv Hy]. unfold valid in Hv. destruct d as [y m dd]. cbn [yr mo dy] in *.
  apply andb_prop in Hv. destruct Hv as [Hv H6]. apply andb_prop in Hv. destruct Hv as [Hv H5].
  apply andb_prop in Hv. destruct Hv as [Hv H4]. apply andb_prop in Hv. destruct Hv as [Hv H3].
  apply andb_prop in Hv. destruct Hv as [H1 H2].
  apply Z.leb_le in H1, H2, H3, H4, H5, H6.
  unfold all_dates. apply in_dates_gen; [apply In_zrange; lia|apply In_zrange; lia|lia].
Qed.

Definition key_check (d : date) : bool :=
  let k := date_key d in (length k =? 6)%nat && forallb is_digit k.
Lemma key_all : forallb key_check all_dates = true.
Proof. vm_cast_no_check (eq_refl true). Qed.
Lemma key_spec d : in_century d -> length (date_key d) = 6%nat /\ forallb is_digit (date_key d) = true.
Proof.
  intros H. pose proof (proj1 (forallb_forall _ _) key_all d (in_all_dates d H)) as Hk.
  unfold key_check in Hk. apply andb_prop in Hk. destruct Hk as [H1 H2].
  split; auto. now apply Nat.eqb_eq.
Qed.

Lemma firstn_app_len {A} n (l1 l2 : list A) : length l1 = n -> firstn n (l1 ++ l2) = l1.
Proof. intros <-. induction l1; simpl; auto. now f_equal. Qed.
Lemma nth_error_app_len {A} n (l1 : list A) x l2 : length l1 = n -> nth_error (l1 ++ x :: l2) n = Some x.
Proof. intros <-. induction l1; simpl; auto. Qed.

Theorem is_zid_allocated d s : in_century d -> valid_suffix s = true ->
  is_zid (render_zid (date_key d, s)) = true.
Proof.
  intros Hd Hs. destruct (key_spec d Hd) as [Hl Hdig].
  unfold is_zid, render_zid. cbn [fst snd].
  change (S "#" ++ s) with (ch "#" :: s).
  rewrite (firstn_app_len 6 _ _ Hl), (nth_error_app_len 6 _ _ _ Hl).
  unfold is_short_date_spec. rewrite Hl, Hdig, ceqb_refl.
  rewrite app_length. cbn [length]. rewrite Hl.
  destruct (valid_length s Hs) as [E|E]; rewrite E; reflexivity.
Qed.

(* ------------------------------------------------------------------ *)
(* 5. The ZID lexer rule of both grammars accepts every allocated ZID  *)
(* ------------------------------------------------------------------ *)
Fixpoint re_eqb (a b : re) : bool :=
  match a, b with
  | Emp, Emp | Eps, Eps => true
  | Rng l1 h1, Rng l2 h2 => (N.eqb l1 l2) && (N.eqb h1 h2)
  | Seq a1 a2, Seq b1 b2 | Alt a1 a2, Alt b1 b2 => re_eqb a1 b1 && re_eqb a2 b2
  | Star a1, Star b1 => re_eqb a1 b1
  | _, _ => false
  end.
Lemma re_eqb_eq a : forall b, re_eqb a b = true -> a = b.
Proof.
  induction a; intros [] H; simpl in H; try discriminate; auto.
  - apply andb_prop in H. destruct H as [H1 H2]. apply N.eqb_eq in H1, H2. now subst.
  - apply andb_prop in H. destruct H as [H1 H2]. f_equal; auto.
  - apply andb_prop in H. destruct H as [H1 H2]. f_equal; auto.
  - f_equal; auto.
Qed.

Lemma matches_app r s1 : forall s2, matches r (s1 ++ s2) = matches (fold_left deriv s1 r) s2.
Proof. revert r. induction s1 as [|c s1 IH]; intros r s2; simpl; auto. Qed.

Section ZidRule.
  Variable rule : re.
  (* residual of the rule after any date key *)
  Definition after_key : re := fold_left deriv (S "240101") rule.
  Hypothesis keys_same :
    (let R := after_key in
     forallb (fun d => re_eqb (fold_left deriv (date_key d) rule) R) all_dates) = true.
  Hypothesis suffixes_ok :
    (let R := after_key in forallb (fun s => matches R (S "#" ++ s)) all_suffixes) = true.

  Lemma zid_rule_matches d s : in_century d -> valid_suffix s = true ->
    matches rule (render_zid (date_key d, s)) = true.
  Proof.
    intros Hd Hs. unfold render_zid. simpl fst. simpl snd. rewrite matches_app.
    pose proof (proj1 (forallb_forall _ _) keys_same d (in_all_dates d Hd)) as Hk.
    apply re_eqb_eq in Hk. rewrite Hk.
    exact (proj1 (forallb_forall _ _) suffixes_ok s (valid_in_all s Hs)).
  Qed.
End ZidRule.

Lemma file_keys_same :
  (let R := after_key file_rule_ZID in
   forallb (fun d => re_eqb (fold_left deriv (date_key d) file_rule_ZID) R) all_dates) = true.
Proof. vm_cast_no_check (eq_refl true). Qed.
Lemma file_suffixes_ok :
  (let R := after_key file_rule_ZID in forallb (fun s => matches R (S "#" ++ s)) all_suffixes) = true.
Proof. vm_cast_no_check (eq_refl true). Qed.
Lemma query_keys_same :
  (let R := after_key query_rule_ZID in
   forallb (fun d => re_eqb (fold_left deriv (date_key d) query_rule_ZID) R) all_dates) = true.
Proof. vm_cast_no_check (eq_refl true). Qed.
Lemma query_suffixes_ok :
  (let R := after_key query_rule_ZID in forallb (fun s => matches R (S "#" ++ s)) all_suffixes) = true.
Proof. vm_cast_no_check (eq_refl true). Qed.

Theorem zid_lexes_file d s : in_century d -> valid_suffix s = true ->
  matches file_rule_ZID (render_zid (date_key d, s)) = true.
Proof. apply zid_rule_matches; [exact file_keys_same|exact file_suffixes_ok]. Qed.
Theorem zid_lexes_query d s : in_century d -> valid_suffix s = true ->
  matches query_rule_ZID (render_zid (date_key d, s)) = true.
Proof. apply zid_rule_matches; [exact query_keys_same|exact query_suffixes_ok]. Qed.

(* no token rule that precedes ZID in the generated lexers can match a whole
   ZID: none of them accepts '#' except literals that start with '[' *)
Fixpoint rules_before (name : string) (l : list (string * N * re)) : list re :=
  match l with
  | [] => []
  | (n, _, r) :: l' => if String.eqb n name then [] else r :: rules_before name l'
  end.
Definition cannot_match_zid (r : re) : bool :=
  avoids 35%N r || forallb (fun c => is_emp (deriv r c)) (S "0123456789").
Lemma file_earlier_rules : forallb cannot_match_zid (rules_before "ZID" file_lex_rules) = true.
Proof. vm_compute. reflexivity. Qed.
Lemma query_earlier_rules : forallb cannot_match_zid (rules_before "ZID" query_lex_rules) = true.
Proof. vm_compute. reflexivity. Qed.

Lemma digit_in c : is_digit c = true -> In c (S "0123456789").
Proof.
  destruct c as [[] [] [] [] [] [] [] []]; vm_compute; intros H; try discriminate; tauto.
Qed.

Lemma cannot_match_zid_sound r d s : cannot_match_zid r = true -> in_century d ->
  matches r (render_zid (date_key d, s)) = false.
Proof.
  intros Hc Hd. destruct (key_spec d Hd) as [Hl Hdig].
  unfold cannot_match_zid in Hc. apply orb_prop in Hc. destruct Hc as [Ha|Hf].
  - destruct (matches r (render_zid (date_key d, s))) eqn:E; auto.
    apply matches_iff in E. exfalso.
    apply (avoids_sound 35%N r _ Ha E (ch "#")); [|reflexivity].
    unfold render_zid. cbn [fst snd]. apply in_or_app. right. now left.
  - unfold render_zid. cbn [fst snd].
    destruct (date_key d) as [|c k] eqn:Ek; [discriminate|].
    cbn [forallb] in Hdig. apply andb_prop in Hdig. destruct Hdig as [Hc _].
    pose proof (proj1 (forallb_forall _ _) Hf c (digit_in c Hc)) as He.
    cbv beta in He. cbn [app matches]. destruct (deriv r c); try discriminate. apply matches_emp.
Qed.
