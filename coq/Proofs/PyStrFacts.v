From Zorg Require Import Base.PyStr.

Lemma ceqb_eq a b : ceqb a b = true <-> a = b.
Proof. unfold ceqb. apply Ascii.eqb_eq. Qed.
Lemma ceqb_refl a : ceqb a a = true.
Proof. now apply ceqb_eq. Qed.
Lemma ceqb_neq a b : ceqb a b = false <-> a <> b.
Proof. unfold ceqb. apply Ascii.eqb_neq. Qed.

Lemma eqb_str_eq a : forall b, eqb_str a b = true <-> a = b.
Proof.
  induction a as [|x a IH]; intros [|y b]; simpl; split; intros H; try discriminate; auto.
  - apply andb_prop in H. destruct H as [H1 H2]. apply ceqb_eq in H1. apply IH in H2. now subst.
  - inversion H; subst. rewrite ceqb_refl. simpl. now apply IH.
Qed.
Lemma eqb_str_refl a : eqb_str a a = true.
Proof. now apply eqb_str_eq. Qed.
Lemma eqb_str_neq a b : eqb_str a b = false <-> a <> b.
Proof.
  split; intros H.
  - intros E. apply eqb_str_eq in E. congruence.
  - destruct (eqb_str a b) eqn:E; auto. apply eqb_str_eq in E. contradiction.
Qed.

Lemma mem_c_In c cs : mem_c c cs = true <-> In c cs.
Proof.
  unfold mem_c. rewrite existsb_exists. split.
  - intros (x & Hx & E). apply ceqb_eq in E. now subst.
  - intros H. exists c. split; auto. apply ceqb_refl.
Qed.

Lemma mem_str_In x l : mem_str x l = true <-> In x l.
Proof.
  unfold mem_str. rewrite existsb_exists. split.
  - intros (y & Hy & E). apply eqb_str_eq in E. now subst.
  - intros H. exists x. split; auto. apply eqb_str_refl.
Qed.

Lemma startswith_app p s : startswith p (p ++ s) = true.
Proof. induction p; simpl; auto. now rewrite ceqb_refl. Qed.

Lemma startswith_spec p : forall s, startswith p s = true <-> exists t, s = p ++ t.
Proof.
  induction p as [|x p IH]; intros s; simpl.
  - split; eauto.
  - destruct s as [|y s]; split; intros H; try discriminate.
    + destruct H as (t & Ht). discriminate.
    + apply andb_prop in H. destruct H as [H1 H2]. apply ceqb_eq in H1. subst.
      apply IH in H2. destruct H2 as (t & ->). now exists t.
    + destruct H as (t & Ht). inversion Ht; subst. rewrite ceqb_refl. simpl.
      apply IH. now exists t.
Qed.
