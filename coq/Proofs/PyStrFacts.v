From Zorg Require Import Base.PyStr.

Lemma ceqb_eq a b : ceqb a b = true <-> a = b.
Proof. unfold ceqb. apply Ascii.eqb_eq. Qed.
Lemma ceqb_refl a : ceqb a a = true.
Proof. now apply ceqb_eq. Qed.
Lemma ceqb_neq a b : ceqb a b = false <-> a <> b.
Proof. unfold ceqb. apply Ascii.eqb_neq. Qed.

Lemma eqb_str_eq a : forall b, eqb_str a b = true <-> a = b.
Proof.
  induction a as [|x a IH]; intros [|y b]; simpl; split; intros H; try discriminate; auto.
  - apply andb_prop in H. destruct H as [H1 H2]. apply ceqb_eq in H1. apply IH in H2. now subst.
  - inversion H; subst. rewrite ceqb_refl. simpl. now apply IH.
Qed.
Lemma eqb_str_refl a : eqb_str a a = true.
Proof. now apply eqb_str_eq. Qed.
Lemma eqb_str_neq a b : eqb_str a b = false <-> a <> b.
Proof.
  split; intros H.
  - intros E. apply eqb_str_eq in E. congruence.
  - destruct (eqb_str a b) eqn:E; auto. apply eqb_str_eq in E. contradiction.
Qed.

Lemma mem_c_In c cs : mem_c c cs = true <-> In c cs.
Proof.
  unfold mem_c. rewrite existsb_exists. split.
  - intros (x & Hx & E). apply ceqb_eq in E. now subst.
  - intros H. exists c. split; auto. apply ceqb_refl.
Qed.

Lemma mem_str_In x l : mem_str x l = true <-> In x l.
Proof.
  unfold mem_str. rewrite existsb_exists. split.
  - intros (y & Hy & E). apply eqb_str_eq in E. now subst.
  - intros H. exists x. split; auto. apply eqb_str_refl.
Qed.

Lemma startswith_app p s : startswith p (p ++ s) = true.
Proof. induction p; simpl; auto. now rewrite ceqb_refl. Qed.

Lemma startswith_spec p : forall s, startswith p s = true <-> exists t, s = p ++ t.
Proof.
  induction p as [|x p IH]; intros s; simpl.
  - split; eauto.
  - destruct s as [|y s]; split; intros H; try discriminate.
    + destruct H as (t & Ht). discriminate.
    + apply andb_prop in H. destruct H as [H1 H2]. apply ceqb_eq in H1. subst.
      apply IH in H2. destruct H2 as (t & ->). now exists t.
    + destruct H as (t & Ht). inversion Ht; subst. rewrite ceqb_refl. simpl.
      apply IH. now exists t.
Qed.

(* ---- replace ---- *)
Lemma skipn_length_le {A} n (l : list A) : length (skipn n l) <= length l.
Proof. rewrite skipn_length. lia. Qed.

Lemma replace_fuel_irrel old new : old <> [] -> forall f1 f2 s,
  length s <= f1 -> length s <= f2 -> replace_fuel f1 old new s = replace_fuel f2 old new s.
Proof.
  intros Hold. induction f1 as [|f1 IH]; intros f2 s H1 H2.
  - destruct s; [|simpl in H1; lia]. destruct f2; reflexivity.
  - destruct f2 as [|f2].
    + destruct s; [reflexivity|simpl in H2; lia].
    + simpl. destruct s as [|c s']; [reflexivity|].
      destruct (startswith old (c :: s')) eqn:E.
      * f_equal. apply IH.
        -- destruct old as [|o old']; [congruence|]. simpl. pose proof (skipn_length_le (length old') s'). simpl in H1. lia.
        -- destruct old as [|o old']; [congruence|]. simpl. pose proof (skipn_length_le (length old') s'). simpl in H2. lia.
      * f_equal. apply IH; simpl in *; lia.
Qed.

Lemma replace_nil old new : replace old new [] = [].
Proof. unfold replace. destruct old; reflexivity. Qed.

Lemma replace_cons old new c s : old <> [] ->
  replace old new (c :: s) =
  if startswith old (c :: s) then new ++ replace old new (skipn (length old) (c :: s))
  else c :: replace old new s.
Proof.
  intros Hold. unfold replace. destruct old as [|o old']; [congruence|].
  cbn [length replace_fuel].
  destruct (startswith (o :: old') (c :: s)) eqn:E.
  - f_equal. apply replace_fuel_irrel; [discriminate| |lia].
    cbn [skipn]. pose proof (skipn_length_le (length old') s). lia.
  - f_equal.
Qed.

Lemma replace_skip old new c s : old <> [] -> startswith old (c :: s) = false ->
  replace old new (c :: s) = c :: replace old new s.
Proof. intros H E. rewrite replace_cons by exact H. now rewrite E. Qed.

Lemma replace_hit old new s : old <> [] ->
  replace old new (old ++ s) = new ++ replace old new s.
Proof.
  intros H. destruct old as [|o old']; [congruence|].
  change ((o :: old') ++ s) with (o :: (old' ++ s)).
  rewrite replace_cons by exact H.
  change (o :: old' ++ s) with ((o :: old') ++ s).
  rewrite startswith_app. f_equal. f_equal.
  change (skipn (length (o :: old')) ((o :: old') ++ s)) with (skipn (length old') (old' ++ s)).
  rewrite skipn_app, skipn_all, Nat.sub_diag. reflexivity.
Qed.
