From Zorg Require Import Base.PyStr Proofs.PyStrFacts Model.Rename.

Notation lb := (ch "[").
Definition ok_c (c : ascii) : bool :=
  negb (ceqb c (ch "[")) && negb (ceqb c (ch "]")) && negb (ceqb c (ch "#")).

Lemma ok_c_spec c : ok_c c = true -> c <> ch "[" /\ c <> ch "]" /\ c <> ch "#".
Proof.
  unfold ok_c. intros H. apply andb_prop in H. destruct H as [H H3].
  apply andb_prop in H. destruct H as [H1 H2].
  apply negb_true_iff in H1, H2, H3. apply ceqb_neq in H1, H2, H3. auto.
Qed.

Lemma startswith_cons_ne p c s x : c <> x -> startswith (x :: p) (c :: s) = false.
Proof. intros H. simpl. assert (E : ceqb x c = false) by (apply ceqb_neq; congruence). now rewrite E. Qed.

Lemma startswith_cons_eq p c s : startswith (c :: p) (c :: s) = startswith p s.
Proof. simpl. now rewrite ceqb_refl. Qed.

Lemma startswith_nil_r p : startswith p [] = match p with [] => true | _ => false end.
Proof. destruct p; reflexivity. Qed.

(* common prefix, then different characters *)
Lemma startswith_common x : forall p s, startswith (x ++ p) (x ++ s) = startswith p s.
Proof. induction x as [|c x IH]; intros p s; simpl; auto. now rewrite ceqb_refl, IH. Qed.

Lemma head_not_lb (w t : str) : (forall c, In c w -> c <> lb) ->
  (exists c r, t = c :: r /\ c <> lb) -> exists c r, w ++ t = c :: r /\ c <> lb.
Proof.
  intros Hw (c & r & -> & Hc). destruct w as [|d w']; simpl.
  - exists c, r. auto.
  - exists d, (w' ++ c :: r). split; auto. apply Hw. now left.
Qed.

Section Rename.
  Variables a b : str.
  Hypothesis Ha : name_ok a = true.
  Hypothesis Hb : name_ok b = true.

  Let P1 := pat_plain a.  Let R1 := pat_plain b.
  Let P2 := pat_anchor a. Let R2 := pat_anchor b.
  Let f1 := replace P1 R1.
  Let f2 := replace P2 R2.

  Lemma P1_ne : P1 <> []. Proof. discriminate. Qed.
  Lemma P2_ne : P2 <> []. Proof. discriminate. Qed.

  Lemma a_chars c : In c a -> c <> ch "[" /\ c <> ch "]" /\ c <> ch "#".
  Proof. intros H. apply ok_c_spec. exact (proj1 (forallb_forall _ _) Ha c H). Qed.
  Lemma b_chars c : In c b -> c <> ch "[" /\ c <> ch "]" /\ c <> ch "#".
  Proof. intros H. apply ok_c_spec. exact (proj1 (forallb_forall _ _) Hb c H). Qed.

  (* a pattern starts with '[' : a different first character is copied *)
  Lemma f1_skip c s : c <> lb -> f1 (c :: s) = c :: f1 s.
  Proof. intros H. apply replace_skip; [apply P1_ne|]. now apply startswith_cons_ne. Qed.
  Lemma f2_skip c s : c <> lb -> f2 (c :: s) = c :: f2 s.
  Proof. intros H. apply replace_skip; [apply P2_ne|]. now apply startswith_cons_ne. Qed.

  Lemma f1_skip_word w : (forall c, In c w -> c <> lb) -> forall s, f1 (w ++ s) = w ++ f1 s.
  Proof.
    induction w as [|c w IH]; intros H s; simpl; auto.
    rewrite f1_skip by (apply H; now left). f_equal. apply IH. intros x Hx. apply H. now right.
  Qed.
  Lemma f2_skip_word w : (forall c, In c w -> c <> lb) -> forall s, f2 (w ++ s) = w ++ f2 s.
  Proof.
    induction w as [|c w IH]; intros H s; simpl; auto.
    rewrite f2_skip by (apply H; now left). f_equal. apply IH. intros x Hx. apply H. now right.
  Qed.

  (* "[x" with x not '[' cannot start a pattern ("[[...") *)
  Lemma sw_P1_lb_other c s : c <> lb -> startswith P1 (lb :: c :: s) = false.
  Proof. intros H. unfold P1, pat_plain.
         change (S "[[" ++ a ++ S "]]") with (lb :: lb :: (a ++ S "]]")).
         rewrite startswith_cons_eq. now apply startswith_cons_ne. Qed.
  Lemma sw_P2_lb_other c s : c <> lb -> startswith P2 (lb :: c :: s) = false.
  Proof. intros H. unfold P2, pat_anchor.
         change (S "[[" ++ a ++ S "#") with (lb :: lb :: (a ++ S "#")).
         rewrite startswith_cons_eq. now apply startswith_cons_ne. Qed.

  (* A ++ "#"... never matches B ++ "]]"... and A ++ "]]" never matches A ++ "#" *)
  Lemma no_anchor_in_plain : forall x y s, (forall c, In c x -> c <> ch "]") -> (forall c, In c y -> c <> ch "#") ->
    startswith (x ++ S "#") (y ++ S "]]" ++ s) = false.
  Proof.
    induction x as [|c x IH]; intros y s Hx Hy.
    - destruct y as [|d y]; simpl.
      + reflexivity.
      + assert (E : ceqb "#" d = false) by (apply ceqb_neq; intros E; symmetry in E; revert E; apply Hy; now left).
        now rewrite E.
    - destruct y as [|d y]; simpl.
      + assert (E : ceqb c "]" = false) by (apply ceqb_neq; apply Hx; now left). now rewrite E.
      + destruct (ceqb c d); simpl; auto. apply IH.
        * intros z Hz. apply Hx. now right.
        * intros z Hz. apply Hy. now right.
  Qed.

  Lemma sw_P2_R1 s : startswith P2 (R1 ++ s) = false.
  Proof.
    unfold P2, R1, pat_anchor, pat_plain. rewrite <- !app_assoc.
    rewrite (startswith_common (S "[[")). apply no_anchor_in_plain.
    - intros c H. now apply a_chars.
    - intros c H. now apply b_chars.
  Qed.

  Lemma sw_P1_P2 s : startswith P1 (P2 ++ s) = false.
  Proof.
    unfold P1, P2, pat_anchor, pat_plain. rewrite <- !app_assoc.
    rewrite (startswith_common (S "[[")), (startswith_common a). reflexivity.
  Qed.
  Lemma sw_P2_P1 s : startswith P2 (P1 ++ s) = false.
  Proof.
    unfold P1, P2, pat_anchor, pat_plain. rewrite <- !app_assoc.
    rewrite (startswith_common (S "[[")), (startswith_common a). reflexivity.
  Qed.

  (* L1: the replacement text of the first pass is copied by the second *)
  Lemma f2_R1 s : f2 (R1 ++ s) = R1 ++ f2 s.
  Proof.
    pose proof (sw_P2_R1 s) as E0.
    unfold R1, pat_plain in *. rewrite <- !app_assoc in *.
    change (S "[[" ++ b ++ S "]]" ++ s) with (lb :: lb :: (b ++ S "]]" ++ s)) in *.
    unfold f2 at 1. rewrite replace_skip; [|apply P2_ne|exact E0]. fold f2.
    assert (E1 : startswith P2 (lb :: b ++ S "]]" ++ s) = false).
    { destruct (head_not_lb b (S "]]" ++ s)) as (d & r & E & Hd).
      - intros c H. now apply b_chars.
      - exists (ch "]"), (ch "]" :: s). split; [reflexivity|discriminate].
      - rewrite E. now apply sw_P2_lb_other. }
    unfold f2 at 1. rewrite replace_skip; [|apply P2_ne|exact E1]. fold f2.
    cbn [app]. f_equal. f_equal.
    rewrite f2_skip_word by (intros c H; now apply b_chars).
    f_equal. change (S "]]" ++ s) with (ch "]" :: ch "]" :: s).
    rewrite !f2_skip by discriminate. reflexivity.
  Qed.

  (* L2: an anchored-link prefix is copied by the first pass *)
  Lemma f1_P2 s : f1 (P2 ++ s) = P2 ++ f1 s.
  Proof.
    pose proof (sw_P1_P2 s) as E0.
    unfold P2, pat_anchor in *. rewrite <- !app_assoc in *.
    change (S "[[" ++ a ++ S "#" ++ s) with (lb :: lb :: (a ++ S "#" ++ s)) in *.
    unfold f1 at 1. rewrite replace_skip; [|apply P1_ne|exact E0]. fold f1.
    assert (E1 : startswith P1 (lb :: a ++ S "#" ++ s) = false).
    { destruct (head_not_lb a (S "#" ++ s)) as (d & r & E & Hd).
      - intros c H. now apply a_chars.
      - exists (ch "#"), s. split; [reflexivity|discriminate].
      - rewrite E. now apply sw_P1_lb_other. }
    unfold f1 at 1. rewrite replace_skip; [|apply P1_ne|exact E1]. fold f1.
    cbn [app]. f_equal. f_equal.
    rewrite f1_skip_word by (intros c H; now apply a_chars).
    f_equal. change (S "#" ++ s) with (ch "#" :: s).
    rewrite f1_skip by discriminate. reflexivity.
  Qed.

  (* the first pass does not change which '['-free word the text starts with *)
  Lemma f1_unfold s : f1 s = match s with
                             | [] => []
                             | c :: s' => if startswith P1 s then R1 ++ f1 (skipn (length P1) s) else c :: f1 s'
                             end.
  Proof. destruct s; [apply replace_nil|apply replace_cons, P1_ne]. Qed.

  Lemma R1_head s : exists r, R1 ++ s = lb :: lb :: r.
  Proof. unfold R1, pat_plain. rewrite <- app_assoc. eexists. reflexivity. Qed.

  Lemma sw_word_f1 : forall q, (forall c, In c q -> c <> lb) -> forall x, startswith q (f1 x) = startswith q x.
  Proof.
    induction q as [|d q IH]; intros Hq x; [reflexivity|].
    rewrite f1_unfold. destruct x as [|c x']; [reflexivity|].
    destruct (startswith P1 (c :: x')) eqn:E.
    - destruct (R1_head (f1 (skipn (length P1) (c :: x')))) as (r & Er). rewrite Er.
      apply startswith_spec in E. destruct E as (t & Et).
      assert (Ec : c = lb) by (unfold P1, pat_plain in Et; rewrite <- app_assoc in Et; now inversion Et).
      subst c.
      assert (Hd : lb <> d) by (intros E; apply (Hq d); [now left|now symmetry]).
      rewrite !(startswith_cons_ne _ _ _ _ Hd). reflexivity.
    - cbn [startswith]. destruct (ceqb d c); cbn [andb]; auto. apply IH. intros z Hz. apply Hq. now right.
  Qed.

  (* L3 *)
  Lemma sw_P2_f1 x : startswith P2 (f1 x) = startswith P2 x.
  Proof.
    assert (Hq : forall c, In c (a ++ S "#") -> c <> lb).
    { intros c H. apply in_app_or in H. destruct H as [H|[<-|[]]]; [now apply a_chars|discriminate]. }
    (* one-'[' suffix of the pattern *)
    assert (H1 : forall y, startswith (lb :: a ++ S "#") (f1 y) = startswith (lb :: a ++ S "#") y).
    { intros y. rewrite f1_unfold. destruct y as [|c y']; [reflexivity|].
      destruct (startswith P1 (c :: y')) eqn:E.
      - destruct (R1_head (f1 (skipn (length P1) (c :: y')))) as (r & Er). rewrite Er.
        apply startswith_spec in E. destruct E as (t & Et).
        unfold P1, pat_plain in Et.
        change ((S "[[" ++ a ++ S "]]") ++ t) with (lb :: lb :: (a ++ S "]]") ++ t) in Et.
        rewrite Et. rewrite !startswith_cons_eq.
        destruct (head_not_lb a (S "#")) as (d & q & Eq & Hd0).
        { intros z Hz. now apply a_chars. }
        { exists (ch "#"), []. split; [reflexivity|discriminate]. }
        rewrite Eq.
        assert (Hd : lb <> d) by (intros E; apply Hd0; now symmetry).
        rewrite !(startswith_cons_ne _ _ _ _ Hd). reflexivity.
      - cbn [startswith]. destruct (ceqb _ c); cbn [andb]; auto. now apply sw_word_f1. }
    unfold P2, pat_anchor.
    change (S "[[" ++ a ++ S "#") with (lb :: lb :: a ++ S "#").
    rewrite f1_unfold. destruct x as [|c x']; [reflexivity|].
    destruct (startswith P1 (c :: x')) eqn:E.
    - apply startswith_spec in E. destruct E as (t & Et). rewrite Et.
      pose proof (sw_P2_R1 (f1 (skipn (length P1) (P1 ++ t)))) as E1.
      pose proof (sw_P2_P1 t) as E2.
      unfold P2, pat_anchor in E1, E2.
      change (S "[[" ++ a ++ S "#") with (lb :: lb :: a ++ S "#") in E1, E2.
      now rewrite E1, E2.
    - change (startswith (lb :: lb :: a ++ S "#") (c :: f1 x')) with
        (ceqb lb c && startswith (lb :: a ++ S "#") (f1 x')).
      change (startswith (lb :: lb :: a ++ S "#") (c :: x')) with
        (ceqb lb c && startswith (lb :: a ++ S "#") x').
      now rewrite H1.
  Qed.

  (* ---- main theorem: two sequential replaces = one pass ---- *)
  Lemma spec_fuel_irrel : forall f1' f2' s, length s <= f1' -> length s <= f2' ->
    spec_fuel f1' a b s = spec_fuel f2' a b s.
  Proof.
    induction f1' as [|n IH]; intros f2' s H1 H2.
    - destruct s; [|simpl in H1; lia]. destruct f2'; reflexivity.
    - destruct f2' as [|m].
      + destruct s; [reflexivity|simpl in H2; lia].
      + cbn [spec_fuel]. destruct s as [|c s']; [reflexivity|].
        destruct (startswith (pat_plain a) (c :: s')).
        * f_equal. apply IH; unfold pat_plain; cbn [length app skipn];
            pose proof (skipn_length_le (length (ch "[" :: a ++ S "]]")) s'); simpl in *; lia.
        * destruct (startswith (pat_anchor a) (c :: s')).
          -- f_equal. apply IH; unfold pat_anchor; cbn [length app skipn];
               pose proof (skipn_length_le (length (ch "[" :: a ++ S "#")) s'); simpl in *; lia.
          -- f_equal. apply IH; simpl in *; lia.
  Qed.

  Lemma spec_cons c s : spec_rename a b (c :: s) =
    if startswith P1 (c :: s) then R1 ++ spec_rename a b (skipn (length P1) (c :: s))
    else if startswith P2 (c :: s) then R2 ++ spec_rename a b (skipn (length P2) (c :: s))
    else c :: spec_rename a b s.
  Proof.
    unfold spec_rename. cbn [length spec_fuel]. fold P1 P2 R1 R2.
    destruct (startswith P1 (c :: s)).
    - f_equal. apply spec_fuel_irrel; [|lia].
      unfold P1, pat_plain. cbn [length app skipn].
      pose proof (skipn_length_le (length (ch "[" :: a ++ S "]]")) s). simpl in *. lia.
    - destruct (startswith P2 (c :: s)).
      + f_equal. apply spec_fuel_irrel; [|lia].
        unfold P2, pat_anchor. cbn [length app skipn].
        pose proof (skipn_length_le (length (ch "[" :: a ++ S "#")) s). simpl in *. lia.
      + reflexivity.
  Qed.

  Lemma skipn_app_exact {A} (p s : list A) : skipn (length p) (p ++ s) = s.
  Proof. rewrite skipn_app, skipn_all, Nat.sub_diag. reflexivity. Qed.

  Theorem rename_is_spec : forall n s, length s <= n -> rename_text a b s = spec_rename a b s.
  Proof.
    unfold rename_text. fold P1 P2 R1 R2 f1 f2.
    induction n as [|n IH]; intros s Hn.
    - destruct s; [|simpl in Hn; lia]. unfold f1, f2. now rewrite !replace_nil.
    - destruct s as [|c s']; [unfold f1, f2; now rewrite !replace_nil|].
      rewrite spec_cons.
      destruct (startswith P1 (c :: s')) eqn:E1.
      + apply startswith_spec in E1. destruct E1 as (t & Et). rewrite Et.
        unfold f1 at 1. rewrite replace_hit by apply P1_ne. fold f1.
        rewrite f2_R1. f_equal. rewrite skipn_app_exact. apply IH.
        assert (length (c :: s') = length P1 + length t) by (rewrite Et; apply app_length).
        unfold P1, pat_plain in H. simpl in H, Hn. lia.
      + destruct (startswith P2 (c :: s')) eqn:E2.
        * apply startswith_spec in E2. destruct E2 as (t & Et). rewrite Et.
          rewrite f1_P2. unfold f2 at 1. rewrite replace_hit by apply P2_ne. fold f2.
          f_equal. rewrite skipn_app_exact. apply IH.
          assert (length (c :: s') = length P2 + length t) by (rewrite Et; apply app_length).
          unfold P2, pat_anchor in H. simpl in H, Hn. lia.
        * unfold f1 at 1. rewrite replace_skip; [|apply P1_ne|exact E1]. fold f1.
          assert (E3 : startswith P2 (c :: f1 s') = false).
          { pose proof (sw_P2_f1 (c :: s')) as H. unfold f1 at 1 in H.
            rewrite replace_skip in H; [|apply P1_ne|exact E1]. fold f1 in H. now rewrite H. }
          unfold f2 at 1. rewrite replace_skip; [|apply P2_ne|exact E3]. fold f2.
          f_equal. apply IH. simpl in Hn. lia.
  Qed.
End Rename.

(* a text that does not contain "[[" ++ a is left alone by the one-pass reading *)
Lemma spec_fuel_id a b : forall f s, contains (S "[[" ++ a) s = false -> spec_fuel f a b s = s.
Proof.
  induction f as [|f IH]; intros s H; [reflexivity|].
  cbn [spec_fuel]. destruct s as [|c s']; [reflexivity|].
  cbn [contains] in H. apply orb_false_elim in H. destruct H as [H1 H2].
  assert (E1 : startswith (pat_plain a) (c :: s') = false).
  { destruct (startswith (pat_plain a) (c :: s')) eqn:E; auto.
    apply startswith_spec in E. destruct E as (t & Et).
    unfold pat_plain in Et. rewrite app_assoc, <- app_assoc in Et.
    rewrite Et, startswith_app in H1. discriminate. }
  assert (E2 : startswith (pat_anchor a) (c :: s') = false).
  { destruct (startswith (pat_anchor a) (c :: s')) eqn:E; auto.
    apply startswith_spec in E. destruct E as (t & Et).
    unfold pat_anchor in Et. rewrite app_assoc, <- app_assoc in Et.
    rewrite Et, startswith_app in H1. discriminate. }
  rewrite E1, E2. f_equal. now apply IH.
Qed.
