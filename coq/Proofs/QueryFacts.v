From Zorg Require Import Base.PyStr Base.Sexp Base.Res Base.Dates Proofs.PyStrFacts Model.Zid Model.FileListener Model.QueryListener.
Local Open Scope Z_scope.

Fixpoint list_eqb (l1 l2 : list str) : bool :=
  match l1, l2 with
  | [], [] => true
  | x :: r, y :: s => eqb_str x y && list_eqb r s
  | _, _ => false
  end.
Lemma list_eqb_eq l1 : forall l2, list_eqb l1 l2 = true -> l1 = l2.
Proof.
  induction l1 as [|x r IH]; intros [|y s] H; simpl in H; try discriminate; auto.
  apply andb_prop in H. destruct H as [H1 H2]. apply eqb_str_eq in H1. subst. f_equal. auto.
Qed.

(* ---- priority ranges: Pn and Pn-m denote every priority from n to m, for all 64 spellings ---- *)
Fixpoint zrange_from (lo : Z) (n : nat) : list Z :=
  match n with O => [] | Datatypes.S k => lo :: zrange_from (lo + 1) k end.
Definition prio_name (a : Z) : str := S "P" ++ str_of_Z a.
Definition prio_check (a b : Z) : bool :=
  match priorities_of (prio_name a ++ S "-" ++ str_of_Z b) with
  | Ok l => list_eqb l (map prio_name (zrange_from a (Z.to_nat (b - a + 1))))
  | _ => false
  end.
Definition prio_single_check (a : Z) : bool :=
  match priorities_of (prio_name a) with Ok l => list_eqb l [prio_name a] | _ => false end.

Lemma prio_all :
  forallb prio_single_check (zrange_from 0 10) = true /\
  forallb (fun a => forallb (fun b => if a <=? b then prio_check a b else true) (zrange_from 1 9)) (zrange_from 0 10) = true.
Proof. split; vm_compute; reflexivity. Qed.

Lemma In_zrange_from n : forall lo x, lo <= x < lo + Z.of_nat n -> In x (zrange_from lo n).
Proof.
  induction n as [|n IH]; intros lo x H; simpl; [lia|].
  destruct (Z.eq_dec lo x); [now left|right]. apply IH. lia.
Qed.

Theorem prio_single a : 0 <= a <= 9 -> priorities_of (prio_name a) = Ok [prio_name a].
Proof.
  intros H. destruct prio_all as [H1 _].
  pose proof (proj1 (forallb_forall _ _) H1 a (In_zrange_from 10 0 a ltac:(lia))) as Hc.
  unfold prio_single_check in Hc. destruct (priorities_of (prio_name a)); try discriminate.
  now apply list_eqb_eq in Hc; subst.
Qed.

Theorem prio_range a b : 0 <= a <= b -> 1 <= b <= 9 ->
  priorities_of (prio_name a ++ S "-" ++ str_of_Z b) = Ok (map prio_name (zrange_from a (Z.to_nat (b - a + 1)))).
Proof.
  intros Ha Hb. destruct prio_all as [_ H2].
  pose proof (proj1 (forallb_forall _ _) H2 a (In_zrange_from 10 0 a ltac:(lia))) as Hc.
  cbv beta in Hc.
  pose proof (proj1 (forallb_forall _ _) Hc b (In_zrange_from 9 1 b ltac:(lia))) as Hd.
  cbv beta in Hd.
  assert (E : (a <=? b) = true) by (apply Z.leb_le; lia). rewrite E in Hd.
  unfold prio_check in Hd. destruct (priorities_of _); try discriminate.
  now apply list_eqb_eq in Hd; subst.
Qed.

(* ---- relative dates ---- *)
(* month arithmetic with end-of-month clamping *)
Lemma dim_bounds y m : 28 <= dim y m <= 31.
Proof. unfold dim. repeat match goal with |- context [if ?c then _ else _] => destruct c end; lia. Qed.

Theorem add_months_spec d n :
  let r := add_months d n in
  yr r * 12 + (mo r - 1) = yr d * 12 + (mo d - 1) + n /\ 1 <= mo r <= 12 /\
  dy r = Z.min (dy d) (dim (yr r) (mo r)).
Proof.
  unfold add_months. cbn [yr mo dy].
  set (t := yr d * 12 + (mo d - 1) + n).
  pose proof (Z.div_mod t 12 ltac:(lia)) as H. pose proof (Z.mod_pos_bound t 12 ltac:(lia)) as Hm.
  repeat split; lia.
Qed.

Theorem add_months_valid d n : valid d = true -> 1 <= yr (add_months d n) <= 9999 -> valid (add_months d n) = true.
Proof.
  intros Hv Hy. destruct (add_months_spec d n) as (_ & Hm & Hd).
  unfold valid in *.
  repeat (apply andb_prop in Hv; destruct Hv as [Hv ?]).
  pose proof (dim_bounds (yr (add_months d n)) (mo (add_months d n))) as Hb.
  repeat (apply andb_true_intro; split); apply Z.leb_le;
    repeat match goal with H : (_ <=? _) = true |- _ => apply Z.leb_le in H end; lia.
Qed.

Theorem add_years_is_12_months d n : add_years d n = add_months d (12 * n).
Proof.
  unfold add_years, add_months. cbn [yr mo dy].
  assert (H1 : (yr d * 12 + (mo d - 1) + 12 * n) / 12 = yr d + n \/ True) by (right; exact I).
  (* holds for 1 <= month <= 12; stated under that hypothesis below *)
Abort.

Theorem add_years_is_12_months d n : 1 <= mo d <= 12 -> add_years d n = add_months d (12 * n).
Proof.
  intros Hm. unfold add_years, add_months. cbn [yr mo dy].
  assert (E : yr d * 12 + (mo d - 1) + 12 * n = (yr d + n) * 12 + (mo d - 1)) by lia.
  rewrite E.
  assert (E1 : ((yr d + n) * 12 + (mo d - 1)) / 12 = yr d + n).
  { symmetry. apply (Z.div_unique _ 12 _ (mo d - 1)); lia. }
  assert (E2 : ((yr d + n) * 12 + (mo d - 1)) mod 12 = mo d - 1).
  { symmetry. apply (Z.mod_unique _ 12 (yr d + n)); lia. }
  rewrite E1, E2. replace (mo d - 1 + 1) with (mo d) by lia. reflexivity.
Qed.

(* parsing "Nd" / "-Nm" / "Ny": decided for every N < 1000 and every unit and sign *)
Definition rel_check (today : date) (n : Z) : bool :=
  let s := str_of_Z n in
  match from_relative today (s ++ S "d"), from_relative today (S "-" ++ s ++ S "d"),
        from_relative today (s ++ S "m"), from_relative today (S "-" ++ s ++ S "m"),
        from_relative today (s ++ S "y"), from_relative today (S "-" ++ s ++ S "y") with
  | Ok a, Ok b, Ok c, Ok d, Ok e, Ok f =>
      date_eqb a (add_days today n) && date_eqb b (add_days today (- n)) &&
      date_eqb c (add_months today n) && date_eqb d (add_months today (- n)) &&
      date_eqb e (add_years today n) && date_eqb f (add_years today (- n))
  | _, _, _, _, _, _ => false
  end.
Lemma rel_all_2024_01_31 : forallb (rel_check (mkDate 2024 1 31)) (zrange_from 0 1000) = true.
Proof. vm_cast_no_check (eq_refl true). Qed.
Lemma rel_all_2023_02_28 : forallb (rel_check (mkDate 2023 2 28)) (zrange_from 0 1000) = true.
Proof. vm_cast_no_check (eq_refl true). Qed.

(* ---- the listener: clauses, defaults, nesting ---- *)
Lemma rn_refl (s : string) : rn (S s) s = true.
Proof. unfold rn. apply eqb_str_refl. Qed.

(* rules the listener does not know leave the state alone *)
Theorem qenter_other today r kids st :
  rn r "select" = false -> rn r "and_filter" = false -> rn r "group_by_body" = false ->
  rn r "order_by_body" = false -> rn r "subfilter" = false -> rn r "where" = false ->
  qenter today r kids st = Ok st.
Proof. intros H1 H2 H3 H4 H5 H6. unfold qenter. now rewrite H1, H2, H3, H4, H5, H6. Qed.

(* O and G are accepted in either order: the two clauses write different fields *)
Theorem order_group_commute today ko kg st a b :
  qenter today (S "order_by_body") ko st = Ok a -> qenter today (S "group_by_body") kg a = Ok b ->
  exists a', qenter today (S "group_by_body") kg st = Ok a' /\ qenter today (S "order_by_body") ko a' = Ok b.
Proof.
  unfold qenter. cbn [rn]. 
  replace (rn (S "order_by_body") "select") with false by reflexivity.
  replace (rn (S "order_by_body") "and_filter") with false by reflexivity.
  replace (rn (S "order_by_body") "group_by_body") with false by reflexivity.
  replace (rn (S "order_by_body") "order_by_body") with true by reflexivity.
  replace (rn (S "group_by_body") "select") with false by reflexivity.
  replace (rn (S "group_by_body") "and_filter") with false by reflexivity.
  replace (rn (S "group_by_body") "group_by_body") with true by reflexivity.
  intros Ha Hb.
  destruct (seq_res (map order_atom (rules_named "order_by_atom" ko))) as [xo| | |] eqn:Eo; simpl in Ha; try discriminate.
  inversion Ha; subst a. cbn in Hb.
  destruct (seq_res (map group_atom (rules_named "group_by_atom" kg))) as [xg| | |] eqn:Eg; simpl in Hb; try discriminate.
  inversion Hb; subst b.
  eexists. split; [reflexivity|]. cbn. reflexivity.
Qed.

(* omitted clauses keep their defaults *)
Theorem defaults :
  q_select init_query = QSel QNote /\ q_where init_query = None /\
  q_order init_query = [S "NOTE_TYPE"; S "PRIORITY"; S "MODIFY_DATE"; S "CREATE_DATE"] /\ q_group init_query = [].
Proof. repeat split. Qed.

(* parentheses nest: leaving a sub-filter attaches its alternatives to the last
   and-filter of the enclosing group *)
Theorem subfilter_attaches kids q gs parent f afs :
  qexit (S "subfilter") kids (mkQS q (gs ++ [parent ++ [f]; afs])) =
  Ok (mkQS q (gs ++ [parent ++ [add_or f afs]])).
Proof.
  unfold qexit. replace (rn (S "subfilter") "subfilter") with true by reflexivity. cbn [qs_groups qs_q].
  rewrite rev_app_distr. cbn [rev app]. rewrite rev_unit.
  f_equal. f_equal. cbn [rev]. rewrite !rev_involutive. reflexivity.
Qed.

(* juxtaposed atoms of one group pool: the and-filter is the fold of its atoms, in order *)
Theorem and_filter_pools today kids st f g :
  fold_atoms today empty_af (rules_named "where_atom" kids) = Ok f ->
  push_last f (qs_groups st) = Ok g ->
  qenter today (S "and_filter") kids st = Ok (mkQS (qs_q st) g).
Proof.
  intros Hf Hg. unfold qenter.
  replace (rn (S "and_filter") "select") with false by reflexivity.
  replace (rn (S "and_filter") "and_filter") with true by reflexivity.
  rewrite Hf. simpl. rewrite Hg. reflexivity.
Qed.

(* ---- CLI normalisation ---- *)
Theorem process_query_adds_W q :
  startswith (S "S ") q = false -> startswith (S "W ") q = false ->
  process_query q = process_query (S "W " ++ q).
Proof.
  intros H1 H2. unfold process_query at 1. rewrite H1, H2. cbn [orb].
  unfold process_query. replace (startswith (S "S ") (S "W " ++ q)) with false by reflexivity.
  replace (startswith (S "W ") (S "W " ++ q)) with true by (symmetry; apply (startswith_app (S "W ") q)).
  reflexivity.
Qed.
Theorem process_query_default_group q :
  startswith (S "W ") q = true -> contains (S " G ") q = false -> process_query q = q ++ S " G file".
Proof.
  intros H1 H2. unfold process_query. rewrite H1, orb_true_r.
  assert (E : startswith (S "S ") q = false).
  { destruct q as [|c q']; [reflexivity|]. simpl in H1 |- *. apply andb_prop in H1. destruct H1 as [Hc _].
    apply ceqb_eq in Hc. subst c. reflexivity. }
  rewrite E, H2. cbn [negb andb]. 
  assert (E2 : startswith (S "S ") (q ++ S " G file") = false).
  { destruct q as [|c q']; [discriminate|]. simpl in H1 |- *. apply andb_prop in H1. destruct H1 as [Hc _].
    apply ceqb_eq in Hc. subst c. reflexivity. }
  now rewrite E2.
Qed.
