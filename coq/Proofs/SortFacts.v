(* Insertion sort and the code-point order on strings. *)
From Coq Require Import Permutation Sorted.
From Zorg Require Import Base.PyStr Proofs.PyStrFacts.

Section ISort.
  Context {A : Type} (leb : A -> A -> bool).
  Hypothesis leb_total : forall a b, leb a b = true \/ leb b a = true.
  Hypothesis leb_trans : forall a b c, leb a b = true -> leb b c = true -> leb a c = true.

  Lemma insert_perm x l : Permutation (insert leb x l) (x :: l).
  Proof.
    induction l as [|y l IH]; simpl; [reflexivity|].
    destruct (leb x y); [reflexivity|].
    rewrite IH. apply perm_swap.
  Qed.
  Lemma isort_perm l : Permutation (isort leb l) l.
  Proof. induction l as [|x l IH]; simpl; [reflexivity|]. rewrite insert_perm. now constructor. Qed.

  Definition sorted (l : list A) : Prop := StronglySorted (fun a b => leb a b = true) l.

  Lemma insert_sorted x l : sorted l -> sorted (insert leb x l).
  Proof.
    induction l as [|y l IH]; simpl; intros H.
    - repeat constructor.
    - inversion H as [|? ? Hs Hf]; subst.
      destruct (leb x y) eqn:E.
      + constructor; [exact H|]. constructor; [exact E|].
        eapply Forall_impl; [|exact Hf]. intros z Hz. eapply leb_trans; eauto.
      + constructor; [now apply IH|].
        assert (Hyx : leb y x = true) by (destruct (leb_total x y); congruence).
        rewrite Forall_forall. intros z Hz.
        apply (Permutation_in _ (insert_perm x l)) in Hz. destruct Hz as [<-|Hz]; [exact Hyx|].
        rewrite Forall_forall in Hf. now apply Hf.
  Qed.
  Lemma isort_sorted l : sorted (isort leb l).
  Proof. induction l as [|x l IH]; simpl; [constructor|now apply insert_sorted]. Qed.
End ISort.

(* ---- the order on strings ---- *)
Lemma str_ltb_irrefl a : str_ltb a a = false.
Proof. induction a as [|x a IH]; simpl; auto. now rewrite N.ltb_irrefl. Qed.

Lemma str_ltb_trans : forall a b c, str_ltb a b = true -> str_ltb b c = true -> str_ltb a c = true.
Proof.
  induction a as [|x a IH]; intros [|y b] [|z c] H1 H2; simpl in *; try discriminate; auto.
  destruct (N.ltb (ncode x) (ncode y)) eqn:Exy.
  - destruct (N.ltb (ncode y) (ncode z)) eqn:Eyz.
    + apply N.ltb_lt in Exy, Eyz. assert (E : N.ltb (ncode x) (ncode z) = true) by (apply N.ltb_lt; lia). now rewrite E.
    + destruct (N.ltb (ncode z) (ncode y)) eqn:Ezy; [discriminate|].
      apply N.ltb_lt in Exy. apply N.ltb_ge in Eyz, Ezy.
      assert (E : N.ltb (ncode x) (ncode z) = true) by (apply N.ltb_lt; lia). now rewrite E.
  - destruct (N.ltb (ncode y) (ncode x)) eqn:Eyx; [discriminate|].
    apply N.ltb_ge in Exy, Eyx. assert (Hxy : ncode x = ncode y) by lia. rewrite Hxy.
    destruct (N.ltb (ncode y) (ncode z)); auto.
    destruct (N.ltb (ncode z) (ncode y)); [discriminate|]. eapply IH; eauto.
Qed.

Lemma ncode_inj x y : ncode x = ncode y -> x = y.
Proof. unfold ncode. intros H. rewrite <- (ascii_N_embedding x), <- (ascii_N_embedding y). now rewrite H. Qed.

Lemma str_trichotomy : forall a b, str_ltb a b = true \/ a = b \/ str_ltb b a = true.
Proof.
  induction a as [|x a IH]; intros [|y b]; simpl; auto.
  destruct (N.ltb (ncode x) (ncode y)) eqn:Exy; auto.
  destruct (N.ltb (ncode y) (ncode x)) eqn:Eyx; auto.
  apply N.ltb_ge in Exy, Eyx. assert (E : x = y) by (apply ncode_inj; lia). subst.
  destruct (IH b) as [H|[->|H]]; auto.
Qed.

Lemma str_ltb_asym a b : str_ltb a b = true -> str_ltb b a = false.
Proof.
  intros H. destruct (str_ltb b a) eqn:E; auto.
  pose proof (str_ltb_trans _ _ _ H E) as Hc. rewrite str_ltb_irrefl in Hc. discriminate.
Qed.

Lemma str_leb_total a b : str_leb a b = true \/ str_leb b a = true.
Proof.
  unfold str_leb. destruct (str_trichotomy a b) as [H|[->|H]].
  - left. now rewrite (str_ltb_asym _ _ H).
  - left. now rewrite str_ltb_irrefl.
  - right. now rewrite (str_ltb_asym _ _ H).
Qed.

Lemma str_leb_trans a b c : str_leb a b = true -> str_leb b c = true -> str_leb a c = true.
Proof.
  unfold str_leb. intros H1 H2. apply negb_true_iff in H1, H2. apply negb_true_iff.
  destruct (str_ltb c a) eqn:E; auto.
  destruct (str_trichotomy a b) as [H|[->|H]]; [|congruence|congruence].
  pose proof (str_ltb_trans _ _ _ E H). congruence.
Qed.

Lemma str_leb_antisym a b : str_leb a b = true -> str_leb b a = true -> a = b.
Proof.
  unfold str_leb. intros H1 H2. apply negb_true_iff in H1, H2.
  destruct (str_trichotomy a b) as [H|[->|H]]; congruence.
Qed.
