From Zorg Require Import Base.PyStr Base.Sexp Base.Res Base.Dates Model.FileGroups.

Lemma bind_ok_inv {A B} (r : res A) (f : A -> res B) b :
  bind r f = Ok b -> exists a, r = Ok a /\ f a = Ok b.
Proof. destruct r; simpl; intros H; try discriminate; eauto. Qed.

Lemma concat_res_app {A} (l1 l2 : list (res (list A))) :
  concat_res (l1 ++ l2) =
  (a <- concat_res l1 ;; b <- concat_res l2 ;; Ok (a ++ b)).
Proof.
  induction l1 as [|r l1 IH]; simpl.
  - destruct (concat_res l2); reflexivity.
  - destruct r as [a| | |]; simpl; try reflexivity.
    rewrite IH. destruct (concat_res l1) as [x| | |]; simpl; try reflexivity.
    destruct (concat_res l2) as [y| | |]; simpl; try reflexivity.
    now rewrite app_assoc.
Qed.

Lemma field_value_not_fuel today f : field_value today f <> OutOfFuel.
Proof.
  unfold field_value.
  destruct (startswith _ f).
  - destruct (skipn 9 f) as [|c [|r [|? ?]]]; try discriminate.
    destruct (ceqb r _); try discriminate.
    destruct (day_index c); try discriminate.
    destruct (is_digit c); discriminate.
  - destruct (startswith _ f); [|discriminate].
    destruct (skipn 5 f) as [|c [|r rest]]; try discriminate.
    destruct (ceqb r _); try discriminate.
    destruct (day_index c).
    + destruct (eqb_str rest _); [discriminate|].
      destruct (eqb_str rest _); [discriminate|].
      destruct (eqb_str rest _); discriminate.
    + destruct (is_digit c); discriminate.
Qed.

Lemma format_go_not_fuel today s : forall inf cur, format_go today s inf cur <> OutOfFuel.
Proof.
  induction s as [|c s IH]; intros inf cur; simpl.
  - destruct inf; discriminate.
  - pose proof (field_value_not_fuel today (rev cur)) as Hf.
    pose proof (IH false []) as Hg. pose proof (IH true []) as Hg'.
    destruct inf;
    repeat match goal with
           | |- context [if ?c then _ else _] => destruct c
           end; try discriminate; try apply IH.
    + destruct (field_value today (rev cur)) eqn:E1; simpl; try discriminate; try congruence.
      destruct (format_go today s false []) eqn:E2; simpl; try discriminate; congruence.
    + destruct (format_go today s true []) eqn:E2; simpl; try discriminate; congruence.
Qed.

Lemma format_member_not_fuel today s : format_member today s <> OutOfFuel.
Proof. apply format_go_not_fuel. Qed.

Section Facts.
  Variable today : date.
  Variable m : gmap.
  Notation exp1 := (exp1 today m).
  Notation expand := (expand today m).

  Lemma exp1_S f b p : exp1 (Datatypes.S f) b p =
    if is_group p then
      match lookup (skipn 1 p) m with
      | None => Exn (S "KeyError")
      | Some g => concat_res (map (exp1 f true) g)
      end
    else if b then rmap (fun x => [x]) (format_member today p) else Ok [p].
  Proof. reflexivity. Qed.
  Lemma exp1_0 b p : exp1 0 b p =
    if is_group p then OutOfFuel
    else if b then rmap (fun x => [x]) (format_member today p) else Ok [p].
  Proof. reflexivity. Qed.

  Lemma expand_app fuel xs ys :
    expand fuel (xs ++ ys) =
    (a <- expand fuel xs ;; b <- expand fuel ys ;; Ok (a ++ b)).
  Proof. unfold FileGroups.expand. rewrite map_app. apply concat_res_app. Qed.

  Lemma expand_path fuel p : is_group p = false -> expand fuel [p] = Ok [p].
  Proof.
    intros H. unfold FileGroups.expand. cbn [map concat_res].
    destruct fuel; [rewrite exp1_0|rewrite exp1_S]; rewrite H; reflexivity.
  Qed.

  Lemma exp1_group fuel b p ms :
    is_group p = true -> lookup (skipn 1 p) m = Some ms ->
    exp1 (Datatypes.S fuel) b p = concat_res (map (exp1 fuel true) ms).
  Proof. intros Hg Hl. rewrite exp1_S, Hg, Hl. reflexivity. Qed.

  Lemma expand_group fuel g ms :
    lookup g m = Some ms ->
    expand (Datatypes.S fuel) [ch "@" :: g] = concat_res (map (exp1 fuel true) ms).
  Proof.
    intros Hl. unfold FileGroups.expand. cbn [map concat_res].
    rewrite (exp1_group fuel false (ch "@" :: g) ms); [| reflexivity | exact Hl].
    destruct (concat_res _); simpl; try reflexivity. now rewrite app_nil_r.
  Qed.

  (* ---------- soundness w.r.t. the big-step spec ---------- *)
  Lemma concat_sound (f : nat) (b : bool) :
    (forall p out, exp1 f b p = Ok out -> Exp1 today m b p out) ->
    forall ps outs, concat_res (map (exp1 f b) ps) = Ok outs -> ExpL today m b ps outs.
  Proof.
    intros IH ps. induction ps as [|p ps IHps]; simpl; intros outs H.
    - inversion H. constructor.
    - apply bind_ok_inv in H. destruct H as (a & Ha & H).
      apply bind_ok_inv in H. destruct H as (c & Hc & H). inversion H; subst.
      constructor; auto.
  Qed.

  Lemma exp1_sound : forall fuel b p out, exp1 fuel b p = Ok out -> Exp1 today m b p out.
  Proof.
    induction fuel as [|f IH]; intros b p out H; [rewrite exp1_0 in H|rewrite exp1_S in H].
    - destruct (is_group p) eqn:Hg; [discriminate|].
      destruct b.
      + unfold rmap in H. apply bind_ok_inv in H. destruct H as (q & Hq & H).
        inversion H; subst. now constructor.
      + inversion H; subst. now constructor.
    - destruct (is_group p) eqn:Hg.
      + destruct (lookup (skipn 1 p) m) as [ms|] eqn:Hl; [|discriminate].
        eapply E_group; eauto. eapply concat_sound; eauto.
      + destruct b.
        * unfold rmap in H. apply bind_ok_inv in H. destruct H as (q & Hq & H).
          inversion H; subst. now constructor.
        * inversion H; subst. now constructor.
  Qed.

  Theorem expand_sound fuel ps outs :
    expand fuel ps = Ok outs -> ExpL today m false ps outs.
  Proof. apply concat_sound. intros; eapply exp1_sound; eauto. Qed.

  (* ---------- fuel monotonicity ---------- *)
  Lemma concat_mono (f f' : nat) (b : bool) :
    (forall p out, exp1 f b p = Ok out -> exp1 f' b p = Ok out) ->
    forall ps outs, concat_res (map (exp1 f b) ps) = Ok outs ->
                    concat_res (map (exp1 f' b) ps) = Ok outs.
  Proof.
    intros IH ps. induction ps as [|p ps IHps]; simpl; intros outs H; [exact H|].
    apply bind_ok_inv in H. destruct H as (a & Ha & H).
    apply bind_ok_inv in H. destruct H as (c & Hc & H).
    rewrite (IH _ _ Ha). simpl. rewrite (IHps _ Hc). exact H.
  Qed.

  Lemma exp1_mono : forall fuel b p out, exp1 fuel b p = Ok out ->
    forall k, exp1 (fuel + k) b p = Ok out.
  Proof.
    induction fuel as [|f IH]; intros b p out H k.
    - rewrite exp1_0 in H. destruct (is_group p) eqn:Hg; [discriminate|].
      destruct k; cbn [Nat.add]; [rewrite exp1_0|rewrite exp1_S]; rewrite Hg; exact H.
    - cbn [Nat.add]. rewrite exp1_S in H |- *. destruct (is_group p) eqn:Hg; [|exact H].
      destruct (lookup (skipn 1 p) m) as [ms|]; [|discriminate].
      eapply concat_mono; [|exact H]. intros; now apply IH.
  Qed.

  (* ---------- completeness ---------- *)
  Scheme Exp1_ind2 := Induction for Exp1 Sort Prop
    with ExpL_ind2 := Induction for ExpL Sort Prop.

  Lemma complete_mut :
    (forall b p out, Exp1 today m b p out -> exists f, exp1 f b p = Ok out) /\
    (forall b ps outs, ExpL today m b ps outs ->
       exists f, concat_res (map (exp1 f b) ps) = Ok outs).
  Proof.
    assert (H : forall b p out (e : Exp1 today m b p out), exists f, exp1 f b p = Ok out).
    { apply (Exp1_ind2 today m
        (fun b p out _ => exists f, exp1 f b p = Ok out)
        (fun b ps outs _ => exists f, concat_res (map (exp1 f b) ps) = Ok outs)).
      - intros p Hg. exists 0. rewrite exp1_0. now rewrite Hg.
      - intros p q Hg Hq. exists 0. rewrite exp1_0. rewrite Hg. unfold rmap. now rewrite Hq.
      - intros b p ms outs Hg Hl _ [f Hf]. exists (Datatypes.S f). rewrite exp1_S. now rewrite Hg, Hl.
      - intros b. now exists 0.
      - intros b p ps o os _ [f1 H1] _ [f2 H2]. exists (f1 + f2). simpl.
        rewrite (exp1_mono _ _ _ _ H1 f2). simpl.
        replace (f1 + f2) with (f2 + f1) by lia.
        erewrite concat_mono; [reflexivity| |exact H2].
        intros; now apply exp1_mono. }
    split; [exact H|].
    intros b ps outs e. induction e as [b|b p ps o os e1 e2 [f2 H2]].
    - now exists 0.
    - destruct (H _ _ _ e1) as [f1 H1]. exists (f1 + f2). simpl.
      rewrite (exp1_mono _ _ _ _ H1 f2). simpl.
      replace (f1 + f2) with (f2 + f1) by lia.
      erewrite concat_mono; [reflexivity| |exact H2].
      intros; now apply exp1_mono.
  Qed.

  Theorem expand_complete ps outs :
    ExpL today m false ps outs -> exists fuel, expand fuel ps = Ok outs.
  Proof. apply complete_mut. Qed.

  (* ---------- termination on acyclic maps ---------- *)
  Definition acyclic (rank : str -> nat) : Prop :=
    forall g ms, lookup g m = Some ms ->
    forall p, In p ms -> is_group p = true -> rank (skipn 1 p) < rank g.

  Lemma concat_not_fuel {A} (l : list (res (list A))) :
    (forall r, In r l -> r <> OutOfFuel) -> concat_res l <> OutOfFuel.
  Proof.
    induction l as [|r l IH]; simpl; intros H; [discriminate|].
    assert (Hr : r <> OutOfFuel) by (apply H; now left).
    destruct r as [a| | |]; simpl; try discriminate; [|congruence].
    assert (Hl : concat_res l <> OutOfFuel) by (apply IH; intros; apply H; now right).
    destruct (concat_res l); simpl; try discriminate; congruence.
  Qed.

  Lemma exp1_terminates rank : acyclic rank ->
    forall n b p, rank (skipn 1 p) < n -> exp1 n b p <> OutOfFuel.
  Proof.
    intros Hac. induction n as [|n IH]; intros b p Hr; [lia|].
    rewrite exp1_S. destruct (is_group p) eqn:Hg.
    - destruct (lookup (skipn 1 p) m) as [ms|] eqn:Hl; [|discriminate].
      apply concat_not_fuel. intros r Hin. apply in_map_iff in Hin.
      destruct Hin as (q & <- & Hq).
      destruct (is_group q) eqn:Hgq.
      + apply IH. specialize (Hac _ _ Hl _ Hq Hgq). lia.
      + pose proof (format_member_not_fuel today q) as Hnf.
        destruct n; [rewrite exp1_0|rewrite exp1_S]; rewrite Hgq; unfold rmap;
          destruct (format_member today q) eqn:E; simpl; try discriminate; congruence.
    - destruct b; [|discriminate]. unfold rmap.
      pose proof (format_member_not_fuel today p) as Hnf.
      destruct (format_member today p) eqn:E; simpl; try discriminate; congruence.
  Qed.

  Theorem expand_terminates rank bound : acyclic rank ->
    (forall g, rank g < bound) ->
    forall ps, expand bound ps <> OutOfFuel.
  Proof.
    intros Hac Hb ps. apply concat_not_fuel. intros r Hin.
    apply in_map_iff in Hin. destruct Hin as (p & <- & _).
    eapply exp1_terminates; eauto.
  Qed.
End Facts.

(* ---------- date substitution ---------- *)
Local Opaque add_days fmt_ymd str_of_Z.

Lemma format_yyyymmdd today (i : nat) : (i < 7)%nat ->
  format_member today (S "{yyyymmdd[" ++ [digit_c i] ++ S "]}") =
  Ok (fmt_ymd (add_days today (- Z.of_nat i))).
Proof.
  intros Hi.
  do 7 (destruct i as [|i]; [cbv -[fmt_ymd add_days]; f_equal; apply app_nil_r|]).
  exfalso; lia.
Qed.

Lemma format_days_year today (i : nat) : (i < 7)%nat ->
  format_member today (S "{days[" ++ [digit_c i] ++ S "].year}") =
  Ok (str_of_Z (yr (add_days today (- Z.of_nat i)))).
Proof.
  intros Hi.
  do 7 (destruct i as [|i]; [cbv -[str_of_Z add_days yr]; f_equal; apply app_nil_r|]).
  exfalso; lia.
Qed.

Lemma format_literal today s :
  forallb (fun c => negb (ceqb c (ch "{")) && negb (ceqb c (ch "}"))) s = true ->
  format_member today s = Ok s.
Proof.
  unfold format_member.
  assert (H : forall cur, forallb (fun c => negb (ceqb c (ch "{")) && negb (ceqb c (ch "}"))) s = true ->
              format_go today s false cur = Ok (rev cur ++ s)).
  { induction s as [|c s IH]; intros cur Hs.
    - cbn [format_go]. now rewrite app_nil_r.
    - cbn [forallb] in Hs.
      apply andb_prop in Hs. destruct Hs as [Hc Hs]. apply andb_prop in Hc. destruct Hc as [H1 H2].
      apply negb_true_iff in H1, H2.
      cbn [format_go]. rewrite H1, H2.
      rewrite IH by exact Hs. cbn [rev]. now rewrite <- app_assoc. }
  intros Hs. now rewrite H.
Qed.
