From Zorg Require Import Base.PyStr Base.Sexp Base.Res Base.Dates Gen.Params Proofs.PyStrFacts Model.Zid Model.FileListener.
From RecordUpdate Require Import RecordUpdate.

Lemma bind_ok {A B} (r : res A) (f : A -> res B) b :
  bind r f = Ok b -> exists a, r = Ok a /\ f a = Ok b.
Proof. destruct r; simpl; intros H; try discriminate; eauto. Qed.

(* induction principle for trees (children are a nested list) *)
Section TreeInd.
  Variable P : tree -> Prop.
  Hypothesis HN : forall r l kids, Forall P kids -> P (Node r l kids).
  Hypothesis HT : forall ty s, P (Tok ty s).
  Hypothesis HE : forall s, P (ErrTok s).
  Fixpoint tree_ind2 (t : tree) : P t :=
    match t with
    | Node r l kids =>
        HN r l kids ((fix go (ks : list tree) : Forall P ks :=
                        match ks with
                        | [] => Forall_nil _
                        | k :: ks' => Forall_cons _ (tree_ind2 k) (go ks')
                        end) kids)
    | Tok ty s => HT ty s
    | ErrTok s => HE s
    end.
End TreeInd.

(* ------------------------------------------------------------------ *)
(* What reaches the output: only exits of base_note / base_todo        *)
(* ------------------------------------------------------------------ *)
Section Out.
  Variable today : date.
  Variable errors : bool.
  Notation walk := (walk today errors).
  Notation exit_ := (exit_ today errors).
  Notation add_note := (add_note today errors).

  (* with parser errors no note is ever produced; without, the flag is never raised *)
  Lemma add_note_out nb todo st st' n f :
    add_note nb todo st = Ok (st', n, f) ->
    (errors = true -> n = None) /\ (errors = false -> f = false).
  Proof.
    unfold FileListener.add_note. intros H.
    destruct nb as [nb|]; [|inversion H; auto].
    destruct (strip (text_of nb)) as [|c body]; [inversion H; auto|].
    destruct errors; [inversion H; split; [auto|discriminate]|].
    apply bind_ok in H. destruct H as (bl & _ & H).
    apply bind_ok in H. destruct H as (st1 & _ & H).
    destruct (s_block st1); [|discriminate]. inversion H. split; [discriminate|auto].
  Qed.

  Lemma exit_out r l kids st st' n f :
    exit_ r l kids st = Ok (st', n, f) ->
    (errors = true -> n = None) /\ (errors = false -> f = false).
  Proof.
    unfold FileListener.exit_. intros H.
    destruct (classify r);
      try (inversion H; split; auto; fail).
    - apply bind_ok in H. destruct H as ([[st1 n1] f1] & Ha & H). inversion H; subst.
      eapply add_note_out; eauto.
    - apply bind_ok in H. destruct H as ([[st1 n1] f1] & Ha & H). inversion H; subst.
      eapply add_note_out; eauto.
  Qed.

  Definition out_inv (a a' : acc) : Prop :=
    (errors = true -> fst a' = fst a) /\ (errors = false -> snd a' = snd a).

  Lemma out_inv_refl a : out_inv a a. Proof. split; auto. Qed.
  Lemma out_inv_trans a b c : out_inv a b -> out_inv b c -> out_inv a c.
  Proof. intros [H1 H2] [H3 H4]. split; intros E; [rewrite H3, H1|rewrite H4, H2]; auto. Qed.

  Lemma walk_out : forall t st a st' a', walk t st a = Ok (st', a') -> out_inv a a'.
  Proof.
    induction t as [r l kids IH| |] using tree_ind2; intros st a st' a' H;
      [|inversion H; apply out_inv_refl|inversion H; apply out_inv_refl].
    cbn [FileListener.walk] in H.
    apply bind_ok in H. destruct H as (st1 & _ & H).
    apply bind_ok in H. destruct H as ([st2 a2] & Hk & H).
    apply bind_ok in H. destruct H as ([[st3 n] f] & Hx & H).
    inversion H; subst. cbn [fst snd] in *.
    assert (Hkids : out_inv a a2).
    { clear Hx H. revert st1 a Hk. induction IH as [|k ks Hk0 _ IHks]; intros s1 a1 Hk.
      - inversion Hk. apply out_inv_refl.
      - apply bind_ok in Hk. destruct Hk as ([s' a'] & Hw & Hk). cbn [fst snd] in Hk.
        eapply out_inv_trans; [eapply Hk0; eauto|eapply IHks; eauto]. }
    eapply out_inv_trans; [exact Hkids|].
    destruct (exit_out _ _ _ _ _ _ _ Hx) as [E1 E2].
    unfold out_inv, push. cbn [fst snd]. split; intros E.
    - rewrite (E1 E). reflexivity.
    - rewrite (E2 E). apply orb_false_r.
  Qed.
End Out.

Theorem errors_no_notes today t pg : listen today true t = Ok pg -> p_notes pg = [].
Proof.
  unfold listen. intros H. apply bind_ok in H. destruct H as ([st [ns f]] & Hw & H).
  inversion H; subst. cbn [p_notes fst snd].
  destruct (walk_out today true _ _ _ _ _ Hw) as [E _]. cbn [fst] in E. rewrite (E eq_refl). reflexivity.
Qed.

Theorem no_errors_not_flagged today t pg : listen today false t = Ok pg -> p_has_errors pg = false.
Proof.
  unfold listen. intros H. apply bind_ok in H. destruct H as ([st [ns f]] & Hw & H).
  inversion H; subst. cbn [p_has_errors fst snd].
  destruct (walk_out today false _ _ _ _ _ Hw) as [_ E]. cbn [snd] in E. now rewrite (E eq_refl).
Qed.

(* ------------------------------------------------------------------ *)
(* Kind and priority are only written by todo_prefix / priority nodes  *)
(* ------------------------------------------------------------------ *)
Definition kp (st : state) := (s_prio st, s_status st).

Lemma add_tag_kp n v st : kp (add_tag n v st) = kp st.
Proof. unfold add_tag. destruct (forallb is_digit v); [reflexivity|]. destruct (tag_scope st); reflexivity. Qed.
Lemma add_prop_kp k v st : kp (add_prop k v st) = kp st.
Proof. unfold add_prop. destruct (s_in_quoted st); [reflexivity|]. destruct (prop_scope st); reflexivity. Qed.
Lemma ensure_h0_kp st : kp (ensure_h0 st) = kp st.
Proof. unfold ensure_h0. destruct (s_h0 st); reflexivity. Qed.
Lemma tag1_kp kids st n p st' : tag1 kids st n p = Ok st' -> kp st' = kp st.
Proof. unfold tag1. intros H. apply bind_ok in H. destruct H as (t & _ & H). inversion H. apply add_tag_kp. Qed.

Lemma set_date_kp sc txt st st' : set_date sc txt st = Ok st' -> kp st' = kp st.
Proof. unfold set_date. intros H. apply bind_ok in H. destruct H as (d & _ & H). now inversion H. Qed.

Lemma enter_date_kp kids st st' : enter_date kids st = Ok st' -> kp st' = kp st.
Proof.
  unfold enter_date. intros H. destruct (child_tok "DATE" kids); [|discriminate].
  repeat match type of H with
         | (if ?c then _ else _) = _ => destruct c
         end; try (eapply set_date_kp; eauto; fail). now inversion H.
Qed.

Lemma enter_id_kp txt st st' : enter_id txt st = Ok st' -> kp st' = kp st.
Proof.
  unfold enter_id. intros H. destruct (s_in_note st); [|now inversion H].
  repeat match type of H with
         | (if ?c then _ else _) = _ => destruct c
         end.
  - apply bind_ok in H. destruct H as (d & _ & H). now inversion H.
  - apply bind_ok in H. destruct H as (d & _ & H). now inversion H.
  - now inversion H.
Qed.

Lemma enter_inline_kp txt st st' : enter_inline txt st = Ok st' -> kp st' = kp st.
Proof.
  unfold enter_inline. intros H.
  destruct (split_on (ch " ") txt) as [|w [|w2 rest]].
  - now inversion H.
  - destruct (split_str (S "::") _) as [|k [|v [|? ?]]]; try discriminate. inversion H. apply add_prop_kp.
  - inversion H. apply add_prop_kp.
Qed.

Lemma enter_header_kp lvl kids st st' : enter_header lvl kids st = Ok st' -> kp st' = kp st.
Proof.
  unfold enter_header. intros H. destruct (child_rule "space_atoms" kids); [|discriminate].
  destruct lvl as [|[|lvl]].
  - unfold new_section in H. inversion H. reflexivity.
  - unfold new_section in H. destruct (getn 0 _ None); inversion H; try reflexivity.
    unfold kp. cbn.
    pose proof (ensure_h0_kp (st <| s_in_hdr := upd 1 (fun _ => true) (s_in_hdr st) |>)) as E.
    unfold kp in E. cbn in E. exact E.
  - destruct (getn _ _ None); [|discriminate]. unfold new_section in H. inversion H. reflexivity.
Qed.

Theorem enter_keeps_kind_priority r l kids st st' :
  classify r <> RTodoPrefix -> classify r <> RPriority ->
  enter r l kids st = Ok st' -> kp st' = kp st.
Proof.
  intros N1 N2. unfold enter. destruct (classify r) eqn:E; intros H;
    try congruence;
    try (eapply tag1_kp; eauto; fail);
    try (inversion H; reflexivity).
  - apply bind_ok in H. destruct H as (t & _ & H). inversion H.
    destruct (eqb_str t _); [reflexivity|apply add_tag_kp].
  - inversion H. apply add_tag_kp.
  - unfold new_block in H. inversion H. unfold kp. cbn.
    destruct (no_section_open st); [exact (ensure_h0_kp st)|reflexivity].
  - eapply enter_date_kp; eauto.
  - eapply enter_id_kp; eauto.
  - eapply enter_inline_kp; eauto.
  - destruct (child_rule "id" kids); [|discriminate].
    destruct (child_rule "simple_prop_value" kids); [|discriminate]. inversion H. apply add_prop_kp.
  - eapply enter_header_kp; eauto.
Qed.

(* ------------------------------------------------------------------ *)
(* Identity: look-alike words after the identity position are inert    *)
(* ------------------------------------------------------------------ *)
Definition ident (st : state) := (s_zid st, s_modify st, s_dates st).

Theorem id_after_identity_is_inert txt st st' :
  enter_id txt st = Ok st' ->
  (2 <= s_ids st \/ (s_ids st = 1 /\ s_modify st = None)) ->
  ident st' = ident st.
Proof.
  unfold enter_id. intros H Hpos. destruct (s_in_note st); [|now inversion H].
  assert (E1 : (Datatypes.S (s_ids st) =? 1)%nat = false) by (apply Nat.eqb_neq; lia).
  cbn [s_modify s_ids] in H. rewrite E1 in H. cbn [andb orb] in H.
  destruct Hpos as [Hp|[Hp Hm]].
  - assert (E2 : (Datatypes.S (s_ids st) =? 2)%nat = false) by (apply Nat.eqb_neq; lia).
    rewrite E2 in H. cbn [andb] in H. now inversion H.
  - cbn in H. rewrite Hm in H. cbn in H. rewrite andb_false_r in H. cbn in H. now inversion H.
Qed.

Theorem date_word_in_body_is_inert kids st st' :
  enter_date kids st = Ok st' ->
  s_in_hdr st = [false; false; false; false] -> s_first_comment st = false ->
  (s_ids st <> 1 \/ getn 5 (s_dates st) None <> None) ->
  ident st' = ident st.
Proof.
  unfold enter_date. intros H Hh Hc Hpos. destruct (child_tok "DATE" kids); [|discriminate].
  rewrite Hh, Hc in H. cbn [getn nth] in H.
  assert (E : (s_in_note st && (s_ids st =? 1)%nat && is_none (getn 5 (s_dates st) None)) = false).
  { destruct Hpos as [Hp|Hp].
    - apply Nat.eqb_neq in Hp. rewrite Hp. now rewrite andb_false_r.
    - destruct (getn 5 (s_dates st) None); [|congruence]. cbn. now rewrite andb_false_r. }
  rewrite E in H. now inversion H.
Qed.

(* ------------------------------------------------------------------ *)
(* Scoping mechanism (C02)                                             *)
(* ------------------------------------------------------------------ *)
Lemma add_tag_digits n v st : forallb is_digit v = true -> add_tag n v st = st.
Proof. unfold add_tag. now intros ->. Qed.
Lemma add_tag_no_scope n v st : tag_scope st = None -> add_tag n v st = st.
Proof. unfold add_tag. intros ->. now destruct (forallb is_digit v). Qed.
Lemma add_prop_quoted k v st : s_in_quoted st = true -> add_prop k v st = st.
Proof. unfold add_prop. now intros ->. Qed.

(* an in-block comment (no header flag, not in a note, not the first comment) records nothing *)
Lemma comment_scope_none st :
  s_first_comment st = false -> s_in_hdr st = [false; false; false; false] -> s_in_note st = false ->
  tag_scope st = None /\ (s_in_head st = false -> prop_scope st = None).
Proof. unfold tag_scope, prop_scope. intros -> -> ->. cbn. split; auto. now intros ->. Qed.

Fixpoint dict_get (k : str) (m : list (str * str)) : option str :=
  match m with [] => None | (k', v) :: r => if eqb_str k k' then Some v else dict_get k r end.

Lemma dict_get_set k k' v m : dict_get k (dict_set k' v m) = if eqb_str k k' then Some v else dict_get k m.
Proof.
  induction m as [|[k2 v2] r IH]; simpl.
  - reflexivity.
  - destruct (eqb_str k' k2) eqn:E2; simpl.
    + apply eqb_str_eq in E2. subst k2. destruct (eqb_str k k'); reflexivity.
    + destruct (eqb_str k k2) eqn:E3.
      * apply eqb_str_eq in E3. subst k2.
        destruct (eqb_str k k') eqn:E4; auto. apply eqb_str_eq in E4. subst.
        rewrite eqb_str_refl in E2. discriminate.
      * exact IH.
Qed.

Lemma dict_get_in k m v : dict_get k m = Some v -> In k (map fst m).
Proof.
  induction m as [|[k' v'] r IH]; simpl; [discriminate|].
  destruct (eqb_str k k') eqn:E; intros H.
  - apply eqb_str_eq in E. now left.
  - right. now apply IH.
Qed.

Lemma dict_set_keys k v m x : In x (map fst (dict_set k v m)) <-> x = k \/ In x (map fst m).
Proof.
  induction m as [|[k' v'] r IH]; simpl.
  - intuition.
  - destruct (eqb_str k k') eqn:E; simpl.
    + apply eqb_str_eq in E. subst. intuition.
    + rewrite IH. intuition.
Qed.

(* dict assignment keeps keys unique: every store of the listener is a proper dict *)
Lemma dict_set_nodup k v m : NoDup (map fst m) -> NoDup (map fst (dict_set k v m)).
Proof.
  induction m as [|[k' v'] r IH]; simpl; intros H.
  - constructor; [intros []|constructor].
  - inversion H as [|? ? Hn Hr]; subst. destruct (eqb_str k k') eqn:E; simpl.
    + apply eqb_str_eq in E. subst. now constructor.
    + constructor; [|now apply IH].
      rewrite dict_set_keys. intros [->|Hin]; [rewrite eqb_str_refl in E; discriminate|contradiction].
Qed.

(* a | b : the right operand wins *)
Lemma dict_get_union k : forall b a, NoDup (map fst b) ->
  dict_get k (dict_union a b) = match dict_get k b with Some v => Some v | None => dict_get k a end.
Proof.
  unfold dict_union. induction b as [|[k' v'] b IH]; intros a Hnd; simpl; [reflexivity|].
  inversion Hnd as [|? ? Hn Hr]; subst.
  rewrite IH by exact Hr. rewrite dict_get_set.
  destruct (eqb_str k k') eqn:E.
  - apply eqb_str_eq in E. subst k'.
    destruct (dict_get k b) eqn:G; [|reflexivity]. exfalso. apply Hn. eapply dict_get_in; eauto.
  - reflexivity.
Qed.

(* properties: the innermost scope that defines the key wins (file < h1 < h2 < h3 < h4 < note) *)
Theorem props_innermost_wins k p0 p1 p2 p3 p4 p5 st :
  s_props st = [p0; p1; p2; p3; p4; p5] ->
  Forall (fun p => NoDup (map fst p)) [p0; p1; p2; p3; p4; p5] ->
  dict_get k (current_props st) =
  match dict_get k p5 with Some v => Some v | None =>
  match dict_get k p4 with Some v => Some v | None =>
  match dict_get k p3 with Some v => Some v | None =>
  match dict_get k p2 with Some v => Some v | None =>
  match dict_get k p1 with Some v => Some v | None => dict_get k p0 end end end end end.
Proof.
  intros E Hnd. unfold current_props. rewrite E. cbn [fold_left].
  repeat match goal with H : Forall _ (_ :: _) |- _ => inversion H; subst; clear H end.
  rewrite !dict_get_union by assumption. cbn [dict_get].
  destruct (dict_get k p5), (dict_get k p4), (dict_get k p3), (dict_get k p2), (dict_get k p1), (dict_get k p0); reflexivity.
Qed.

(* create date: own date, else innermost dated header, else the page's date, else today *)
Theorem create_date_precedence today d0 d1 d2 d3 d4 d5 st :
  s_dates st = [d0; d1; d2; d3; d4; d5] ->
  create_date today st =
  match d5 with Some d => d | None => match d4 with Some d => d | None => match d3 with Some d => d | None =>
  match d2 with Some d => d | None => match d1 with Some d => d | None => match d0 with Some d => d | None => today
  end end end end end end.
Proof. intros E. unfold create_date. rewrite E. reflexivity. Qed.

(* leaving an hN section clears that level's tags, date and properties; entering an item clears the note level *)
Theorem exit_section_clears today errors r l kids lvl st :
  classify r = RSection lvl ->
  exists st', exit_ today errors r l kids st = Ok (st', None, false) /\
    s_tags st' = upd (Datatypes.S lvl) (fun _ => []) (s_tags st) /\
    s_props st' = upd (Datatypes.S lvl) (fun _ => []) (s_props st) /\
    s_dates st' = upd (Datatypes.S lvl) (fun _ => None) (s_dates st).
Proof. intros E. unfold exit_. rewrite E. eexists. split; [reflexivity|]. cbn. auto. Qed.

Theorem enter_item_resets r l kids st :
  classify r = RItem ->
  exists st', enter r l kids st = Ok st' /\
    s_tags st' = upd 5 (fun _ => []) (s_tags st) /\ s_props st' = upd 5 (fun _ => []) (s_props st) /\
    s_dates st' = upd 5 (fun _ => None) (s_dates st) /\ s_zid st' = None /\ s_ids st' = 0 /\ s_modify st' = None.
Proof. intros E. unfold enter. rewrite E. eexists. split; [reflexivity|]. cbn. auto 10. Qed.
