From Zorg Require Import Base.PyStr Base.Sexp Base.Res Base.Dates Proofs.PyStrFacts Model.Zid Model.FileListener
  Proofs.FileListenerFacts Model.QueryListener Model.PageSyntax.
From Zorg Require Import Model.QuerySyntax.
From Coq Require Import Lia.

Section QW.
  Variable today : date.
  Notation qwalk := (qwalk today).
  Notation qenter := (qenter today).

  Fixpoint qwalk_list (ks : list tree) (s : qstate) : res qstate :=
    match ks with [] => Ok s | k :: ks' => s' <- qwalk k s ;; qwalk_list ks' s' end.
  Lemma qwalk_node r l kids st :
    qwalk (Node r l kids) st = (st1 <- qenter r kids st ;; st2 <- qwalk_list kids st1 ;; qexit r kids st2).
  Proof. cbn [QueryListener.qwalk]. destruct (qenter r kids st); cbn [bind]; reflexivity. Qed.
  Lemma qwalk_tok ty s st : qwalk (Tok ty s) st = Ok st.
  Proof. reflexivity. Qed.
  Lemma qwalk_list_app a : forall b st, qwalk_list (a ++ b) st = (s <- qwalk_list a st ;; qwalk_list b s).
  Proof.
    induction a as [|k a IH]; intros b st; [reflexivity|]. cbn [app qwalk_list].
    destruct (qwalk k st); cbn [bind]; try reflexivity. apply IH.
  Qed.

  (* rules the listener reacts to *)
  Definition hot (r : str) : bool :=
    rn r "select" || rn r "and_filter" || rn r "group_by_body" || rn r "order_by_body" || rn r "subfilter" || rn r "where".
  Lemma cold_enter r kids st : hot r = false -> qenter r kids st = Ok st.
  Proof.
    unfold hot, QueryListener.qenter. intros H.
    repeat (apply orb_false_elim in H; destruct H as [H ?]).
    repeat match goal with H : rn _ _ = false |- _ => rewrite H; clear H end. try reflexivity.
  Qed.
  Lemma cold_exit r kids st : hot r = false -> qexit r kids st = Ok st.
  Proof.
    unfold hot, qexit. intros H. repeat (apply orb_false_elim in H; destruct H as [H ?]).
    repeat match goal with H : rn _ _ = false |- _ => rewrite H; clear H end. try reflexivity.
  Qed.
  Fixpoint cold (t : tree) : bool :=
    match t with
    | Node r _ kids => negb (hot r) && (fix go (ks : list tree) : bool := match ks with [] => true | k :: r' => cold k && go r' end) kids
    | _ => true
    end.
  Fixpoint colds (ks : list tree) : bool := match ks with [] => true | k :: r => cold k && colds r end.
  Lemma cold_node r l kids : cold (Node r l kids) = negb (hot r) && colds kids.
  Proof. reflexivity. Qed.

  Lemma qwalk_cold : forall t st, cold t = true -> qwalk t st = Ok st.
  Proof.
    induction t as [r l kids IH| |] using tree_ind2; intros st H; [|reflexivity|reflexivity].
    rewrite cold_node in H. apply andb_prop in H. destruct H as [Hh Hk]. apply negb_true_iff in Hh.
    rewrite qwalk_node, cold_enter by exact Hh. cbn [bind].
    assert (E : qwalk_list kids st = Ok st).
    { clear Hh. induction IH as [|k ks Hk0 _ IHks]; [reflexivity|].
      cbn [colds] in Hk. apply andb_prop in Hk. destruct Hk as [H1 H2].
      cbn [qwalk_list]. rewrite Hk0 by exact H1. cbn [bind]. apply IHks. exact H2. }
    rewrite E. cbn [bind]. apply cold_exit. exact Hh.
  Qed.
  Lemma qwalk_colds ks : forall st, colds ks = true -> qwalk_list ks st = Ok st.
  Proof.
    induction ks as [|k ks IH]; intros st H; [reflexivity|]. cbn [colds] in H. apply andb_prop in H. destruct H.
    cbn [qwalk_list]. rewrite qwalk_cold by assumption. cbn [bind]. apply IH. assumption.
  Qed.

  Ltac rns := repeat match goal with
                     | |- context [rn (S ?a) ?b] => let c := eval vm_compute in (rn (S a) b) in change (rn (S a) b) with c
                     end.

  (* the equation for parenthesised sub-filters (the nested fix is a map) *)
  Lemma tree_of_sub o :
    tree_of_atom (ASub o) =
    nd "where_atom" 1 [nd "subfilter" 1 [tks "LPAREN" "("; tree_of_or o; tks "RPAREN" ")"]].
  Proof.
    reflexivity.
  Qed.

  Lemma colds_app a b : colds (a ++ b) = colds a && colds b.
  Proof. induction a as [|k a IH]; [reflexivity|]. cbn [app colds]. now rewrite IH, andb_assoc. Qed.
  Lemma colds_path dirs : colds (path_toks dirs) = true.
  Proof. induction dirs as [|d r IH]; [reflexivity|]. cbn [path_toks flat_map app colds] in *. exact IH. Qed.
  Lemma colds_not_op neg : colds (not_op neg) = true.
  Proof. destruct neg; reflexivity. Qed.

  Definition is_sub (a : qatom) : bool := match a with ASub _ => true | _ => false end.
  Lemma cold_nd (r : string) kids : hot (S r) = false -> colds kids = true -> cold (nd r 1 kids) = true.
  Proof. intros H1 H2. unfold nd. rewrite cold_node, H1, H2. reflexivity. Qed.
  Lemma colds_cons k ks : cold k = true -> colds ks = true -> colds (k :: ks) = true.
  Proof. intros H1 H2. cbn [colds]. now rewrite H1, H2. Qed.
  Lemma colds_kinds ks : colds (map (fun k => nd "note_type_char" 1 [kch_tok k]) ks) = true.
  Proof.
    induction ks as [|k ks IH]; [reflexivity|]. cbn [map]. apply colds_cons; [|exact IH].
    apply cold_nd; [reflexivity|]. destruct k; reflexivity.
  Qed.
  Ltac coldt :=
    repeat first [ reflexivity
                 | apply colds_kinds | apply colds_path | apply colds_not_op
                 | apply cold_nd; [reflexivity|]
                 | apply colds_cons
                 | (rewrite colds_app; apply andb_true_intro; split) ].

  Lemma cold_atom a : is_sub a = false -> cold (tree_of_atom a) = true.
  Proof.
    destruct a as [ks|p hi|neg k s|h t|h t|neg key op v|neg dirs name|neg dirs name star|o]; intros H; try discriminate;
      cbn [tree_of_atom]; unfold qid.
    - coldt.
    - destruct hi; coldt.
    - destruct k; coldt.
    - destruct t; coldt.
    - destruct t; coldt.
    - destruct op, v; coldt; unfold op_tok; repeat match goal with |- context [if ?c then _ else _] => destruct c end; reflexivity.
    - coldt.
    - destruct star; coldt.
  Qed.

  (* ---------------- one atom: add_atom on its tree = spec_atom ---------------- *)
  Lemma child_rule_single (n : string) r l k :
    child_rule n [Node r l k] = if eqb_str r (S n) then Some (Node r l k) else None.
  Proof. reflexivity. Qed.
  Lemma child_rule_cons (n : string) t r : child_rule n (t :: r) = if is_rule n t then Some t else child_rule n r.
  Proof. reflexivity. Qed.
  Lemma child_tok_cons (n : string) t r : child_tok n (t :: r) = if is_tok n t then Some t else child_tok n r.
  Proof. reflexivity. Qed.
  Ltac evalb := repeat match goal with
                       | |- context [eqb_str (S ?a) (S ?b)] =>
                           let c := eval vm_compute in (eqb_str (S a) (S b)) in change (eqb_str (S a) (S b)) with c
                       end.
  Ltac pick := unfold add_atom; cbn [tree_of_atom kids_of nd]; unfold nd; rewrite !child_rule_single; evalb; cbv beta iota.

  Lemma kinds_of_chars ks :
    seq_res (map note_type_of_char (rules_named "note_type_char" (map (fun k => Node (S "note_type_char") 1 [kch_tok k]) ks))) =
    Ok (map kch_str ks).
  Proof.
    induction ks as [|k ks IH]; [reflexivity|]. cbn [map rules_named filter].
    replace (is_rule "note_type_char" (Node (S "note_type_char") 1 [kch_tok k])) with true by reflexivity.
    cbn [map seq_res]. unfold rules_named in IH.
    replace (note_type_of_char (Node (S "note_type_char") 1 [kch_tok k])) with (Ok (A := str) (kch_str k)) by (destruct k; reflexivity).
    cbn [bind]. rewrite IH. reflexivity.
  Qed.

  Lemma has_rule_not_op neg rest :
    (forall t, In t rest -> is_rule "not_op" t = false) -> has_rule "not_op" (not_op neg ++ rest) = neg.
  Proof.
    intros H. unfold has_rule, child_rule. destruct neg; [reflexivity|]. cbn [not_op app].
    assert (E : List.find (is_rule "not_op") rest = None).
    { induction rest as [|t r IH]; [reflexivity|]. cbn [List.find]. rewrite H by (left; reflexivity).
      apply IH. intros x Hx. apply H. right. exact Hx. }
    now rewrite E.
  Qed.

  Lemma add_atom_spec f a : add_atom today f (tree_of_atom a) = spec_atom today f a.
  Proof.
    destruct f as [ki ar cx pe pj cr mo pr de fi li ps ors].
    destruct a as [ks|p hi|neg k s|h t|h t|neg key op v|neg dirs name|neg dirs name star|o].
    - pick. cbn [kids_of]. rewrite kinds_of_chars. reflexivity.
    - pick. cbn [spec_atom]. unfold atom_text. cbn [tree_of_atom text_of nd]. rewrite app_nil_r. reflexivity.
    - pick. cbn [spec_atom kids_of]. unfold tag_of, has_rule.
      assert (T : forall r ty x, text_of (Node r 1 [Tok ty x; qid s]) = x ++ s)
        by (intros; cbn; now rewrite !app_nil_r).
      destruct neg, k; cbn [not_op app tag_rule tag_tok]; unfold nd, tks, lits; rewrite !child_rule_cons; unfold is_rule; evalb; cbv beta iota;
        rewrite ?T; reflexivity.
    - pick. cbn [spec_atom kids_of]. unfold date_range, range_of, tk.
      destruct t as [t|]; cbn [opt_tok tk]; unfold tk; rewrite !child_tok_cons; unfold is_tok; evalb; cbv beta iota; cbn [text_of child_tok List.find];
        destruct (from_date_spec today (skipn 1 h)) as [d| | |]; cbn [bind]; try reflexivity;
        destruct (from_date_spec today (skipn 1 t)) as [e| | |]; reflexivity.
    - pick. cbn [spec_atom kids_of]. unfold date_range, range_of, tk.
      destruct t as [t|]; cbn [opt_tok tk]; unfold tk; rewrite !child_tok_cons; unfold is_tok; evalb; cbv beta iota; cbn [text_of child_tok List.find];
        destruct (from_date_spec today (skipn 1 h)) as [d| | |]; cbn [bind]; try reflexivity;
        destruct (from_date_spec today (skipn 1 t)) as [e| | |]; reflexivity.
    - pick. cbn [spec_atom]. unfold atom_text. cbn [tree_of_atom text_of nd]. rewrite app_nil_r. reflexivity.
    - pick. cbn [spec_atom]. unfold atom_text. cbn [tree_of_atom text_of nd]. rewrite app_nil_r.
      match goal with |- context [startswith (S "!") ?t] => replace (startswith (S "!") t) with neg by (destruct neg; reflexivity) end.
      reflexivity.
    - pick. cbn [spec_atom]. unfold atom_text. cbn [tree_of_atom text_of nd]. rewrite app_nil_r.
      match goal with |- context [startswith (S "!") ?t] => replace (startswith (S "!") t) with neg by (destruct neg; reflexivity) end.
      reflexivity.
    - rewrite tree_of_sub. unfold add_atom. cbn [kids_of nd]. unfold nd. rewrite !child_rule_single. evalb. reflexivity.
  Qed.

  (* ---------------- and-groups ---------------- *)
  Lemma sep_by_cons2 (sep : list tree) x y r : sep_by sep (x :: y :: r) = x :: sep ++ sep_by sep (y :: r).
  Proof. reflexivity. Qed.
  Lemma rules_named_atoms l :
    rules_named "where_atom" (sep_by [sp] (map tree_of_atom l)) = map tree_of_atom l.
  Proof.
    destruct l as [|a l]; [reflexivity|]. revert a. induction l as [|b r IH]; intros a.
    - cbn [map sep_by rules_named filter]. destruct a; reflexivity.
    - cbn [map]. rewrite sep_by_cons2. cbn [app]. unfold rules_named in *. cbn [filter].
      replace (is_rule "where_atom" (tree_of_atom a)) with true by (destruct a; reflexivity).
      replace (is_rule "where_atom" sp) with false by reflexivity.
      specialize (IH b). cbn [map] in IH. now rewrite IH.
  Qed.
  Lemma fold_atoms_spec l : forall f,
    fold_atoms today f (map tree_of_atom l) = res_fold (spec_atom today) f l.
  Proof.
    induction l as [|a l IH]; intros f; [reflexivity|]. cbn [map fold_atoms res_fold].
    rewrite add_atom_spec. destruct (spec_atom today f a); cbn [bind]; try reflexivity. apply IH.
  Qed.

  Lemma push_last_app {A} (x : A) gs g : push_last x (gs ++ [g]) = Ok (gs ++ [g ++ [x]]).
  Proof. unfold push_last. rewrite rev_app_distr. cbn [rev app]. now rewrite rev_involutive. Qed.

  Lemma seq_res_cons {A} (x : res A) l : seq_res (x :: l) = (a <- x ;; b <- seq_res l ;; Ok (a :: b)).
  Proof. reflexivity. Qed.

  Definition attach (n : nat) (f : and_filter) (x : qatom) : res and_filter :=
    match x with
    | ASub o => afs <- seq_res (map (spec_and_fuel n today) o) ;; Ok (add_or f afs)
    | _ => Ok f
    end.

  (* walking the (separated) and-groups of an or-filter appends their filters to the innermost open group *)
  Definition AndOK (n : nat) : Prop :=
    forall a af q gs g, spec_and_fuel n today a = Ok af ->
    qwalk (tree_of_and a) (mkQS q (gs ++ [g])) = Ok (mkQS q (gs ++ [g ++ [af]])).

  Lemma walk_ands n : AndOK n -> forall o afs q gs g,
    seq_res (map (spec_and_fuel n today) o) = Ok afs ->
    qwalk_list (sep_by [sp; lits "|"; sp] (map tree_of_and o)) (mkQS q (gs ++ [g])) = Ok (mkQS q (gs ++ [g ++ afs])).
  Proof.
    intros HA o. destruct o as [|a o]; intros afs q gs g H.
    { inversion H. cbn. now rewrite app_nil_r. }
    revert a afs g H. induction o as [|b r IH]; intros a afs g H.
    - cbn [map seq_res] in H. destruct (spec_and_fuel n today a) as [af| | |] eqn:E; try discriminate. inversion H; subst.
      cbn [map sep_by qwalk_list]. rewrite (HA a af q gs g E). reflexivity.
    - change (map (spec_and_fuel n today) (a :: b :: r))
        with (spec_and_fuel n today a :: map (spec_and_fuel n today) (b :: r)) in H.
      rewrite seq_res_cons in H.
      destruct (spec_and_fuel n today a) as [af| | |] eqn:E; try discriminate. cbn [bind] in H.
      destruct (seq_res (map (spec_and_fuel n today) (b :: r))) as [rest| | |] eqn:Er; try discriminate.
      cbn [bind] in H. inversion H; subst.
      cbn [map]. rewrite sep_by_cons2. cbn [qwalk_list]. rewrite (HA a af q gs g E). cbn [bind].
      change (qwalk_list ([sp; lits "|"; sp] ++ sep_by [sp; lits "|"; sp] (tree_of_and b :: map tree_of_and r))
                         {| qs_q := q; qs_groups := gs ++ [g ++ [af]] |})
        with (qwalk_list (sep_by [sp; lits "|"; sp] (tree_of_and b :: map tree_of_and r))
                         {| qs_q := q; qs_groups := gs ++ [g ++ [af]] |}).
      specialize (IH b rest (g ++ [af]) Er). cbn [map] in IH. rewrite IH.
      replace ((g ++ [af]) ++ rest) with (g ++ af :: rest) by (rewrite <- app_assoc; reflexivity). reflexivity.
  Qed.

  Lemma qwalk_nd_cold (r : string) kids st :
    hot (S r) = false -> qwalk (nd r 1 kids) st = qwalk_list kids st.
  Proof.
    intros H. unfold nd. rewrite qwalk_node, cold_enter by exact H. cbn [bind].
    destruct (qwalk_list kids st); cbn [bind]; try reflexivity. apply cold_exit. exact H.
  Qed.

  Lemma exit_sub q gs g fcur afs :
    qexit (S "subfilter") [] (mkQS q ((gs ++ [g ++ [fcur]]) ++ [afs])) = Ok (mkQS q (gs ++ [g ++ [add_or fcur afs]])).
  Proof.
    unfold qexit. rns. cbv beta iota. cbn [qs_groups qs_q].
    rewrite (rev_app_distr (gs ++ [g ++ [fcur]]) [afs]). cbn [rev app].
    rewrite (rev_app_distr gs [g ++ [fcur]]). cbn [rev app].
    rewrite (rev_app_distr g [fcur]). cbn [rev app].
    rewrite rev_involutive. cbn [rev]. rewrite rev_involutive. reflexivity.
  Qed.

  Lemma walk_sub n q gs g fcur o afs :
    AndOK n -> seq_res (map (spec_and_fuel n today) o) = Ok afs ->
    qwalk (tree_of_atom (ASub o)) (mkQS q (gs ++ [g ++ [fcur]])) = Ok (mkQS q (gs ++ [g ++ [add_or fcur afs]])).
  Proof.
    intros HA H. rewrite tree_of_sub. rewrite qwalk_nd_cold by reflexivity. cbn [qwalk_list].
    unfold nd at 1. rewrite qwalk_node. unfold QueryListener.qenter. rns. cbv beta iota. cbn [bind qs_q qs_groups].
    unfold tks. cbn [qwalk_list]. rewrite qwalk_tok. cbn [bind].
    unfold tree_of_or. rewrite qwalk_nd_cold by reflexivity.
    rewrite (walk_ands n HA o afs q (gs ++ [g ++ [fcur]]) [] H). cbn [bind app]. rewrite qwalk_tok. cbn [bind].
    assert (E : forall k, qexit (S "subfilter") k (mkQS q ((gs ++ [g ++ [fcur]]) ++ [afs])) =
                        qexit (S "subfilter") [] (mkQS q ((gs ++ [g ++ [fcur]]) ++ [afs]))) by reflexivity.
    rewrite E, exit_sub. reflexivity.
  Qed.

  Lemma walk_atoms n q gs g : AndOK n -> forall l fcur ffin,
    res_fold (attach n) fcur l = Ok ffin ->
    qwalk_list (sep_by [sp] (map tree_of_atom l)) (mkQS q (gs ++ [g ++ [fcur]])) = Ok (mkQS q (gs ++ [g ++ [ffin]])).
  Proof.
    intros HA l. destruct l as [|a l]; intros fcur ffin H; [inversion H; reflexivity|].
    assert (Step : forall x fc fn, attach n fc x = Ok fn ->
              qwalk (tree_of_atom x) (mkQS q (gs ++ [g ++ [fc]])) = Ok (mkQS q (gs ++ [g ++ [fn]]))).
    { intros x fc fn Hx. destruct (is_sub x) eqn:Es.
      - destruct x; try discriminate. cbn [attach] in Hx.
        destruct (seq_res (map (spec_and_fuel n today) o)) as [afs| | |] eqn:Eo; try discriminate. inversion Hx; subst.
        eapply walk_sub; eassumption.
      - rewrite qwalk_cold by (apply cold_atom; exact Es). destruct x; try discriminate; inversion Hx; reflexivity. }
    revert a fcur ffin H. induction l as [|b r IH]; intros a fcur ffin H.
    - cbn [res_fold] in H. destruct (attach n fcur a) as [f1| | |] eqn:E1; try discriminate. inversion H; subst.
      cbn [map sep_by qwalk_list]. rewrite (Step a fcur ffin E1). reflexivity.
    - change (res_fold (attach n) fcur (a :: b :: r)) with (f' <- attach n fcur a ;; res_fold (attach n) f' (b :: r)) in H.
      destruct (attach n fcur a) as [f1| | |] eqn:E1; try discriminate. cbn [bind] in H.
      cbn [map]. rewrite sep_by_cons2. cbn [qwalk_list]. rewrite (Step a fcur f1 E1). cbn [bind].
      change (qwalk_list ([sp] ++ sep_by [sp] (tree_of_atom b :: map tree_of_atom r)) {| qs_q := q; qs_groups := gs ++ [g ++ [f1]] |})
        with (qwalk_list (sep_by [sp] (tree_of_atom b :: map tree_of_atom r)) {| qs_q := q; qs_groups := gs ++ [g ++ [f1]] |}).
      specialize (IH b f1 ffin H). cbn [map] in IH. exact IH.
  Qed.

  Lemma and_ok : forall n, AndOK n.
  Proof.
    induction n as [|n IH]; intros a af q gs g H; [discriminate|].
    cbn [spec_and_fuel] in H. destruct (res_fold (spec_atom today) empty_af a) as [f| | |] eqn:Ef; try discriminate.
    cbn [bind] in H. fold (attach n) in H.
    unfold tree_of_and, nd. rewrite qwalk_node. unfold QueryListener.qenter. rns. cbv beta iota.
    rewrite rules_named_atoms, fold_atoms_spec, Ef. cbn [bind qs_groups qs_q]. rewrite push_last_app. cbn [bind].
    rewrite (walk_atoms n q gs g IH a f af H). cbn [bind]. unfold qexit. rns. reflexivity.
  Qed.

  (* ---------------- S / O / G clauses ---------------- *)
  Lemma rules_named_sep (n : string) (f : tree -> bool) (l : list tree) :
    (forall t, In t l -> is_rule n t = true) ->
    rules_named n (sep_by [sp] l) = l.
  Proof.
    destruct l as [|a l]; [reflexivity|]. revert a. induction l as [|b r IH]; intros a H.
    - cbn [sep_by rules_named filter]. rewrite H by (left; reflexivity). reflexivity.
    - rewrite sep_by_cons2. cbn [app]. unfold rules_named in *. cbn [filter]. rewrite H by (left; reflexivity).
      replace (is_rule n sp) with false by reflexivity. rewrite IH; [reflexivity|]. intros t Ht. apply H. right. exact Ht.
  Qed.
  Lemma colds_sep l : colds l = true -> colds (sep_by [sp] l) = true.
  Proof.
    destruct l as [|a l]; [reflexivity|]. revert a. induction l as [|b r IH]; intros a H; [exact H|].
    rewrite sep_by_cons2. cbn [app colds] in *. apply andb_prop in H. destruct H as [H1 H2]. rewrite H1. cbn [andb].
    apply IH. exact H2.
  Qed.
  Lemma colds_map {A} (f : A -> tree) l : (forall x, cold (f x) = true) -> colds (map f l) = true.
  Proof. intros H. induction l as [|x l IH]; [reflexivity|]. cbn [map colds]. now rewrite H, IH. Qed.

  Lemma order_atoms os :
    seq_res (map order_atom (map tree_of_okey os)) = Ok (map okey_str os).
  Proof.
    induction os as [|k os IH]; [reflexivity|]. cbn [map]. rewrite seq_res_cons, IH.
    replace (order_atom (tree_of_okey k)) with (Ok (A := str) (okey_str k)) by (destruct k; reflexivity). reflexivity.
  Qed.
  Lemma group_atoms gs :
    seq_res (map group_atom (map tree_of_gkey gs)) =
    Ok (map (fun k => match gkey_str k with x :: _ => Some x | [] => None end) gs).
  Proof.
    induction gs as [|k gs IH]; [reflexivity|]. cbn [map]. rewrite seq_res_cons, IH.
    replace (group_atom (tree_of_gkey k)) with (Ok (A := option str) (match gkey_str k with x :: _ => Some x | [] => None end))
      by (destruct k as [| | | | |[]]; reflexivity). reflexivity.
  Qed.
  Lemma group_flat gs :
    flat_map (fun o : option str => match o with Some s => [s] | None => [] end)
             (map (fun k => match gkey_str k with x :: _ => Some x | [] => None end) gs) = flat_map gkey_str gs.
  Proof. induction gs as [|k gs IH]; [reflexivity|]. cbn [map flat_map]. rewrite IH. destruct k as [| | | | |[]]; reflexivity. Qed.

  Definition with_order (q : query) (o : list str) : query := mkQ (q_select q) (q_where q) o (q_group q).
  Definition with_group (q : query) (g : list str) : query := mkQ (q_select q) (q_where q) (q_order q) g.

  Lemma walk_order os q gs :
    qwalk (tree_of_order os) (mkQS q gs) = Ok (mkQS (with_order q (map okey_str os)) gs).
  Proof.
    unfold tree_of_order. rewrite qwalk_nd_cold by reflexivity. cbn [qwalk_list]. unfold lits, sp, tks. repeat (rewrite qwalk_tok; cbn [bind]).
    unfold nd. rewrite qwalk_node. unfold QueryListener.qenter. rns. cbv beta iota.
    fold sp. rewrite (rules_named_sep "order_by_atom" (fun _ => true)) by (intros t Ht; apply in_map_iff in Ht; destruct Ht as (k & <- & _); destruct k; reflexivity).
    rewrite order_atoms. cbn [bind].
    rewrite qwalk_colds by (apply colds_sep, colds_map; intros k; destruct k; reflexivity). cbn [bind].
    unfold qexit. rns. reflexivity.
  Qed.
  Lemma walk_group ks q gs :
    qwalk (tree_of_group ks) (mkQS q gs) = Ok (mkQS (with_group q (flat_map gkey_str ks)) gs).
  Proof.
    unfold tree_of_group. rewrite qwalk_nd_cold by reflexivity. cbn [qwalk_list]. unfold lits, sp, tks. repeat (rewrite qwalk_tok; cbn [bind]).
    unfold nd. rewrite qwalk_node. unfold QueryListener.qenter. rns. cbv beta iota.
    fold sp. rewrite (rules_named_sep "group_by_atom" (fun _ => true)) by (intros t Ht; apply in_map_iff in Ht; destruct Ht as (k & <- & _); destruct k as [| | | | |[]]; reflexivity).
    rewrite group_atoms. cbn [bind]. rewrite group_flat.
    rewrite qwalk_colds by (apply colds_sep, colds_map; intros k; destruct k as [| | | | |[]]; reflexivity). cbn [bind].
    unfold qexit. rns. reflexivity.
  Qed.

  Lemma walk_og og q gs :
    qwalk (tree_of_og og) (mkQS q gs) =
    Ok (mkQS (mkQ (q_select q) (q_where q)
                  (match og_order og with Some os => map okey_str os | None => q_order q end)
                  (match og_group og with Some ks => flat_map gkey_str ks | None => q_group q end)) gs).
  Proof.
    unfold tree_of_og. rewrite qwalk_nd_cold by reflexivity.
    destruct og as [|os|ks|os ks|ks os]; cbn [qwalk_list og_order og_group]; unfold sp, tks; rewrite ?qwalk_tok; cbn [bind];
      rewrite ?walk_order, ?walk_group; cbn [bind]; rewrite ?qwalk_tok; cbn [bind]; rewrite ?walk_order, ?walk_group; cbn [bind];
      try reflexivity; destruct q; reflexivity.
  Qed.

  Lemma walk_select s q gs :
    qwalk (tree_of_select s) (mkQS q gs) = Ok (mkQS (mkQ (select_of s) (q_where q) (q_order q) (q_group q)) gs).
  Proof.
    assert (E : forall f, select_from_field (tree_of_field f) = Ok (sel_of f)).
    { intros f. destruct f as [| | |k| |[]]; try reflexivity.
      unfold select_from_field, tree_of_field, nd, kw, nd, tks, lits, qid, tk. cbn [kids_of]. unfold has_tok, has_rule.
      rewrite !child_tok_cons, !child_rule_cons. unfold is_tok, is_rule. evalb. cbv beta iota.
      cbn [child_tok child_rule List.find]. cbv beta iota.
      replace (text_of (Node (S "prop_values") 1 [Node (S "prop") 1 [Tok (S "LIT") (S "prop")]; Tok (S "COLON") (S ":"); Node (S "id") 1 [Tok (S "ID") k]]))
        with (S "prop:" ++ k) by (cbn; now rewrite !app_nil_r).
      cbn. repeat match goal with |- context [ceqb ?a ?b] => let v := eval vm_compute in (ceqb a b) in change (ceqb a b) with v end.
      cbn [andb]. cbv beta iota. rewrite ?app_nil_r. reflexivity. }
    unfold tree_of_select, nd. rewrite qwalk_node. unfold QueryListener.qenter. rns. cbv beta iota.
    unfold enter_select. destruct s as [f|f]; unfold lits, sp, tks; rewrite !child_rule_cons; unfold is_rule; evalb; cbv beta iota; cbn [kids_of];
      unfold tree_of_field at 1, nd at 1; rewrite ?child_rule_cons; unfold is_rule; evalb; cbv beta iota.
    - fold (nd "select_field" 1 [match f with
                                 | FFile => kw "file" "file" | FNote => kw "note" "note" | FProp => kw "prop" "prop" | FLinks => kw "links" "links"
                                 | FPropValues k => nd "prop_values" 1 [kw "prop" "prop"; tks "COLON" ":"; qid k]
                                 | FTag k => tag_tok k end]).
      fold (tree_of_field f). rewrite E. cbn [rmap bind].
      rewrite qwalk_colds by (destruct f as [| | |k| |[]]; reflexivity). cbn [bind]. unfold qexit. rns. reflexivity.
    - change (child_rule "select_field" []) with (@None tree). cbn [kids_of]. cbv beta iota. unfold kw, nd, lits.
      rewrite !child_rule_cons. unfold is_rule. evalb. cbv beta iota.
      assert (F : is_rule "select_field" (tree_of_field f) = true) by (destruct f; reflexivity).
      assert (F' : is_rule "func_name" (tree_of_field f) = false) by (destruct f; reflexivity).
      unfold is_rule in F, F'. rewrite ?F, ?F'. cbv beta iota. rewrite E. cbn [bind text_of app].
      rewrite qwalk_colds by (destruct f as [| | |k| |[]]; reflexivity). cbn [bind]. unfold qexit. rns. reflexivity.
  Qed.

  (* ---------------- whole queries ---------------- *)
  Lemma walk_where n w afs q :
    seq_res (map (spec_and_fuel n today) w) = Ok afs ->
    qwalk (tree_of_where w) (mkQS q []) = Ok (mkQS (mkQ (q_select q) (Some afs) (q_order q) (q_group q)) [afs]).
  Proof.
    intros H. unfold tree_of_where, nd. rewrite qwalk_node. unfold QueryListener.qenter. rns. cbv beta iota. cbn [bind qs_q qs_groups app].
    cbn [qwalk_list]. unfold lits, sp, tks. repeat (rewrite qwalk_tok; cbn [bind]).
    fold (nd "where_body" 1 [tree_of_or w]). rewrite qwalk_nd_cold by reflexivity. cbn [qwalk_list].
    unfold tree_of_or. rewrite qwalk_nd_cold by reflexivity.
    fold sp. fold (lits "|").
    change (sep_by [Tok (S "SPACE") (S " "); lits "|"; Tok (S "SPACE") (S " ")] (map tree_of_and w))
      with (sep_by [sp; lits "|"; sp] (map tree_of_and w)).
    pose proof (walk_ands n (and_ok n) w afs q [] [] H) as W. cbn [app] in W. rewrite W. cbn [bind].
    unfold qexit. rns. reflexivity.
  Qed.

  Theorem query_correct q qq :
    spec_query today q = Ok qq -> qlisten today (tree_of_query q) = Ok qq.
  Proof.
    unfold spec_query, qlisten. intros H. unfold tree_of_query.
    rewrite qwalk_nd_cold by reflexivity. cbn [qwalk_list]. rewrite qwalk_nd_cold by reflexivity. cbn [qwalk_list].
    destruct q as [s w og|s og]; cbn [spec_query_fuel] in H.
    - unfold spec_or_fuel in H.
      destruct (seq_res (map (spec_and_fuel (Datatypes.S (or_depth w)) today) w)) as [afs| | |] eqn:E; try discriminate.
      cbn [bind] in H. inversion H; subst. clear H.
      rewrite qwalk_nd_cold by reflexivity.
      destruct s as [s|]; cbn [app qwalk_list].
      + rewrite walk_select. cbn [bind]. unfold sp, tks. rewrite qwalk_tok. cbn [bind].
        rewrite (walk_where _ w afs _ E). cbn [bind]. rewrite walk_og. reflexivity.
      + rewrite (walk_where _ w afs _ E). cbn [bind]. rewrite walk_og. reflexivity.
    - inversion H; subst. clear H. rewrite qwalk_nd_cold by reflexivity. cbn [qwalk_list].
      rewrite walk_select. cbn [bind]. rewrite walk_og. reflexivity.
  Qed.
End QW.
