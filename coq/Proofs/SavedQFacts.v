From Zorg Require Import Base.PyStr Base.Sexp Base.Res Proofs.PyStrFacts Model.SavedQ.

Lemma bind_ok_inv {A B} (r : res A) (f : A -> res B) b :
  bind r f = Ok b -> exists a, r = Ok a /\ f a = Ok b.
Proof. destruct r; simpl; intros H; try discriminate; eauto. Qed.

(* ---- a text without '{' references nothing and expands to itself ---- *)
Lemma names_fuel_no_lbrace : forall f s, mem_c lbrace s = false -> names_fuel f s = [].
Proof.
  induction f as [|f IH]; intros s H; [reflexivity|].
  destruct s as [|c s']; [reflexivity|]. cbn [names_fuel].
  unfold mem_c in H. cbn [existsb] in H. apply orb_false_elim in H. destruct H as [H1 H2].
  assert (E : ceqb c lbrace = false).
  { destruct (ceqb c lbrace) eqn:E; auto. apply ceqb_eq in E. subst. rewrite ceqb_refl in H1. discriminate. }
  rewrite E. now apply IH.
Qed.

Lemma expand_no_refs fuel sv q : mem_c lbrace q = false -> expand fuel sv q = Ok q.
Proof.
  intros H. unfold expand, names_in. rewrite names_fuel_no_lbrace by exact H. reflexivity.
Qed.

(* ---- a reference to a saved query that does not exist is an error ---- *)
Lemma seq_res_exn_in {A} (l : list (res A)) k :
  In (Exn k) l -> (forall r, In r l -> r = Exn k \/ exists a, r = Ok a) -> seq_res l = Exn k.
Proof.
  induction l as [|r l IH]; intros Hin Hall; [contradiction|].
  simpl. destruct (Hall r (or_introl eq_refl)) as [->|(a & ->)]; [reflexivity|].
  simpl. destruct Hin as [E|Hin]; [discriminate|].
  rewrite IH; auto. intros r' Hr'. apply Hall. now right.
Qed.

Lemma where_of_missing f sv n : sv_lookup n sv = None -> where_of (Datatypes.S f) sv n = Exn (S "missing").
Proof. intros H. cbn [where_of]. now rewrite H. Qed.

Lemma expand_missing_first f sv q n rest :
  names_in q = n :: rest -> sv_lookup n sv = None -> expand (Datatypes.S f) sv q = Exn (S "missing").
Proof.
  intros Hn Hl. unfold expand. rewrite Hn. cbn [map seq_res].
  rewrite where_of_missing by exact Hl. reflexivity.
Qed.

(* whenever expansion succeeds, every referenced name exists *)
Lemma seq_res_ok_all {A B} (f : A -> res B) l out :
  seq_res (map f l) = Ok out -> forall x, In x l -> exists y, f x = Ok y.
Proof.
  revert out. induction l as [|a l IH]; intros out H x Hin; [contradiction|].
  simpl in H. apply bind_ok_inv in H. destruct H as (y & Hy & H).
  apply bind_ok_inv in H. destruct H as (ys & Hys & _).
  destruct Hin as [<-|Hin]; eauto.
Qed.

Theorem expand_ok_all_exist fuel sv q out :
  expand fuel sv q = Ok out -> forall n, In n (names_in q) -> sv_lookup n sv <> None.
Proof.
  intros H n Hin. unfold expand in H. apply bind_ok_inv in H. destruct H as (subs & Hs & _).
  destruct (seq_res_ok_all _ _ _ Hs n Hin) as (y & Hy).
  unfold rmap in Hy. apply bind_ok_inv in Hy. destruct Hy as (w & Hw & _).
  destruct fuel as [|f]; [discriminate|]. cbn [where_of] in Hw.
  destruct (sv_lookup n sv); [discriminate|discriminate].
Qed.

(* ---- a saved clause with alternatives is spliced in parentheses ---- *)
Lemma where_of_paren f sv n text w :
  sv_lookup n sv = Some text -> mem_str (S "|") (where_words text) = true ->
  where_of (Datatypes.S f) sv n = Ok w -> exists w', w = S "(" ++ w' ++ S ")".
Proof.
  intros Hl Hb H. cbn [where_of] in H. rewrite Hl in H.
  apply bind_ok_inv in H. destruct H as (subs & _ & H).
  apply bind_ok_inv in H. destruct H as (w' & _ & H).
  rewrite Hb in H. exists w'. now inversion H.
Qed.

(* ---- termination on acyclic sets ---- *)
Definition refs (sv : saved) (n : str) : list str :=
  match sv_lookup n sv with
  | Some text => names_in (join (S " ") (where_words text))
  | None => []
  end.
Definition acyclic (sv : saved) (rank : str -> nat) : Prop :=
  forall n m, In m (refs sv n) -> rank m < rank n.

Lemma seq_res_not_fuel {A} (l : list (res A)) :
  (forall r, In r l -> r <> OutOfFuel) -> seq_res l <> OutOfFuel.
Proof.
  induction l as [|r l IH]; simpl; intros H; [discriminate|].
  assert (Hr : r <> OutOfFuel) by (apply H; now left).
  destruct r as [a| | |]; simpl; try discriminate; [|congruence].
  assert (Hl : seq_res l <> OutOfFuel) by (apply IH; intros; apply H; now right).
  destruct (seq_res l); simpl; try discriminate; congruence.
Qed.

Lemma subst_all_not_fuel subs : forall t, subst_all subs t <> OutOfFuel.
Proof.
  induction subs as [|[n w] r IH]; intros t; simpl; [discriminate|].
  destruct (has_brace w); [discriminate|apply IH].
Qed.

Lemma where_of_terminates sv rank : acyclic sv rank ->
  forall fuel n, rank n < fuel -> where_of fuel sv n <> OutOfFuel.
Proof.
  intros Hac. induction fuel as [|f IH]; intros n Hr; [lia|].
  cbn [where_of]. destruct (sv_lookup n sv) as [text|] eqn:Hl; [|discriminate].
  set (w0 := join (S " ") (where_words text)).
  assert (Hs : seq_res (map (fun n0 => rmap (fun w => (n0, w)) (where_of f sv n0)) (names_in w0)) <> OutOfFuel).
  { apply seq_res_not_fuel. intros r Hin. apply in_map_iff in Hin. destruct Hin as (m & <- & Hm).
    assert (Hlt : rank m < rank n). { apply Hac. unfold refs. rewrite Hl. exact Hm. }
    assert (Hw : where_of f sv m <> OutOfFuel) by (apply IH; lia).
    unfold rmap. destruct (where_of f sv m); simpl; try discriminate; congruence. }
  destruct (seq_res _) as [subs| | |]; simpl; try discriminate; [|congruence].
  pose proof (subst_all_not_fuel subs w0) as Hsub.
  destruct (subst_all subs w0); simpl; try discriminate; congruence.
Qed.

Theorem expand_terminates sv rank bound : acyclic sv rank -> (forall n, rank n < bound) ->
  forall q, expand bound sv q <> OutOfFuel.
Proof.
  intros Hac Hb q. unfold expand.
  assert (Hs : seq_res (map (fun n => rmap (fun w => (n, w)) (where_of bound sv n)) (names_in q)) <> OutOfFuel).
  { apply seq_res_not_fuel. intros r Hin. apply in_map_iff in Hin. destruct Hin as (m & <- & Hm).
    pose proof (where_of_terminates sv rank Hac bound m (Hb m)) as Hw.
    unfold rmap. destruct (where_of bound sv m); simpl; try discriminate; congruence. }
  destruct (seq_res _) as [subs| | |]; simpl; try discriminate; [|congruence].
  apply subst_all_not_fuel.
Qed.
